#!/bin/sh
# Build everything the checks need from files on disk only (idempotent, flock-guarded).
#   .build/bin/xmlsec1        test double for the xmlsec1 CLI on top of libxmlsec1 (DESIGN.md §1)
#   .build/bin/xmlsec1-asan   same, -fsanitize=address,undefined (thorough tiers)
#   .deps/                    icontract, jsonschema (pip --no-index from the offline wheelhouse)
set -e
HERE="$(cd "$(dirname "$0")" && pwd)"
cd "$HERE"
mkdir -p .build/bin .deps
exec 9>.build/.lock
flock 9

CFLAGS="-O1 -g -D__XMLSEC_FUNCTION__=__func__ -DXMLSEC_NO_SIZE_T -DXMLSEC_NO_CRYPTO_DYNAMIC_LOADING=1 -DXMLSEC_CRYPTO_OPENSSL=1 -I/usr/include/xmlsec1 -I/usr/include/libxml2"
LIBS="-lxmlsec1-openssl -lxmlsec1 -lxslt -lxml2 -lssl -lcrypto"
SRC=tools/xmlsec1_shim.c

if [ ! -x .build/bin/xmlsec1 ] || [ "$SRC" -nt .build/bin/xmlsec1 ]; then
    gcc $CFLAGS "$SRC" -o .build/bin/xmlsec1.tmp $LIBS
    mv .build/bin/xmlsec1.tmp .build/bin/xmlsec1
fi
if [ ! -x .build/bin/xmlsec1-asan ] || [ "$SRC" -nt .build/bin/xmlsec1-asan ]; then
    if gcc $CFLAGS -fsanitize=address,undefined -fno-sanitize-recover=all "$SRC" -o .build/bin/xmlsec1-asan.tmp $LIBS 2>.build/asan-build.log; then
        mv .build/bin/xmlsec1-asan.tmp .build/bin/xmlsec1-asan
    else
        echo "setup: sanitizer build of the driver failed (thorough tiers fall back to the plain one)" >&2
    fi
fi

if [ ! -f .deps/.ok ]; then
    PIP_NO_INDEX=1 /venv/bin/python -m pip install --quiet --no-index --find-links /opt/veriftools/wheels \
        --target .deps icontract jsonschema >.build/pip.log 2>&1 || {
        echo "setup: pip install into .deps failed; see .build/pip.log (checks fall back to built-in wrappers)" >&2
    }
    touch .deps/.ok
fi
.build/bin/xmlsec1 --version >/dev/null
echo "setup ok"
