#!/bin/sh
# Run the repository's pinned test suite on a scratch copy of /repo's working tree (so that no
# stray files land in /repo) with the verification guard OFF, and compare with BASELINE.json.
set -e
SCR=$(mktemp -d /tmp/pysaml2-baseline-XXXXXX)
rsync -a --exclude .git /repo/ "$SCR/repo/"
cd "$SCR/repo"
env -u PYSAML2_TOPHAT_VERIF PYTHONPATH="$SCR/repo/src" /venv/bin/python -m pytest -q -p no:cacheprovider --timeout=900 \
   --continue-on-collection-errors --junitxml="$SCR/junit.xml" >"$SCR/out.txt" 2>&1 || true
tail -3 "$SCR/out.txt"
/venv/bin/python - "$SCR/junit.xml" <<'PY'
import json, sys, xml.etree.ElementTree as ET
base = set(json.load(open('/root/.vp/BASELINE.json'))['stable_pass'])
passed = set()
for tc in ET.parse(sys.argv[1]).getroot().iter('testcase'):
    if not list(tc):
        passed.add('%s::%s' % (tc.get('classname'), tc.get('name')))
missing = sorted(base - passed)
print('baseline stable tests: %d, passing now: %d, missing: %d' % (len(base), len(base & passed), len(missing)))
for m in missing[:20]:
    print('  MISSING', m)
sys.exit(1 if missing else 0)
PY
RC=$?
rm -rf "$SCR"
exit $RC
