#!/usr/bin/env python3
"""Rewrites the table between <!-- BUDGET-TABLE-BEGIN/END --> in DESIGN.md from the evidence files of the last run in /verif
(what the checks actually executed, as opposed to the planning figures of phase 1)."""
import glob
import json
import os

HERE = os.path.dirname(os.path.dirname(os.path.abspath(__file__)))
rows = []
for f in sorted(glob.glob(os.path.join(HERE, "evidence", "C*.json"))):
    e = json.load(open(f))
    c = e["coverage"]
    mc = c.get("monitor_counters", {})
    rows.append("| %s | %s | %s | %d | %d | %s | %s | %s | %.0f |" % (
        e["property_id"], e["tier"], e["seed"], c.get("evaluations", 0), c.get("distinct_nontrivial", 0), mc.get("cases_under_python_O", "-"),
        mc.get("cases_under_debug_logging", "-"), mc.get("yields_injected", "-"), e.get("wall_s", 0)))
table = "| id | tier | seed | evaluations | distinct non-trivial | cases under -O | cases under debug logging | yields injected | wall s |\n|---|---|---|---|---|---|---|---|---|\n" + "\n".join(rows)
p = os.path.join(HERE, "DESIGN.md")
s = open(p).read()
b, e_ = "<!-- BUDGET-TABLE-BEGIN -->", "<!-- BUDGET-TABLE-END -->"
if b in s:
    s = s[:s.index(b) + len(b)] + "\n" + table + "\n" + s[s.index(e_):]
    open(p, "w").write(s)
print(table)
