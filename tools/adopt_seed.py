#!/usr/bin/env python3
"""tools/adopt_seed.py <Cnn> <round> <worktree> "<needs to manifest>" [extra check ids...]
Copies <worktree>/_seed/{patch.diff,demo.py,notes.md} to seeded/<Cnn>-agent<round>/, confirms the change with
tools/verify_seed.sh (demo on clean/modified scratch copies, pinned tests) and writes meta.json.  The seed is kept only when
confirmed; whether our quick check caught it at this first contact is recorded as is."""
import json, os, re, shutil, subprocess, sys
prop, rnd, wt, needs = sys.argv[1:5]
extra = sys.argv[5:]
here = os.path.dirname(os.path.dirname(os.path.abspath(__file__)))
dst = os.path.join(here, "seeded", "%s-agent%s" % (prop, rnd))
os.makedirs(dst, exist_ok=True)
for f in ("patch.diff", "demo.py", "notes.md"):
    src = os.path.join(wt, "_seed", f)
    if os.path.exists(src):
        shutil.copy(src, os.path.join(dst, f))
out = subprocess.run([os.path.join(here, "tools", "verify_seed.sh"), dst, prop], stdout=subprocess.PIPE, stderr=subprocess.STDOUT).stdout.decode()
print(out)
m = re.search(r"patch_applies=(\d+) demo_clean_rc=(\d+) demo_modified_rc=(\d+) baseline_missing=(\d+) check_rc=(\d+) keys=\[(.*?)\]", out)
pa, dc, dm, bm, cr, keys = m.groups()
ok = pa == "0" and dc == "0" and dm != "0" and bm == "0"
if not ok:
    print("NOT CONFIRMED - seed not adopted"); shutil.rmtree(dst); sys.exit(1)
meta = {"property": prop, "checks": [prop] + extra,
        "origin": "independent sub-agent given only the property text, a scratch worktree and a list of what rounds 1 and 2 had already used (round %s)" % rnd,
        "needs_to_manifest": needs,
        "confirmed": {"how": "tools/verify_seed.sh on a scratch copy of /repo (removed afterwards)", "demo_on_unmodified_tree": "exit 0 (PASS)",
                      "demo_on_modified_tree": "exit %s (FAIL)" % dm, "pinned_308_tests_with_change": "all 308 stable tests still pass"},
        "caught_by_quick_check_when_first_run": cr == "1", "first_contact_keys": keys.split()}
json.dump(meta, open(os.path.join(dst, "meta.json"), "w"), indent=1)
print("ADOPTED %s caught=%s" % (dst, cr == "1"))
