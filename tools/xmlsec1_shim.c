/*
 * Test double: a minimal re-implementation of the xmlsec1 command line tool on top of
 * libxmlsec1 (the CLI binary itself is not installed here; the library is).
 * Supports exactly the option subset pysaml2 uses:
 *   --version, --list-transforms (both take part in VERIF_FAULT plans of kind 'any' / 'version' / 'list-transforms')
 *   --verify  --enabled-reference-uris L --pubkey-cert-pem F | --pubkey-cert-der F
 *             --id-attr:NAME [NS:]NODE [--node-id ID] --output O FILE
 *   --sign    --privkey-pem F --id-attr:NAME [NS:]NODE [--node-id ID] --output O FILE
 *   --encrypt --pubkey-cert-pem F --session-key K-N --xml-data F
 *             [--node-xpath X] [--node-id ID] --output O TEMPLATE
 *   --decrypt --privkey-pem F --id-attr:NAME [NS:]NODE --output O FILE
 * Behaviour mirrors apps/xmlsec.c of xmlsec 1.2.x: ID attributes are registered
 * only on elements with the given name; the start node is found by --node-id /
 * --node-xpath / root; the operation node is the first ds:Signature /
 * xenc:EncryptedData found depth-first from the start node (xmlSecFindNode);
 * --verify prints OK / FAIL on stderr.
 */
#include <stdio.h>
#include <stdlib.h>
#include <string.h>

#include <libxml/tree.h>
#include <libxml/xmlmemory.h>
#include <libxml/parser.h>
#include <libxml/xpath.h>
#include <libxml/xpathInternals.h>

#include <xmlsec/xmlsec.h>
#include <xmlsec/xmltree.h>
#include <xmlsec/xmldsig.h>
#include <xmlsec/xmlenc.h>
#include <xmlsec/keys.h>
#include <xmlsec/keysmngr.h>
#include <xmlsec/transforms.h>
#include <xmlsec/parser.h>
#include <xmlsec/crypto.h>
#include <xmlsec/app.h>
#include <xmlsec/openssl/crypto.h>
#include <xmlsec/openssl/evp.h>
#include <openssl/evp.h>

#define MAX_IDATTR 8

static const char *opt_output, *opt_node_id, *opt_node_xpath, *opt_xml_data;
static const char *opt_session_key, *opt_enabled_uris, *opt_enabled_key_data, *opt_cipher_ref_uris, *opt_retrieval_uris;
static const char *log_key_used = "";   /* verify: "given" = the key loaded from the command line verified, "keyinfo" = another one (from the document) */
static xmlSecKeyPtr given_key = NULL;
static const char *opt_privkey_pem, *opt_pubcert_pem, *opt_pubcert_der, *opt_pubkey_pem;
static const char *idattr_name[MAX_IDATTR], *idattr_node[MAX_IDATTR];
static int n_idattr;
static const char *input_file;


/* ------------------------------------------------------------------ */
/* event log (VERIF_XMLSEC_LOG) and fault injection (VERIF_FAULT)      */
/* ------------------------------------------------------------------ */
#include <unistd.h>
#include <fcntl.h>
#include <signal.h>
#include <sys/file.h>
#include <sys/stat.h>

static const char *log_verdict = "";
static const char *log_fault = "";
static int log_fault_index = 0;

typedef struct { char *p; size_t n, cap; } sbuf;
static void sb_put(sbuf *b, const char *s, size_t n) {
    if (b->n + n + 1 > b->cap) {
        b->cap = (b->n + n + 1) * 2 + 256;
        b->p = realloc(b->p, b->cap);
    }
    memcpy(b->p + b->n, s, n); b->n += n; b->p[b->n] = 0;
}
static void sb_puts(sbuf *b, const char *s) { sb_put(b, s, strlen(s)); }
static void sb_json_str(sbuf *b, const char *s) {
    char tmp[8];
    sb_puts(b, "\"");
    for (; s && *s; s++) {
        unsigned char c = (unsigned char)*s;
        if (c == '"' || c == '\\') { tmp[0] = '\\'; tmp[1] = (char)c; sb_put(b, tmp, 2); }
        else if (c < 0x20 || c >= 0x7f) { snprintf(tmp, sizeof tmp, "\\u%04x", c); sb_put(b, tmp, 6); }
        else sb_put(b, (const char *)&c, 1);
    }
    sb_puts(b, "\"");
}
static void sb_b64_file(sbuf *b, const char *path) {
    static const char T[] = "ABCDEFGHIJKLMNOPQRSTUVWXYZabcdefghijklmnopqrstuvwxyz0123456789+/";
    FILE *f = path ? fopen(path, "rb") : NULL;
    unsigned char in[3]; char out[4]; size_t k;
    sb_puts(b, "\"");
    if (f) {
        while ((k = fread(in, 1, 3, f)) > 0) {
            if (k < 3) memset(in + k, 0, 3 - k);
            out[0] = T[in[0] >> 2];
            out[1] = T[((in[0] & 3) << 4) | (in[1] >> 4)];
            out[2] = k > 1 ? T[((in[1] & 15) << 2) | (in[2] >> 6)] : '=';
            out[3] = k > 2 ? T[in[2] & 63] : '=';
            sb_put(b, out, 4);
        }
        fclose(f);
    }
    sb_puts(b, "\"");
}

static void write_log(int argc, char **argv, const char *cmd, int rc) {
    const char *path = getenv("VERIF_XMLSEC_LOG");
    const char *kase = getenv("VERIF_CASE");
    sbuf b = {0, 0, 0};
    char num[64];
    int i, fd;
    if (path == NULL || *path == 0) return;
    sb_puts(&b, "{\"pid\":"); snprintf(num, sizeof num, "%d", (int)getpid()); sb_puts(&b, num);
    sb_puts(&b, ",\"case\":"); sb_json_str(&b, kase ? kase : "");
    sb_puts(&b, ",\"cmd\":"); sb_json_str(&b, cmd + 2);
    sb_puts(&b, ",\"argv\":[");
    for (i = 1; i < argc; i++) { if (i > 1) sb_puts(&b, ","); sb_json_str(&b, argv[i]); }
    sb_puts(&b, "],\"rc\":"); snprintf(num, sizeof num, "%d", rc); sb_puts(&b, num);
    sb_puts(&b, ",\"verdict\":"); sb_json_str(&b, log_verdict);
    sb_puts(&b, ",\"key_used\":"); sb_json_str(&b, log_key_used);
    sb_puts(&b, ",\"fault\":"); sb_json_str(&b, log_fault);
    sb_puts(&b, ",\"fault_index\":"); snprintf(num, sizeof num, "%d", log_fault_index); sb_puts(&b, num);
    sb_puts(&b, ",\"node_id\":"); sb_json_str(&b, opt_node_id ? opt_node_id : "");
    sb_puts(&b, ",\"id_attr_node\":"); sb_json_str(&b, n_idattr ? idattr_node[0] : "");
    sb_puts(&b, ",\"id_attr_name\":"); sb_json_str(&b, n_idattr ? idattr_name[0] : "");
    sb_puts(&b, ",\"cert_path\":"); sb_json_str(&b, opt_pubcert_pem ? opt_pubcert_pem : (opt_pubcert_der ? opt_pubcert_der : ""));
    sb_puts(&b, ",\"cert_b64\":"); sb_b64_file(&b, opt_pubcert_pem ? opt_pubcert_pem : opt_pubcert_der);
    sb_puts(&b, ",\"key_path\":"); sb_json_str(&b, opt_privkey_pem ? opt_privkey_pem : "");
    sb_puts(&b, ",\"input_b64\":"); sb_b64_file(&b, input_file);
    sb_puts(&b, ",\"xmldata_b64\":"); sb_b64_file(&b, opt_xml_data);
    sb_puts(&b, ",\"output_b64\":");
    if (strcmp(cmd, "--verify")) sb_b64_file(&b, opt_output); else sb_puts(&b, "\"\"");
    sb_puts(&b, "}\n");
    fd = open(path, O_WRONLY | O_APPEND | O_CREAT, 0644);
    if (fd >= 0) {
        size_t off = 0;
        flock(fd, LOCK_EX);
        while (off < b.n) {
            ssize_t w = write(fd, b.p + off, b.n - off);
            if (w <= 0) break;
            off += (size_t)w;
        }
        flock(fd, LOCK_UN);
        close(fd);
    }
    free(b.p);
}

/* VERIF_FAULT = <kind>:<pos>:<mode>; kind verify|sign|encrypt|decrypt|any,
 * pos = k (1-based) | all | fromK ; the per-kind invocation counter lives in
 * the file $VERIF_FAULT_STATE.<kind> */
static const char *fault_mode(const char *cmd) {
    static char mode[400];
    const char *plan = getenv("VERIF_FAULT"), *state = getenv("VERIF_FAULT_STATE");
    char kind[32], pos[32], path[1024];
    int count = 0, fd;
    FILE *f;
    if (plan == NULL || *plan == 0) return NULL;
    if (sscanf(plan, "%31[^:]:%31[^:]:%399s", kind, pos, mode) != 3) return NULL;
    if (strcmp(kind, "any") && strcmp(kind, cmd + 2)) return NULL;
    if (state && *state) {
        snprintf(path, sizeof path, "%s.%s", state, kind);
        fd = open(path, O_RDWR | O_CREAT, 0644);
        if (fd >= 0) {
            char buf[32]; ssize_t n;
            flock(fd, LOCK_EX);
            n = read(fd, buf, sizeof buf - 1);
            if (n > 0) { buf[n] = 0; count = atoi(buf); }
            count++;
            n = snprintf(buf, sizeof buf, "%d\n", count);
            if (lseek(fd, 0, SEEK_SET) == 0 && ftruncate(fd, 0) == 0 && write(fd, buf, (size_t)n) < 0) {}
            flock(fd, LOCK_UN);
            close(fd);
        }
        (void)f;
    } else count = 1;
    log_fault_index = count;
    if (!strcmp(pos, "all")) return mode;
    if (!strncmp(pos, "from", 4)) return count >= atoi(pos + 4) ? mode : NULL;
    return count == atoi(pos) ? mode : NULL;
}

static void damage_output(int garble) {
    struct stat st;
    FILE *f;
    if (opt_output == NULL || stat(opt_output, &st) != 0) return;
    if (garble) {
        long i, n = (long)st.st_size;
        f = fopen(opt_output, "r+b");
        if (!f) return;
        for (i = 0; i < n; i += 7) { fseek(f, i, SEEK_SET); fputc(0x01 + (int)(i % 23), f); }
        fclose(f);
    } else if (truncate(opt_output, st.st_size / 2) != 0) {}
}

static int add_id_attr(xmlNodePtr node, const xmlChar *attrName,
                       const xmlChar *nodeName, const xmlChar *nsHref) {
    xmlAttrPtr attr, tmp;
    xmlNodePtr cur;
    xmlChar *id;

    cur = xmlSecGetNextElementNode(node->children);
    while (cur != NULL) {
        if (add_id_attr(cur, attrName, nodeName, nsHref) < 0) return -1;
        cur = xmlSecGetNextElementNode(cur->next);
    }
    if (!xmlStrEqual(node->name, nodeName)) return 0;
    if ((nsHref != NULL) && (node->ns != NULL) &&
        (!xmlStrEqual(nsHref, node->ns->href))) return 0;
    for (attr = node->properties; attr != NULL; attr = attr->next)
        if (xmlStrEqual(attr->name, attrName)) break;
    if (attr == NULL) return 0;
    id = xmlNodeListGetString(node->doc, attr->children, 1);
    if (id == NULL) return 0;
    tmp = xmlGetID(node->doc, id);
    if (tmp == NULL) {
        xmlAddID(NULL, node->doc, id, attr);
    } else if (tmp != attr) {
        fprintf(stderr, "Error: duplicate ID attribute \"%s\"\n", id);
        xmlFree(id);
        return -1;
    }
    xmlFree(id);
    return 0;
}

/* load a document, register ids, locate the start node */
static xmlDocPtr load_doc(const char *filename, const xmlChar *defName,
                          const xmlChar *defNs, xmlNodePtr *start) {
    xmlDocPtr doc;
    xmlNodePtr cur;
    int i;

    doc = xmlSecParseFile(filename);
    if (doc == NULL || xmlDocGetRootElement(doc) == NULL) {
        fprintf(stderr, "Error: failed to parse xml file \"%s\"\n", filename);
        return NULL;
    }
    for (i = 0; i < n_idattr; i++) {
        xmlChar *buf = xmlStrdup(BAD_CAST idattr_node[i]);
        xmlChar *nodeName = BAD_CAST strrchr((char *)buf, ':');
        xmlChar *nsHref = NULL;
        if (nodeName != NULL) { *nodeName++ = '\0'; nsHref = buf; }
        else nodeName = buf;
        cur = xmlSecGetNextElementNode(doc->children);
        while (cur != NULL) {
            if (add_id_attr(cur, BAD_CAST idattr_name[i], nodeName, nsHref) < 0) {
                xmlFree(buf); xmlFreeDoc(doc); return NULL;
            }
            cur = xmlSecGetNextElementNode(cur->next);
        }
        xmlFree(buf);
    }
    if (opt_node_id != NULL) {
        xmlAttrPtr attr = xmlGetID(doc, BAD_CAST opt_node_id);
        if (attr == NULL) {
            fprintf(stderr, "Error: failed to find node with id=\"%s\"\n", opt_node_id);
            xmlFreeDoc(doc); return NULL;
        }
        cur = attr->parent;
    } else if (opt_node_xpath != NULL) {
        xmlXPathContextPtr ctx = xmlXPathNewContext(doc);
        xmlXPathObjectPtr obj;
        xmlNodePtr root = xmlDocGetRootElement(doc);
        xmlNsPtr ns;
        for (ns = root->nsDef; ns != NULL; ns = ns->next)
            if (ns->prefix != NULL) xmlXPathRegisterNs(ctx, ns->prefix, ns->href);
        obj = xmlXPathEval(BAD_CAST opt_node_xpath, ctx);
        if (obj == NULL || obj->nodesetval == NULL || obj->nodesetval->nodeNr != 1) {
            fprintf(stderr, "Error: xpath expression evaluation does not return a single node as expected\n");
            if (obj) xmlXPathFreeObject(obj);
            xmlXPathFreeContext(ctx); xmlFreeDoc(doc); return NULL;
        }
        cur = obj->nodesetval->nodeTab[0];
        xmlXPathFreeObject(obj);
        xmlXPathFreeContext(ctx);
    } else {
        cur = xmlDocGetRootElement(doc);
    }
    if (defName != NULL) {
        *start = xmlSecFindNode(cur, defName, defNs);
        if (*start == NULL) {
            fprintf(stderr, "Error: failed to find default node with name=\"%s\"\n", defName);
            xmlFreeDoc(doc); return NULL;
        }
    } else {
        *start = cur;
    }
    return doc;
}

static int write_result(xmlDocPtr doc, const xmlChar *buf, int len) {
    FILE *f = opt_output ? fopen(opt_output, "wb") : stdout;
    if (f == NULL) {
        fprintf(stderr, "Error: failed to open output file \"%s\"\n", opt_output);
        return -1;
    }
    if (doc != NULL) xmlDocDump(f, doc);
    else if (buf != NULL) fwrite(buf, (size_t)len, 1, f);
    if (f != stdout) fclose(f);
    return 0;
}

static xmlSecKeysMngrPtr make_mngr(void) {
    xmlSecKeysMngrPtr mngr = xmlSecKeysMngrCreate();
    xmlSecKeyPtr key = NULL;
    if (mngr == NULL || xmlSecCryptoAppDefaultKeysMngrInit(mngr) < 0) return NULL;
    if (opt_privkey_pem)
        key = xmlSecCryptoAppKeyLoad(opt_privkey_pem, xmlSecKeyDataFormatPem, NULL, NULL, NULL);
    else if (opt_pubcert_pem)
        key = xmlSecCryptoAppKeyLoad(opt_pubcert_pem, xmlSecKeyDataFormatCertPem, NULL, NULL, NULL);
    else if (opt_pubcert_der)
        key = xmlSecCryptoAppKeyLoad(opt_pubcert_der, xmlSecKeyDataFormatCertDer, NULL, NULL, NULL);
    else if (opt_pubkey_pem)
        key = xmlSecCryptoAppKeyLoad(opt_pubkey_pem, xmlSecKeyDataFormatPem, NULL, NULL, NULL);
    else
        return mngr;
    if (key == NULL) {
        fprintf(stderr, "Error: failed to load key\n");
        xmlSecKeysMngrDestroy(mngr);
        return NULL;
    }
    if (xmlSecCryptoAppDefaultKeysMngrAdoptKey(mngr, key) < 0) {
        xmlSecKeyDestroy(key); xmlSecKeysMngrDestroy(mngr); return NULL;
    }
    given_key = key;    /* owned by the manager, which lives until the end of main */
    return mngr;
}

static int parse_uri_types(const char *s, xmlSecTransformUriType *out) {
    char *dup = strdup(s), *tok, *save = NULL;
    xmlSecTransformUriType t = xmlSecTransformUriTypeNone;
    for (tok = strtok_r(dup, ",", &save); tok; tok = strtok_r(NULL, ",", &save)) {
        if (!strcmp(tok, "empty")) t |= xmlSecTransformUriTypeEmpty;
        else if (!strcmp(tok, "same-doc")) t |= xmlSecTransformUriTypeSameDocument;
        else if (!strcmp(tok, "local")) t |= xmlSecTransformUriTypeLocal;
        else if (!strcmp(tok, "remote")) t |= xmlSecTransformUriTypeRemote;
        else { free(dup); return -1; }
    }
    free(dup);
    *out = t;
    return 0;
}

/* --enabled-key-data <list>: as the xmlsec1 front end does it - the named key data classes are the only ones read from KeyInfo */
static int apply_enabled_key_data(xmlSecKeyInfoCtxPtr kctx) {
    char *dup, *tok, *save = NULL;
    if (opt_enabled_key_data == NULL) return 0;
    dup = strdup(opt_enabled_key_data);
    for (tok = strtok_r(dup, ",", &save); tok; tok = strtok_r(NULL, ",", &save)) {
        xmlSecKeyDataId id = xmlSecKeyDataIdListFindByName(xmlSecKeyDataIdsGet(), BAD_CAST tok, xmlSecKeyDataUsageAny);
        if (id == xmlSecKeyDataIdUnknown) {
            fprintf(stderr, "Error: key data \"%s\" is unknown\n", tok);
            free(dup); return -1;
        }
        if (xmlSecPtrListAdd(&(kctx->enabledKeyData), (void *)id) < 0) { free(dup); return -1; }
    }
    free(dup);
    return 0;
}

static int same_public_key(xmlSecKeyPtr a, xmlSecKeyPtr b) {
    xmlSecKeyDataPtr da, db;
    EVP_PKEY *ea, *eb;
    if (a == NULL || b == NULL) return 0;
    da = xmlSecKeyGetValue(a); db = xmlSecKeyGetValue(b);
    if (da == NULL || db == NULL) return 0;
    if (!xmlSecKeyDataCheckId(da, xmlSecOpenSSLKeyDataRsaId) && !xmlSecKeyDataCheckId(da, xmlSecOpenSSLKeyDataDsaId)) return 0;
    if (!xmlSecKeyDataCheckId(db, xmlSecOpenSSLKeyDataRsaId) && !xmlSecKeyDataCheckId(db, xmlSecOpenSSLKeyDataDsaId)) return 0;
    ea = xmlSecOpenSSLEvpKeyDataGetEvp(da); eb = xmlSecOpenSSLEvpKeyDataGetEvp(db);
    if (ea == NULL || eb == NULL) return 0;
    return EVP_PKEY_eq(ea, eb) == 1;
}

static int do_verify(xmlSecKeysMngrPtr mngr) {
    xmlNodePtr start = NULL;
    xmlDocPtr doc = load_doc(input_file, xmlSecNodeSignature, xmlSecDSigNs, &start);
    xmlSecDSigCtx ctx;
    int rc = 1, ok = 0, all = 0;
    xmlSecSize i;
    if (doc == NULL) goto out;
    if (xmlSecDSigCtxInitialize(&ctx, mngr) < 0) goto out;
    if (opt_enabled_uris &&
        parse_uri_types(opt_enabled_uris, &ctx.enabledReferenceUris) < 0) {
        fprintf(stderr, "Error: failed to parse \"enabled-reference-uris\"\n");
        xmlSecDSigCtxFinalize(&ctx); goto out;
    }
    if (apply_enabled_key_data(&ctx.keyInfoReadCtx) < 0) { xmlSecDSigCtxFinalize(&ctx); goto out; }
    if (xmlSecDSigCtxVerify(&ctx, start) < 0) {
        fprintf(stderr, "Error: signature failed \n");
        fprintf(stderr, "ERROR\n");
        log_verdict = "ERROR";
    } else if (ctx.status == xmlSecDSigStatusSucceeded) {
        fprintf(stderr, "OK\n");
        log_verdict = "OK";
        log_key_used = same_public_key(ctx.signKey, given_key) ? "given" : "keyinfo";
        rc = 0;
    } else {
        fprintf(stderr, "FAIL\n");
        log_verdict = "FAIL";
    }
    all = (int)xmlSecPtrListGetSize(&ctx.signedInfoReferences);
    for (i = 0; i < (xmlSecSize)all; i++) {
        xmlSecDSigReferenceCtxPtr r = (xmlSecDSigReferenceCtxPtr)
            xmlSecPtrListGetItem(&ctx.signedInfoReferences, i);
        if (r && r->status == xmlSecDSigStatusSucceeded) ok++;
    }
    fprintf(stderr, "SignedInfo References (ok/all): %d/%d\n", ok, all);
    fprintf(stderr, "Manifests References (ok/all): 0/0\n");
    if (rc) fprintf(stderr, "Error: failed to verify file \"%s\"\n", input_file);
    xmlSecDSigCtxFinalize(&ctx);
out:
    if (doc) xmlFreeDoc(doc);
    return rc;
}

static int do_sign(xmlSecKeysMngrPtr mngr) {
    xmlNodePtr start = NULL;
    xmlDocPtr doc = load_doc(input_file, xmlSecNodeSignature, xmlSecDSigNs, &start);
    xmlSecDSigCtx ctx;
    int rc = 1;
    if (doc == NULL) goto out;
    if (xmlSecDSigCtxInitialize(&ctx, mngr) < 0) goto out;
    if (xmlSecDSigCtxSign(&ctx, start) < 0) {
        fprintf(stderr, "Error: signature failed \n");
        fprintf(stderr, "Error: failed to sign file \"%s\"\n", input_file);
    } else if (write_result(doc, NULL, 0) == 0) {
        rc = 0;
    }
    xmlSecDSigCtxFinalize(&ctx);
out:
    if (doc) xmlFreeDoc(doc);
    return rc;
}

static int do_encrypt(xmlSecKeysMngrPtr mngr) {
    xmlDocPtr tmpl = NULL, doc = NULL;
    xmlNodePtr tnode, start = NULL;
    xmlSecEncCtx ctx;
    int rc = 1, ctx_ok = 0;
    char *kname = NULL, *dash;
    int bits;

    tmpl = xmlSecParseFile(input_file);
    if (tmpl == NULL || xmlDocGetRootElement(tmpl) == NULL) {
        fprintf(stderr, "Error: failed to parse template file \"%s\"\n", input_file);
        goto out;
    }
    tnode = xmlSecFindNode(xmlDocGetRootElement(tmpl), xmlSecNodeEncryptedData, xmlSecEncNs);
    if (tnode == NULL) {
        fprintf(stderr, "Error: failed to find default node with name=\"EncryptedData\"\n");
        goto out;
    }
    if (xmlSecEncCtxInitialize(&ctx, mngr) < 0) goto out;
    ctx_ok = 1;
    if (opt_session_key) {
        kname = strdup(opt_session_key);
        dash = strrchr(kname, '-');
        if (dash == NULL) { fprintf(stderr, "Error: bad session key spec\n"); goto out; }
        *dash++ = '\0';
        bits = atoi(dash);
        ctx.encKey = xmlSecKeyGenerateByName(BAD_CAST kname, (xmlSecSize)bits, xmlSecKeyDataTypeSession);
        if (ctx.encKey == NULL) {
            fprintf(stderr, "Error: failed to generate a session key \"%s\"\n", opt_session_key);
            goto out;
        }
    }
    if (opt_xml_data == NULL) { fprintf(stderr, "Error: --xml-data required\n"); goto out; }
    doc = load_doc(opt_xml_data, NULL, NULL, &start);
    if (doc == NULL) goto out;
    /* the template node must live in the target document */
    if (xmlSecEncCtxXmlEncrypt(&ctx, tnode, start) < 0) {
        fprintf(stderr, "Error: failed to encrypt xml file \"%s\"\n", opt_xml_data);
        goto out;
    }
    /* tnode has been moved into doc, replacing start; tmpl lost its root */
    if (write_result(doc, NULL, 0) == 0) rc = 0;
out:
    if (ctx_ok) xmlSecEncCtxFinalize(&ctx);
    if (kname) free(kname);
    if (doc) xmlFreeDoc(doc);
    if (tmpl) xmlFreeDoc(tmpl);
    return rc;
}

static int do_decrypt(xmlSecKeysMngrPtr mngr) {
    xmlNodePtr start = NULL;
    xmlDocPtr doc = load_doc(input_file, xmlSecNodeEncryptedData, xmlSecEncNs, &start);
    xmlSecEncCtx ctx;
    int rc = 1;
    if (doc == NULL) return 1;
    if (xmlSecEncCtxInitialize(&ctx, mngr) < 0) { xmlFreeDoc(doc); return 1; }
    /* as in the xmlsec1 program: these reach the EncryptedData being decrypted and the RetrievalMethods met on the way to its key, not
     * the CipherReference of an EncryptedKey (that one is processed in a context of its own with the library's defaults) */
    if ((opt_cipher_ref_uris && parse_uri_types(opt_cipher_ref_uris, &ctx.transformCtx.enabledUris) < 0) ||
        (opt_retrieval_uris && parse_uri_types(opt_retrieval_uris, &ctx.keyInfoReadCtx.retrievalMethodCtx.enabledUris) < 0)) {
        fprintf(stderr, "Error: failed to parse uri types\n");
        xmlSecEncCtxFinalize(&ctx); xmlFreeDoc(doc); return 1;
    }
    if (xmlSecEncCtxDecrypt(&ctx, start) < 0 || ctx.result == NULL) {
        fprintf(stderr, "Error: failed to decrypt file\n");
        fprintf(stderr, "Error: failed to decrypt file \"%s\"\n", input_file);
    } else if (ctx.resultReplaced) {
        if (write_result(doc, NULL, 0) == 0) rc = 0;
    } else {
        if (write_result(NULL, xmlSecBufferGetData(ctx.result),
                         (int)xmlSecBufferGetSize(ctx.result)) == 0) rc = 0;
    }
    xmlSecEncCtxFinalize(&ctx);
    xmlFreeDoc(doc);
    return rc;
}

int main(int argc, char **argv) {
    const char *cmd;
    xmlSecKeysMngrPtr mngr;
    const char *fm;
    int i, rc;

    if (argc < 2) { fprintf(stderr, "Usage: xmlsec <command> [<options>] [<files>]\n"); return 1; }
    cmd = argv[1];
    if (!strcmp(cmd, "--version") || !strcmp(cmd, "--list-transforms") || !strcmp(cmd, "--list-key-data")) {
        /* informational runs take part in the fault plan too (kind 'any', 'version', ...): what a caller concludes from a run that
         * said nothing usable about the tool is the caller's doing */
        fm = fault_mode(cmd);
        if (fm != NULL) {
            log_fault = fm;
            if (!strncmp(fm, "segv", 4)) { write_log(argc, argv, cmd, -SIGSEGV); raise(SIGSEGV); _exit(139); }
            if (!strncmp(fm, "kill", 4)) { write_log(argc, argv, cmd, -SIGKILL); raise(SIGKILL); _exit(137); }
            if (!strcmp(fm, "exit1_silent")) { write_log(argc, argv, cmd, 1); return 1; }
            if (!strncmp(fm, "hex", 3) && strchr(fm, '_') != NULL) {
                int rcx = atoi(fm + 3);
                const char *h = strchr(fm, '_') + 1;
                while (h[0] && h[1]) {
                    unsigned int byte = 0;
                    if (sscanf(h, "%2x", &byte) != 1) break;
                    fputc((int)byte, stdout); fputc((int)byte, stderr);
                    h += 2;
                }
                fflush(stdout); fflush(stderr);
                write_log(argc, argv, cmd, rcx); return rcx;
            }
            if (!strcmp(fm, "trunc_output") || !strcmp(fm, "text_trunc")) fputs("xmlsec1 1.", stdout);
            else if (!strcmp(fm, "garble_output") || !strcmp(fm, "text_garbage")) fputs("xm\x01sec1 \x02.\x03.x (openssl)\n", stdout);
            else if (!strncmp(fm, "text_", 5)) fputs("NOT OK, sorry\n", stdout);
            /* exit0_silent, no_output, empty_output: nothing at all, status 0 */
            write_log(argc, argv, cmd, 0); return 0;
        }
    }
    if (!strcmp(cmd, "--version") || !strcmp(cmd, "version")) {
        fprintf(stdout, "xmlsec1 %s (openssl)\n", XMLSEC_VERSION);
        write_log(argc, argv, cmd, 0);
        return 0;
    }
    if (!strcmp(cmd, "--list-transforms")) {
        xmlSecPtrListPtr ids;
        xmlSecSize k, n;
        xmlInitParser();
        if (xmlSecInit() < 0 || xmlSecCryptoAppInit(NULL) < 0 || xmlSecCryptoInit() < 0) {
            fprintf(stderr, "Error: xmlsec initialization failed.\n");
            return 1;
        }
        ids = xmlSecTransformIdsGet();
        n = xmlSecPtrListGetSize(ids);
        fprintf(stdout, "Registered transform klasses:\n");
        for (k = 0; k < n; k++) {
            xmlSecTransformId id = (xmlSecTransformId)xmlSecPtrListGetItem(ids, k);
            fprintf(stdout, "%s\"%s\"", k ? "," : "", id->name);
        }
        fprintf(stdout, "\n");
        return 0;
    }
    for (i = 2; i < argc; i++) {
        const char *a = argv[i];
#define NEED() do { if (i + 1 >= argc) { fprintf(stderr, "Error: option %s requires a value\n", a); return 1; } } while (0)
        if (!strcmp(a, "--output")) { NEED(); opt_output = argv[++i]; }
        else if (!strcmp(a, "--node-id")) { NEED(); opt_node_id = argv[++i]; }
        else if (!strcmp(a, "--node-xpath")) { NEED(); opt_node_xpath = argv[++i]; }
        else if (!strcmp(a, "--xml-data")) { NEED(); opt_xml_data = argv[++i]; }
        else if (!strcmp(a, "--session-key")) { NEED(); opt_session_key = argv[++i]; }
        else if (!strcmp(a, "--enabled-reference-uris")) { NEED(); opt_enabled_uris = argv[++i]; }
        else if (!strcmp(a, "--enabled-cipher-reference-uris")) { NEED(); opt_cipher_ref_uris = argv[++i]; }
        else if (!strcmp(a, "--enabled-retrieval-method-uris")) { NEED(); opt_retrieval_uris = argv[++i]; }
        else if (!strcmp(a, "--enabled-key-data")) { NEED(); opt_enabled_key_data = argv[++i]; }
        else if (!strcmp(a, "--privkey-pem")) { NEED(); opt_privkey_pem = argv[++i]; }
        else if (!strcmp(a, "--pubkey-pem")) { NEED(); opt_pubkey_pem = argv[++i]; }
        else if (!strcmp(a, "--pubkey-cert-pem")) { NEED(); opt_pubcert_pem = argv[++i]; }
        else if (!strcmp(a, "--pubkey-cert-der") || !strcmp(a, "--pubkey-cert-cer") ||
                 !strcmp(a, "--pubkey-cert-crt")) { NEED(); opt_pubcert_der = argv[++i]; }
        else if (!strncmp(a, "--id-attr", 9)) {
            NEED();
            if (n_idattr >= MAX_IDATTR) return 1;
            idattr_name[n_idattr] = (a[9] == ':') ? a + 10 : "id";
            idattr_node[n_idattr++] = argv[++i];
        }
        else if (!strncmp(a, "--", 2)) {
            fprintf(stderr, "Error: parameter \"%s\" is not supported by this build\n", a);
            return 1;
        }
        else input_file = a;
    }
    if (input_file == NULL) { fprintf(stderr, "Error: no input file\n"); return 1; }

    xmlInitParser();
    LIBXML_TEST_VERSION
    xmlLoadExtDtdDefaultValue = XML_DETECT_IDS | XML_COMPLETE_ATTRS;
    xmlSubstituteEntitiesDefault(1);
    if (xmlSecInit() < 0 || xmlSecCheckVersion() != 1 ||
        xmlSecCryptoAppInit(NULL) < 0 || xmlSecCryptoInit() < 0) {
        fprintf(stderr, "Error: xmlsec initialization failed.\n");
        return 1;
    }
    fm = fault_mode(cmd);
    if (fm != NULL) {
        int after = 0;
        log_fault = fm;
        if (!strcmp(fm, "exit1_silent")) { write_log(argc, argv, cmd, 1); return 1; }
        if (!strcmp(fm, "exit1_unprocessed_output")) {
            /* the input document (template or plaintext, nothing signed or encrypted) lands in the output file, then an error exit */
            if (opt_output != NULL && input_file != NULL) {
                FILE *in = fopen(opt_xml_data ? opt_xml_data : input_file, "rb"), *out = fopen(opt_output, "wb");
                char buf[4096]; size_t k;
                if (in && out) while ((k = fread(buf, 1, sizeof buf, in)) > 0) fwrite(buf, 1, k, out);
                if (in) fclose(in);
                if (out) fclose(out);
            }
            fprintf(stderr, "Error: operation failed\n");
            write_log(argc, argv, cmd, 1); return 1;
        }
        if (!strcmp(fm, "exit0_silent") || !strcmp(fm, "no_output")) {
            if (!strcmp(fm, "no_output")) fprintf(stderr, "SignedInfo References (ok/all): 1/1\n");
            write_log(argc, argv, cmd, 0); return 0;
        }
        if (!strcmp(fm, "segv_before")) { write_log(argc, argv, cmd, -SIGSEGV); raise(SIGSEGV); _exit(139); }
        if (!strcmp(fm, "kill_before")) { write_log(argc, argv, cmd, -SIGKILL); raise(SIGKILL); _exit(137); }
        if (!strncmp(fm, "hex", 3) && strchr(fm, '_') != NULL) {
            /* hex<rc>_<hex bytes>: write exactly these bytes to stderr and leave with status <rc>, doing nothing else */
            int rcx = atoi(fm + 3);
            const char *h = strchr(fm, '_') + 1;
            while (h[0] && h[1]) {
                unsigned int byte = 0;
                if (sscanf(h, "%2x", &byte) != 1) break;
                fputc((int)byte, stderr);
                h += 2;
            }
            fflush(stderr);
            write_log(argc, argv, cmd, rcx); return rcx;
        }
        if (!strncmp(fm, "text_", 5)) {
            const char *t = "";
            if (!strcmp(fm, "text_not_ok")) t = "NOT OK\n";
            else if (!strcmp(fm, "text_verification_ok")) t = "Verification OK\n";
            else if (!strcmp(fm, "text_ok_trailing")) t = "OK \n";
            else if (!strcmp(fm, "text_ok_leading")) t = " OK\n";
            else if (!strcmp(fm, "text_ok_lower")) t = "ok\n";
            else if (!strcmp(fm, "text_ok_inline")) t = "Signature status: OK? no\n";
            else if (!strcmp(fm, "text_okay")) t = "OKAY\n";
            else if (!strcmp(fm, "text_garbage")) t = "\x01\x02O\x03K\n";
            else if (!strcmp(fm, "text_trunc")) t = "O";
            fputs(t, stderr);
            write_log(argc, argv, cmd, 0); return 0;
        }
        /* the remaining modes run the real operation first */
        after = 1;
        (void)after;
    }
    mngr = make_mngr();
    if (mngr == NULL) { fprintf(stderr, "Error: keys manager creation failed\n"); log_verdict = "NOKEY"; write_log(argc, argv, cmd, 1); return 1; }

    if (fm != NULL && !strcmp(cmd, "--verify")) {
        /* a verification that dies or garbles never reports a verdict */
        if (!strcmp(fm, "segv_after")) { write_log(argc, argv, cmd, -SIGSEGV); raise(SIGSEGV); _exit(139); }
        if (!strcmp(fm, "kill_after")) { write_log(argc, argv, cmd, -SIGKILL); raise(SIGKILL); _exit(137); }
        if (!strcmp(fm, "trunc_output") || !strcmp(fm, "garble_output")) {
            fputs(!strcmp(fm, "trunc_output") ? "O" : "0K\nKO\n", stderr);
            write_log(argc, argv, cmd, 0); return 0;
        }
    }

    if (!strcmp(cmd, "--verify")) rc = do_verify(mngr);
    else if (!strcmp(cmd, "--sign")) rc = do_sign(mngr);
    else if (!strcmp(cmd, "--encrypt")) rc = do_encrypt(mngr);
    else if (!strcmp(cmd, "--decrypt")) rc = do_decrypt(mngr);
    else { fprintf(stderr, "Error: unknown command \"%s\"\n", cmd); rc = 1; }

    if (fm != NULL) {
        if (!strcmp(fm, "trunc_output")) damage_output(0);
        else if (!strcmp(fm, "garble_output")) damage_output(1);
        else if (!strcmp(fm, "empty_output")) { if (opt_output && truncate(opt_output, 0) != 0) {} }
        else if (!strcmp(fm, "segv_after")) { damage_output(0); write_log(argc, argv, cmd, -SIGSEGV); raise(SIGSEGV); _exit(139); }
        else if (!strcmp(fm, "kill_after")) { damage_output(0); write_log(argc, argv, cmd, -SIGKILL); raise(SIGKILL); _exit(137); }
    }
    write_log(argc, argv, cmd, rc);

    xmlSecKeysMngrDestroy(mngr);
    xmlSecCryptoShutdown();
    xmlSecCryptoAppShutdown();
    xmlSecShutdown();
    xmlCleanupParser();
    return rc;
}
