#!/usr/bin/env python3
"""Regenerate MANIFEST.json from the table below (and validate it against the schema)."""
import json
import os
import sys

HERE = os.path.dirname(os.path.dirname(os.path.abspath(__file__)))

TRUST = ("executions only; libxmlsec1/libxml2/OpenSSL as installed plus tools/xmlsec1_shim.c stand in for the "
         "xmlsec1 CLI (DESIGN.md section 1); fixture keys; CPython 3.12 of /venv")
PURE = "executions only; CPython 3.12 of /venv; no external tool involved"

# id: (level, technique, level text, note, design ref)
CHECKS = {
    "C01": ("exploration", "mutation workload on signed documents + identity-provenance oracle on the API boundary + structural oracle over the tool event log",
            "Delivers every mutant of the operator catalogue (edits, comments, signature/reference/ID games, XSW wrapping; plain and "
            "re-encrypted, attacker-made ciphertext in every slot beside the genuine encrypted assertion, content re-signed by an outsider, DOCTYPE/ATTLIST games, diagnostics injection) of validly signed responses to every signature-requiring SP setting, also while other threads verify the genuine message under injected yields. An accepted mutant must report exactly the "
            "signed identity, and every successful verification the tool performed for it must have vouched for an element that directly "
            "carries exactly one enveloped signature referencing its own ID.",
            TRUST, "3/C01"),
    "C02": ("exploration", "runtime oracle on the API boundary + offline check of the tool event log, exhaustive finite table",
            "Runs the whole documented option x signed-layout x plain/encrypted x corruption table (again for issuers without a verification key in metadata, for SPs that cannot open the encrypted assertion, for clients built from Config/IdPConfig, for the package's other crypto backend (through a stand-in for pyXMLSecurity) and for options left out after other SPs were built) through the real "
            "Saml2Client and compares accept/reject with an independent truth table in both directions; the driver's "
            "event log must show a genuine successful verification for every signature present in an accepted cell.",
            TRUST, "3/C02"),
    "C03": ("exploration", "generated federation + outcome oracle + trace oracle over the tool event log (which certificates were tried)",
            "Hand-written metadata for IdPs with signing-only, signing+encryption, use-less, encryption-only, several, expired and not-yet-valid signing certificates and an "
            "unknown issuer, and key descriptors without a certificate next to one that has it; every pairing of claimed issuer x actual signing key x embedded certificate x level x only_use_keys_in_metadata (and "
            "assertions naming another issuer than the response, also inside the encrypted advice of another issuer's assertion) is delivered; accept/reject is compared with the documented rule and the driver log "
            "must show that no certificate outside the issuer's signing-capable metadata keys (or, with the option off and no such key, the embedded "
            "one) was even tried.",
            TRUST, "3/C03"),
    "C04": ("exploration", "virtual clock + edge-grid workload + independent xs:dateTime oracle (must-reject / must-accept / unspecified)",
            "Under a virtual clock, rewrites every time bound of an IdP-made response (each subset of optional bounds present), places one bound at "
            "offsets 1, 2 and far beyond/inside its edge widened by allowances 0..1e7 in several timestamp spellings, under several process time zones, and with several confirmations/statements/assertions (and an advice assertion, plain or encrypted) of which one is out of range, arriving over POST/SOAP/Redirect, and compares accept/reject with "
            "an independent reader; on acceptance the session expiry handed to the application is compared. Recording wrappers on "
            "validate_on_or_after/validate_before count the bounds actually decided.",
            TRUST, "3/C04"),
    "C05": ("exploration", "cross-product workload on addressing fields + reference predicate on the API boundary",
            "Runs the product InResponseTo x bearer InResponseTo x Destination x audience layout x Recipient x allow_unsolicited x conversation info x "
            "destination pattern (thinned in quick, full in thorough, also re-signed), arriving binding x endpoint layout, and assertions carried as advice (plain, inside an encrypted assertion, encrypted on their own) through parse_authn_request_response (POST, Redirect, and the artifact binding for the message an artifact was resolved to), and SOAP-enveloped responses through the package's ECP helper; acceptance must imply "
            "every addressing rule and the conforming cells must be accepted.",
            TRUST, "3/C05"),
    "C06": ("exploration", "exhaustive status/version table on the API boundary with an independent copy of the documented class table",
            "Rewrites Status (missing, without StatusCode, every top-level code x every standard, absent, nested and unknown second-level code x message x with/without a validly "
            "signed assertion) and Version (responses, assertions, authentication and logout requests) of real messages; a non-Success response "
            "must raise the documented Status* class (StatusError for absent/unknown codes) and never yield an object; Version other than 2.0 must "
            "give an exception or None.",
            TRUST, "3/C06"),
    "C07": ("exploration", "generated policy/declaration/identity workload + independent reference of the release semantics over the returned XML",
            "Drives Server.create_authn_response and create_attribute_response (with their optional arguments: queried attributes, encryption, PEFIM advice, signing, alias) over policy shapes (default/per-SP, name-only, empty and regex "
            "restrictions, four entity-category modules, fail_on_missing_requested) x SP declarations (required/optional, value constraints, "
            "unsatisfiable, the same attribute declared twice, further descriptors / services that declare nothing) x no policy configured at all x category layouts x identity shapes, several SPs answered by one long-lived Server in sequence and from threads under injected yields; the returned XML is read with the stdlib and every released (attribute, value) "
            "must be in the identity (and there no more often than the identity holds it), inside the applicable restrictions/patterns, inside the entity-category entitlement (RELEASE tables read as "
            "data) and inside the SP's declaration where that applies - in every outcome.",
            PURE, "3/C07"),
    "C08": ("exploration", "end-to-end flow workload with independent transport readers and field-by-field oracle on what the application reads",
            "SP and IdP built from each other's generated metadata run complete flows for hostile identity classes (XML-special, look-alike "
            "markup, multi-byte, padded, long, many-valued, repeated, typed look-alikes, every line ending), PEFIM advice, NameID formats, authentication contexts, lifetimes, POST/Redirect/SOAP transport via "
            "Entity.apply_binding and every sign_response x sign_assertion x encrypt_assertion x algorithm setting; the plaintext message must "
            "contain exactly the asked attributes/values and nothing else, the SP must accept, and ava (trimmed), name_id, in_response_to, issuer, "
            "authn context and session expiry must equal what was asserted.",
            TRUST, "3/C08"),
    "C09": ("exploration", "generated metadata layouts + request-variant product + dictionary model of the metadata as oracle",
            "Builds IdPs over hand-written SP metadata (several ACS/SLO/ManageNameID endpoints, bindings, indexes, two SPs, colliding and "
            "look-alike URLs) and calls Server.response_args on every combination of issuer (known/other/unknown) x consumer URL (registered, "
            "unregistered, nine near-miss forms, the other SP's) x index (known/unknown/garbage) x protocol binding, and on logout and "
            "manage-name-id requests, and through the whole inbound path (request as text, signed/unsigned, IdP with/without want_authn_requests_signed); a returned destination must be registered for that issuer and binding, a supplied URL/index is "
            "honoured exactly or refused, an unknown issuer never gets a destination.",
            PURE, "3/C09"),
    "C10": ("exploration", "mutation workload on real requests + acceptance predicate on the API boundary + tool-log oracle for signed requests",
            "Requests of seven types (authn, logout, attribute query, manage-name-id, authn query, name-id mapping, artifact resolve) made by the real client, signed and unsigned, over Redirect/POST/SOAP, are delivered pristine and mutated "
            "(addressing, time, schema, wrong root, the C01 signature/reference/ID/wrapping operators, damaged transport encodings) to receivers "
            "with and without want_authn_requests_signed / want_authn_requests_only_with_valid_cert (IdP and stand-alone attribute authority) and to one without an endpoint for the arriving binding. A returned request must have the "
            "expected type and required attributes, an own or absent Destination, an IssueInstant within a day, a genuine verification of the "
            "request element itself under the issuer's key if it is signed (signed if wanted), and equal the signed original.",
            TRUST, "3/C10"),
    "C11": ("exploration", "hostile-document workload over introspected entry points with audit-hook, parser-construction, tool-log, inotify / listening-port and strace (system-call) monitors",
            "Feeds a catalogue of hostile documents (internal/external/parameter entities, billion laughs, external DTD, XInclude, stylesheet PI, "
            "UTF-16/BOM, text and bytes in declared encodings, truncations, non-XML) to every *_from_string of every schema module, the generic constructors, the SOAP/pack readers, the "
            "metadata loaders and the client/server parse functions in every binding. Monitors: sys.addaudithook (file/socket/urllib/subprocess), "
            "wrappers on all stdlib parser entry points installed before the package is imported (every parser built inside the package must be the "
            "defused one), canary text in results, the xmlsec driver log, inotify watches on the canary files and a listening local port (the operating system's view, which includes the external tool: "
            "encrypted content whose cipher data or key is given by xenc:CipherReference / ds:RetrievalMethod URI), a good message of the same length handled right before each hostile one, and a strace -f system-call log of the whole process tree; the repository's own test suite runs under the parser monitor in the thorough tier. A syntactic inventory of parsing call sites measures reach; an "
            "unreached site makes the run inconclusive.",
            TRUST, "3/C11"),
    "C12": ("exploration", "generated instance trees for every schema class + independent structural comparator and independent parse",
            "For all ~1150 element classes of all schema modules generates instance trees from the class tables (every attribute and child, "
            "cardinalities 1..3, bounded depth, hostile text incl. carriage returns, typed attribute values of types without a conversion, foreign children/attributes), serialises, parses back with the library and "
            "compares with a comparator that does not use SamlBase.__eq__; the second serialisation must be byte-identical, the other serialisers run as history on the same instance without changing it, and a stdlib parse "
            "of the text must show children in table order and the foreign content present; the sweep over all classes is repeated in several orders and in a thread that has first been fed documents the typed parser refuses half way through, and with instances nested up to 150 deep.",
            PURE, "3/C12"),
    "C13": ("exploration", "table-driven constraint violation in isolation, oracle on valid_instance() in both directions",
            "For every element class builds the minimal instance satisfying all declared constraints and then violates each declared "
            "constraint in isolation (every required attribute missing/empty, every explicit occurrence bound, every attribute/text of a "
            "checked simple type with a non-conforming value incl. near misses of the lexical space and padding that is white space to str.strip() but not to XML; every legal lexical form must pass, and so must what class-specific verify() rules exist to let through), at the root and nested below valid parents, also on/below elements carrying xsi:nil, xsi:type or foreign attributes; violated must raise, satisfied "
            "must return True (exhaustive over the table entries, sampled over parents).",
            PURE, "3/C13"),
    "C14": ("exploration", "round-trip workload with independent readers (html.parser, urllib.parse, stdlib SOAP reader) + library decoder",
            "Packages library-made messages of several types (signed and unsigned, hostile content) and arbitrary payloads (sizes around every power of two up to 1-4 MiB) with "
            "Entity.apply_binding for POST, Redirect (also signed), SOAP, PAOS and artifact, as text and as bytes, hostile RelayStates and destinations with/without/with an empty query, a fragment or HTML-special characters, hand-written message texts (CDATA, declarations, prefixes, character references), message objects through both envelope builders, artifact endpoint indexes; an "
            "independent reader must find exactly the expected form fields / URL parameters / SOAP body, the package's receiving-end decoder (httputil.unpack_any on the WSGI request a browser would submit, POST body or GET query) and Entity.unravel must return the "
            "original (bytes for POST/Redirect, element-equal for SOAP).",
            PURE, "3/C14"),
    "C15": ("exploration", "independent RSA verification + bounded-exhaustive histories + systematic schedule exploration (sys.monitoring gates, CHESS-style DFS)",
            "Signs messages with Entity.apply_binding for all five algorithms and hostile RelayStates and verifies each URL independently (cryptography, raw "
            "query octets) under all 12 RSA fixture certificates and three without an RSA key (EC, Ed25519, DSA), verified by the peer and by the signer itself; compares verify_redirect_signature with the independent verdict over ~30 single-parameter "
            "mutations; replays every history of obtain/sign/bind/verify steps up to a bounded length for entities with different keys; and explores "
            "thread interleavings systematically: sys.monitoring PY_START/LINE events in RSACrypto.get_signer and RSASigner.sign are gates, a "
            "controller enumerates all schedules depth first (entry-level: all; line-level: preemption-bounded), plus free-running threads, key roll-over at one path and generations of entities that are used, dropped and collected.",
            PURE, "3/C15"),
    "C16": ("exploration", "generated document sets under a virtual clock + dictionary model of the declarations as oracle; signed loads through a stubbed HTTP loader with tool-log oracle",
            "Loads generated federation document sets (1..3 sources, mixed roles, endpoints, indexes, keys by use, entity categories, requested "
            "attributes, boolean spellings, typed entity-category values, validUntil past/future/absent in every legal spelling on entities, enclosing documents and nested aggregates, valueless entity attributes, duplicates across sources) into a MetadataStore and "
            "compares every lookup (service helpers for every role/binding, certs by use, entity_categories, attribute_requirement, "
            "with_descriptor, membership, UnknownSystemEntity vs UnsupportedBinding) with the model; loads validly signed, tampered, wrongly "
            "certified, unsigned and wrapped metadata through every configuration form of a source and its certificate; round-trips generated SP/IdP configurations (key arrangements, certificate files with blank lines / text dumps / CRLF) "
            "through metadata.entity_descriptor.",
            TRUST, "3/C16"),
    "C17": ("exploration", "marker scan of emitted bytes + decryption with every key through the tool + metamorphic plain/encrypted pairs",
            "For every sign_response x sign_assertion x self-contained x {assertion, PEFIM advice, both} combination the emitted response is "
            "scanned for unique identity markers, attribute names and the NameID, decrypted with all 12 fixture keys (only the addressee's may "
            "work) and read back by SPs whose first or second key matches or whose key is published without a use attribute; mutants of the signature, time, addressing and schema-validity families are delivered "
            "plain and re-encrypted to the same SP (reject(plain) must imply reject(encrypted)); undecryptable content (assertion or EncryptedID) must yield no identity.",
            TRUST, "3/C17"),
    "C18": ("exploration", "reference-model monitor over operation histories (bounded-exhaustive + random), invariants after every step",
            "Replays every operation history up to a bounded depth over 2 users x 2 SPs (abstract-state pruned), long random histories on "
            "dict- and shelve-backed IdentDB (also opened through Server with restarts; removal operations must be carried out, not just fail without effect), Server-level login histories over every NameIDPolicy shape (also naming another SP's qualifier) with attribute responses in between, hostile field contents, pairs built to collide under an unquoted encoding (code and code_binary) and the adversarial user-id class against a dictionary model; after each "
            "step every live identifier must resolve to its user only, withdrawn ones to nobody, persistent identifiers must be stable and "
            "distinct, and code/decode must be reversible and collision-free.",
            PURE, "3/C18"),
    "C19": ("exploration", "reference-model monitor under a virtual clock, memory and file cache in lock step",
            "Replays every operation sequence up to a bounded depth (set with past/future expiry, reset, delete, clock advance) and long random "
            "histories (hostile attribute values, subjects differing in one field, file reopen, process time zones other than UTC, up to 400 sources per subject, callers that write into what a query handed them, concurrent threads on the memory backend) on Cache and Population, memory and file backed, "
            "comparing every query result and exception class with a dictionary model after each step; a copy of the cache file as it is, opened by a second cache, must agree with the model after every operation that has returned.",
            PURE, "3/C19"),
    "C20": ("fault_enumeration", "fault-injecting external tool (plan via environment) + offline oracle over the tool event log",
            "Enumerates fault plans (site kind x first/second/every invocation x 18 verification faults + 36 byte-exact garbled diagnostics, 10 sign/encrypt/decrypt faults, tool "
            "missing / not executable / a directory) over response, assertion, both, request (authn, logout, attribute query, manage-name-id), logout-response and in-ciphertext verification (also several encrypted assertions), statement signing, "
            "assertion encryption and decryption with the first or second key, on valid and tampered messages; entities built under a plan that hits the n-th tool run of any kind (informational runs included) then receive outsider-signed, valid and tampered messages in sequence; sign/encrypt runs that write their input through and exit 1; EncryptedAttribute sites. The driver marks injected events; "
            "an accepted message needs a genuine un-faulted OK per required level, a tampered message is never accepted, an identity needs a "
            "genuine decryption, and a sign/encrypt run without result must raise.",
            TRUST, "3/C20"),
}

NOT_YET = {}


def main():
    props = [json.loads(l) for l in open(os.path.join(HERE, "properties.jsonl"))]
    checks = []
    na = []
    for p in props:
        pid = p["id"]
        if pid in CHECKS and os.path.exists(os.path.join(HERE, "checks", pid.lower() + ".py")):
            level, tech, text, note, ref = CHECKS[pid]
            checks.append({
                "property_id": pid,
                "quick_cmd": "./check %s --tier quick" % pid,
                "thorough_cmd": "./check %s --tier thorough" % pid,
                "evidence_file": "/verif/evidence/%s.json" % pid,
                "replay_cmd_template": "./check %s --replay {path}" % pid,
                "engine": "vlib-runner",
                "level_claimed": {"category": level, "text": text, "design_ref": "DESIGN.md section " + ref},
                "level_note": note,
                "technique": tech,
            })
        else:
            na.append({"property_id": pid, "reason": NOT_YET.get(pid, "check not built yet in this revision of /verif (runtime monitoring applies; see DESIGN.md section 3)")})
    man = {
        "version": 1,
        "setup_cmd": "./setup.sh",
        "hooks": {
            "guard": "PYSAML2_TOPHAT_VERIF",
            "enable": "no source hooks are needed: all observation points are the public API, module attributes replaced from the harness (virtual clock, contracts) and the external-tool boundary (xmlsec_binary configuration key); checks import /repo/src directly, so there is no build step",
            "baseline_off_cmd": "cd /repo && /venv/bin/python -m pytest -ra -q -p no:cacheprovider --timeout=900 --continue-on-collection-errors",
            "source_commits": [],
            "add_only": True,
        },
        "engines": [{"name": "vlib-runner", "path": "/verif/vlib", "serves_properties": [c["property_id"] for c in checks],
                     "kind_free_text": "runtime monitoring: sharded workload runner, oracles on the public API, offline checkers over the xmlsec driver event log, reference-model monitors, virtual clock, fault-injecting tool, contracts"}],
        "checks": checks,
        "not_applicable": na,
        "notes": "Every check: exit 0 held on what was observed, exit 1 with VIOLATION lines, exit 2 inconclusive (never on the unchanged tree). Known findings: known_findings.json. Seeded breakages: seeded/. Self-test: selftest/.",
    }
    if not na:
        del man["not_applicable"]
    out = os.path.join(HERE, "MANIFEST.json")
    with open(out, "w") as f:
        json.dump(man, f, indent=1)
        f.write("\n")
    try:
        sys.path.append(os.path.join(HERE, ".deps"))
        import jsonschema
        jsonschema.validate(man, json.load(open("/root/.vp/MANIFEST.schema.json")))
        print("MANIFEST.json valid: %d checks, %d not_applicable" % (len(checks), len(na)))
    except ImportError:
        print("MANIFEST.json written (jsonschema unavailable, not validated)")


if __name__ == "__main__":
    main()
