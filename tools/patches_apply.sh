#!/bin/sh
# Which selftest / seeded patches no longer apply to /repo's working tree (plain patch, no fuzz beyond the default)?
S=$(mktemp -d /tmp/papply-XXXXXX)
rsync -a --exclude .git /repo/ "$S/repo/"
bad=0
for p in /verif/selftest/patches/*.patch /verif/seeded/*/patch.diff; do
  if ! (cd "$S/repo" && patch -p1 --dry-run -i "$p" >/dev/null 2>&1); then echo "DOES NOT APPLY: $p"; bad=1; fi
done
rm -rf "$S"
[ $bad = 0 ] && echo "all patches apply"
exit $bad
