#!/bin/sh
# tools/verify_seed.sh <dir with patch.diff demo.py> <property id> [tier]
# Confirms a seeded change on a scratch copy of /repo: demo passes unmodified, fails modified, pinned tests keep passing,
# then runs our check against the modified copy.  Prints one summary line; removes the scratch copy.
SEED=$1; PROP=$2; TIER=${3:-quick}
SCR=$(mktemp -d /tmp/pysaml2-seedcheck-XXXXXX)
rsync -a --exclude .git /repo/ "$SCR/repo/"
cd /tmp
PYTHONPATH="$SCR/repo/src" timeout 600 /venv/bin/python "$SEED/demo.py" >"$SCR/demo_clean.txt" 2>&1; rc_clean=$?
( cd "$SCR/repo" && patch -p1 --no-backup-if-mismatch -s < "$SEED/patch.diff" ) >"$SCR/patch.txt" 2>&1; rc_patch=$?
PYTHONPATH="$SCR/repo/src" timeout 600 /venv/bin/python "$SEED/demo.py" >"$SCR/demo_mod.txt" 2>&1; rc_mod=$?
# pinned tests on the modified copy
( cd "$SCR/repo" && env -u PYSAML2_TOPHAT_VERIF PYTHONPATH="$SCR/repo/src" /venv/bin/python -m pytest -q -p no:cacheprovider --timeout=900 \
   --continue-on-collection-errors --junitxml="$SCR/junit.xml" >"$SCR/pytest.txt" 2>&1 )
missing=$(/venv/bin/python - "$SCR/junit.xml" <<'PY'
import json, sys, xml.etree.ElementTree as ET
base = set(json.load(open('/root/.vp/BASELINE.json'))['stable_pass'])
passed = set()
for tc in ET.parse(sys.argv[1]).getroot().iter('testcase'):
    if not list(tc):
        passed.add('%s::%s' % (tc.get('classname'), tc.get('name')))
print(len(base - passed))
PY
)
out=$(cd /verif && VERIF_REPO="$SCR/repo" ./check "$PROP" --tier "$TIER" --no-evidence 2>&1); rc_check=$?
keys=$(echo "$out" | grep "key=" | sed 's/.*key=\([^ ]*\).*/\1/' | sort -u | head -4 | tr '\n' ' ')
echo "SEED $PROP patch_applies=$rc_patch demo_clean_rc=$rc_clean demo_modified_rc=$rc_mod baseline_missing=$missing check_rc=$rc_check keys=[$keys]"
if [ "$rc_check" != "1" ]; then echo "$out" | grep "^== \|INCONCL" | cut -c1-300; fi
tail -2 "$SCR/demo_mod.txt" | cut -c1-300
rm -rf "$SCR"
