#!/bin/sh
# tools/sweep.sh <tier> <seed...>  - run every check once per seed, print one line per run
TIER=${1:-quick}; shift
SEEDS=${*:-0}
cd "$(dirname "$0")/.."
for s in $SEEDS; do
  for i in 01 02 03 04 05 06 07 08 09 10 11 12 13 14 15 16 17 18 19 20; do
    t0=$(date +%s)
    out=$(VERIF_SEED=$s ./check C$i --tier $TIER 2>&1); rc=$?
    t1=$(date +%s)
    nv=$(echo "$out" | grep -c "^VIOLATION")
    nk=$(echo "$out" | grep -c "^KNOWN-FINDING")
    ni=$(echo "$out" | grep -c "^INCONCLUSIVE")
    echo "seed=$s C$i rc=$rc violations=$nv known=$nk inconclusive=$ni wall=$((t1-t0))s $(echo "$out" | grep '^== ' | cut -c1-120)"
    if [ $rc -ne 0 ]; then echo "$out" | grep "^VIOLATION\|^INCONCLUSIVE\|key=" | head -6 | cut -c1-400; fi
  done
done
