#!/usr/bin/env python3
"""Regenerates the seeded-change table of DESIGN.md (between the SEED-TABLE markers) from seeded/*/meta.json."""
import glob, json, os, re
here = os.path.dirname(os.path.dirname(os.path.abspath(__file__)))
rows = ["| seeded change | checks | caught on first contact | what it needs in order to manifest |", "|---|---|---|---|"]
n = {}
for d in sorted(glob.glob(os.path.join(here, "seeded", "*"))):
    m = json.load(open(os.path.join(d, "meta.json")))
    first = m.get("caught_by_quick_check_when_first_run")
    rnd = re.search(r"agent(\d+)$", d).group(1)
    n.setdefault(rnd, [0, 0])
    n[rnd][0] += 1
    n[rnd][1] += int(bool(first))
    verdict = "yes" if first else "no - check strengthened, now caught"
    if m.get("neutralised_by"):
        verdict = ("yes" if first else "no - check strengthened, then caught") + "; since made harmless by a repair of /repo (%s), check silent as expected" % m["neutralised_by"].split(" ")[1]
    rows.append("| %s | %s | %s | %s |" % (os.path.basename(d), ", ".join(m["checks"]), verdict,
                                        m["needs_to_manifest"].replace("|", "\\|")))
p = os.path.join(here, "DESIGN.md")
s = open(p).read()
a, b = "<!-- SEED-TABLE-BEGIN -->", "<!-- SEED-TABLE-END -->"
assert a in s and b in s
s = s[:s.index(a) + len(a)] + "\n" + "\n".join(rows) + "\n" + s[s.index(b):]
open(p, "w").write(s)
print({k: "%d/%d caught on first contact" % (v[1], v[0]) for k, v in sorted(n.items())})
