"""Thread interleaving under injected yields.

`run_threads(funcs, seed)` runs the given callables in threads of their own while a
sys.monitoring LINE callback makes every participating thread give up the interpreter at
randomly chosen line starts INSIDE the saml2_tophat package (time.sleep of 0..200 us - the
points where a thread can really be pre-empted are line/bytecode boundaries, so no
interleaving is manufactured that the program cannot have).  The switch interval is set to
1 us for the duration.  Exceptions of the callables are returned, never swallowed.

What is observed is up to the caller (results of its own calls); this module only widens
the set of schedules that actually occur and counts how many yields were injected.
"""
import random
import sys
import threading
import time

_state = {"on": False, "participants": set(), "rng": None, "p": 0.0, "yields": 0, "lines": 0, "hot": 0, "lock": threading.Lock(), "installed": None, "maxsleep": 0.0002}
TOOL = None


_HOT = {}
_STORE = None


def _hot_lines(code):
    """line numbers of a code object that directly follow a line assigning to self.<attr> (or self.<attr>[...])"""
    global _STORE
    h = _HOT.get(code)
    if h is None:
        import linecache
        import re
        if _STORE is None:
            _STORE = re.compile(r"^\s*self\.[A-Za-z_][\w\.]*(\[[^\]]*\])?\s*=[^=]")
        h = set()
        try:
            lines = linecache.getlines(code.co_filename)
            last = max([code.co_firstlineno] + [l for (_, _, l) in code.co_lines() if l])
            for ln in range(code.co_firstlineno, min(last, len(lines)) + 1):
                if _STORE.match(lines[ln - 1]):
                    h.add(ln + 1)
        except Exception:
            pass
        _HOT[code] = h
    return h


def _install():
    global TOOL
    if _state["installed"] is not None:
        return _state["installed"]
    try:
        mon = sys.monitoring
        TOOL = mon.DEBUGGER_ID
        mon.use_tool_id(TOOL, "verif-interleave")

        def on_line(code, line):
            if "/saml2_tophat/" not in code.co_filename:
                return mon.DISABLE
            if not _state["on"] or threading.get_ident() not in _state["participants"]:
                return None
            _state["lines"] += 1
            with _state["lock"]:
                r = _state["rng"].random()
                d = _state["rng"].random() * _state["maxsleep"]
            # right after a store to an attribute of self (or to an item of one) is where multi-step updates of shared objects are half done:
            # yield there far more often than elsewhere
            if line in _hot_lines(code):
                _state["hot"] += 1
                if r < max(_state["p"], 0.5):
                    _state["yields"] += 1
                    time.sleep(d * 2)
                return None
            if r < _state["p"]:
                _state["yields"] += 1
                time.sleep(d)
            return None
        mon.register_callback(TOOL, mon.events.LINE, on_line)
        _state["installed"] = "sys.monitoring LINE events inside saml2_tophat, random yields"
    except Exception as exc:      # pragma: no cover - Python < 3.12
        _state["installed"] = "unavailable: %r" % (exc,)
    return _state["installed"]


def run_threads(funcs, seed, p=0.2, timeout=120, maxsleep=0.0002):
    """funcs: list of zero-argument callables.  Returns (results, errors, stats): results[i] is the return value of funcs[i] (None when it
    raised), errors[i] the exception or None."""
    how = _install()
    results = [None] * len(funcs)
    errors = [None] * len(funcs)
    _state["rng"] = random.Random(seed)
    _state["p"] = p
    _state["maxsleep"] = maxsleep
    _state["yields"] = 0
    _state["lines"] = 0
    _state["hot"] = 0
    start = threading.Barrier(len(funcs))

    def work(i, f):
        _state["participants"].add(threading.get_ident())
        try:
            start.wait(timeout=30)
            results[i] = f()
        except BaseException as exc:     # noqa - reported to the caller
            errors[i] = exc
        finally:
            _state["participants"].discard(threading.get_ident())
    old = sys.getswitchinterval()
    sys.setswitchinterval(1e-6)
    ths = [threading.Thread(target=work, args=(i, f), daemon=True) for i, f in enumerate(funcs)]
    try:
        if TOOL is not None:
            sys.monitoring.set_events(TOOL, sys.monitoring.events.LINE)
            sys.monitoring.restart_events()
        _state["on"] = True
        for t in ths:
            t.start()
        deadline = time.time() + timeout
        for t in ths:
            t.join(max(0.1, deadline - time.time()))
        hung = [i for i, t in enumerate(ths) if t.is_alive()]
    finally:
        _state["on"] = False
        if TOOL is not None:
            sys.monitoring.set_events(TOOL, 0)
        sys.setswitchinterval(old)
    for i in hung:
        errors[i] = TimeoutError("thread %d still running after %ds" % (i, timeout))
    return results, errors, {"yields_injected": _state["yields"], "lines_seen": _state["lines"], "lines_after_attribute_store": _state["hot"], "monitor": how, "threads_hung": len(hung)}


REGIMES = ((0.05, 0.0002), (0.3, 0.0005), (0.02, 0.004))


def run_threads_regimes(funcs, seed, timeout=120, regimes=REGIMES):
    """run_threads once per injection regime (probability of a yield at a line start, longest sleep): rare short yields, frequent ones, and
    rare long ones that let another thread finish a whole step inside the window.  Which regime opens a given race window depends on how
    long the steps around it take (interpreter flags, logging, load), so none of them alone is reliable.  Returns the results of the last
    regime, per thread the first error of any regime, and summed statistics."""
    errors = [None] * len(funcs)
    total = {"yields_injected": 0, "lines_seen": 0, "threads_hung": 0, "monitor": None, "regimes": len(regimes)}
    results = None
    for i, (p, ms) in enumerate(regimes):
        results, errs, st = run_threads(funcs, "%s/regime%d" % (seed, i), p=p, timeout=timeout, maxsleep=ms)
        for j, e in enumerate(errs):
            if errors[j] is None:
                errors[j] = e
        for k in ("yields_injected", "lines_seen", "threads_hung"):
            total[k] += st[k]
        total["monitor"] = st["monitor"]
    return results, errors, total
