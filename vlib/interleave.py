"""Thread interleaving under injected yields.

`run_threads(funcs, seed)` runs the given callables in threads of their own while a
sys.monitoring LINE callback makes every participating thread give up the interpreter at
randomly chosen line starts INSIDE the saml2_tophat package (time.sleep of 0..200 us - the
points where a thread can really be pre-empted are line/bytecode boundaries, so no
interleaving is manufactured that the program cannot have).  The switch interval is set to
1 us for the duration.  Exceptions of the callables are returned, never swallowed.

What is observed is up to the caller (results of its own calls); this module only widens
the set of schedules that actually occur and counts how many yields were injected.
"""
import random
import sys
import threading
import time

_state = {"on": False, "participants": set(), "rng": None, "p": 0.0, "yields": 0, "lines": 0, "lock": threading.Lock(), "installed": None, "maxsleep": 0.0002}
TOOL = None


def _install():
    global TOOL
    if _state["installed"] is not None:
        return _state["installed"]
    try:
        mon = sys.monitoring
        TOOL = mon.DEBUGGER_ID
        mon.use_tool_id(TOOL, "verif-interleave")

        def on_line(code, line):
            if "/saml2_tophat/" not in code.co_filename:
                return mon.DISABLE
            if not _state["on"] or threading.get_ident() not in _state["participants"]:
                return None
            _state["lines"] += 1
            with _state["lock"]:
                r = _state["rng"].random()
                d = _state["rng"].random() * _state["maxsleep"]
            if r < _state["p"]:
                _state["yields"] += 1
                time.sleep(d)
            return None
        mon.register_callback(TOOL, mon.events.LINE, on_line)
        _state["installed"] = "sys.monitoring LINE events inside saml2_tophat, random yields"
    except Exception as exc:      # pragma: no cover - Python < 3.12
        _state["installed"] = "unavailable: %r" % (exc,)
    return _state["installed"]


def run_threads(funcs, seed, p=0.2, timeout=120, maxsleep=0.0002):
    """funcs: list of zero-argument callables.  Returns (results, errors, stats): results[i] is the return value of funcs[i] (None when it
    raised), errors[i] the exception or None."""
    how = _install()
    results = [None] * len(funcs)
    errors = [None] * len(funcs)
    _state["rng"] = random.Random(seed)
    _state["p"] = p
    _state["maxsleep"] = maxsleep
    _state["yields"] = 0
    _state["lines"] = 0
    start = threading.Barrier(len(funcs))

    def work(i, f):
        _state["participants"].add(threading.get_ident())
        try:
            start.wait(timeout=30)
            results[i] = f()
        except BaseException as exc:     # noqa - reported to the caller
            errors[i] = exc
        finally:
            _state["participants"].discard(threading.get_ident())
    old = sys.getswitchinterval()
    sys.setswitchinterval(1e-6)
    ths = [threading.Thread(target=work, args=(i, f), daemon=True) for i, f in enumerate(funcs)]
    try:
        if TOOL is not None:
            sys.monitoring.set_events(TOOL, sys.monitoring.events.LINE)
            sys.monitoring.restart_events()
        _state["on"] = True
        for t in ths:
            t.start()
        deadline = time.time() + timeout
        for t in ths:
            t.join(max(0.1, deadline - time.time()))
        hung = [i for i, t in enumerate(ths) if t.is_alive()]
    finally:
        _state["on"] = False
        if TOOL is not None:
            sys.monitoring.set_events(TOOL, 0)
        sys.setswitchinterval(old)
    for i in hung:
        errors[i] = TimeoutError("thread %d still running after %ds" % (i, timeout))
    return results, errors, {"yields_injected": _state["yields"], "lines_seen": _state["lines"], "monitor": how, "threads_hung": len(hung)}
