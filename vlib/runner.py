"""Sharded case runner, verdict logic, evidence and replay files.

A check module provides
    PROPERTY, LEVEL, RULE, ASSUMPTIONS
    gen_cases(tier, seed)   -> list of JSON-able dicts, each with "id" and "sig"
    setup_worker(tier, seed)-> optional, called once per worker process
    run_case(case, ctx)     -> dict: outcome (str), nontrivial (bool), violations
                               [ {key, what, detail} ], counters {name: int}, obs (small dict)
    finalize(cases, results, tier) -> optional dict with keys
                               coverage (extra keys), inconclusive [reason], violations [...]
Verdicts are three-valued (DESIGN.md §0): exit 0 held on what was observed, exit 1 with
VIOLATION lines, exit 2 inconclusive.
"""
import argparse
import collections
import importlib
import json
import os
import subprocess
import sys
import tempfile
import shutil
import time
import traceback

from . import env
from . import known

MAX_VIOLATION_LINES = 12


class Ctx(object):
    """Per-worker context handed to run_case."""

    def __init__(self, tier, seed, worker=0):
        self.tier = tier
        self.seed = seed
        self.worker = worker
        self.scratch = env.scratch()
        self.log_path = os.path.join(self.scratch, "xmlsec-events-%d.jsonl" % worker)
        os.environ["VERIF_XMLSEC_LOG"] = self.log_path
        self._off = 0
        self.cache = {}

    def begin_case(self, case_id):
        os.environ["VERIF_CASE"] = str(case_id)
        self.mark()

    def mark(self):
        try:
            self._off = os.path.getsize(self.log_path)
        except OSError:
            self._off = 0

    def events(self):
        """Driver events appended since the last mark()/begin_case()."""
        from . import monitors
        return monitors.read_events(self.log_path, self._off)

    def truncate_log(self):
        try:
            open(self.log_path, "w").close()
        except OSError:
            pass
        self._off = 0


def _jsonable(o):
    if isinstance(o, bytes):
        return o.decode("utf-8", "replace")
    if isinstance(o, (set, frozenset, tuple)):
        return list(o)
    return repr(o)


def run_one(mod, case, ctx):
    ctx.begin_case(case.get("id"))
    t0 = time.time()
    try:
        res = mod.run_case(case, ctx) or {}
    except BaseException as exc:  # harness trouble is never a violation
        if isinstance(exc, KeyboardInterrupt):
            raise
        res = {"outcome": "HARNESS-ERROR", "error": traceback.format_exc(limit=12)}
    res.setdefault("violations", [])
    res.setdefault("counters", {})
    res.setdefault("nontrivial", False)
    res["id"] = case.get("id")
    res["sig"] = case.get("sig", case.get("id"))
    if case.get("debuglog"):
        res.setdefault("counters", {})["cases_under_debug_logging"] = 1
        for v in res.get("violations", []):
            v["what"] = "%s [package loggers at DEBUG]" % v.get("what", "")
        if "sigs" in res:
            res["sigs"] = [list(sg) + ["debug logging"] for sg in res["sigs"]]
    if case.get("pyopt"):
        if not sys.flags.optimize:
            res = {"outcome": "HARNESS-ERROR", "error": "case marked python -O ran in an interpreter without -O", "violations": [], "counters": {}, "nontrivial": False,
                   "id": case.get("id"), "sig": case.get("sig")}
        res.setdefault("counters", {})["cases_under_python_O"] = 1
        for v in res.get("violations", []):
            v["what"] = "%s [interpreter started with -O: assert statements are compiled away]" % v.get("what", "")
        if "sigs" in res:
            res["sigs"] = [list(sg) + ["python -O"] for sg in res["sigs"]]
    res["t"] = round(time.time() - t0, 4)
    return res


def worker_main(argv):
    modname, shard, out, tier, seed, widx = argv[:6]
    import faulthandler
    faulthandler.enable()
    mod = importlib.import_module(modname)
    env.assert_repo_is_source()
    # (the package sets its logger's level to NOTSET when it is imported, so this comes after the import)
    if os.environ.get("VERIF_DEBUGLOG"):
        import logging

        class _Formatting(logging.Handler):
            def emit(self, record):
                try:
                    record.getMessage()        # evaluates the arguments like any real handler would
                except Exception:
                    pass
        logging.disable(logging.NOTSET)        # (vlib.env silences logging for the ordinary workers)
        lg = logging.getLogger("saml2_tophat")
        lg.setLevel(logging.DEBUG)
        lg.addHandler(_Formatting())
        lg.propagate = False
    ctx = Ctx(tier, int(seed), int(widx))
    with open(shard) as f:
        cases = json.load(f)
    if hasattr(mod, "setup_worker"):
        mod.setup_worker(ctx)
    with open(out, "w") as fo:
        for i, case in enumerate(cases):
            res = run_one(mod, case, ctx)
            fo.write(json.dumps(res, default=_jsonable) + "\n")
            fo.flush()
            if i % 50 == 49:
                ctx.truncate_log()
        if hasattr(mod, "worker_done"):
            extra = mod.worker_done(ctx)
            if extra:
                fo.write(json.dumps({"id": "__worker__", "worker_extra": extra}, default=_jsonable) + "\n")


def _spawn(modname, cases, tier, seed, nworkers, timeout):
    tmp = tempfile.mkdtemp(prefix="pysaml2-verif-run-")
    procs = []
    plain = [c for c in cases if not c.get("pyopt") and not c.get("debuglog")]
    opt = [c for c in cases if c.get("pyopt")]
    dbg = [c for c in cases if c.get("debuglog")]
    # cases that ask for an interpreter of their own (thread interleavings: nothing another case left behind in the process - warm caches,
    # monitoring state, a big heap - between them and the schedule they explore)
    solo = [c for c in plain if c.get("own_worker")]
    plain = [c for c in plain if not c.get("own_worker")]
    n = max(1, min(nworkers, len(plain)))
    shards = [(plain[i::n], [], {}) for i in range(n)] if plain else []
    shards += [([c], [], {}) for c in solo]
    if opt:
        # the same workload in interpreters started with -O (assert statements compiled away): a sample of the cases, own workers
        m = max(1, min(max(2, nworkers // 3), len(opt)))
        shards += [(opt[i::m], ["-O"], {}) for i in range(m)]
    if dbg:
        # ... and in workers where the package's loggers are at DEBUG with a handler that formats every record
        m = max(1, min(max(2, nworkers // 3), len(dbg)))
        shards += [(dbg[i::m], [], {"VERIF_DEBUGLOG": "1"}) for i in range(m)]
    envp = dict(os.environ)
    envp["PYTHONPATH"] = env.VERIF + os.pathsep + envp.get("PYTHONPATH", "")
    envp["PYTHONDONTWRITEBYTECODE"] = "1"
    envp.setdefault("PYTHONHASHSEED", "0")
    envp["VERIF_TMP"] = tmp
    envp["TMPDIR"] = tmp
    for i, (sh, pyflags, extra_env) in enumerate(shards):
        sp = os.path.join(tmp, "shard-%d.json" % i)
        op = os.path.join(tmp, "out-%d.jsonl" % i)
        with open(sp, "w") as f:
            json.dump(sh, f)
        lp = open(os.path.join(tmp, "log-%d.txt" % i), "w")
        p = subprocess.Popen([sys.executable] + pyflags + ["-c",
                              "import sys; from vlib import runner; runner.worker_main(sys.argv[1:])",
                              modname, sp, op, tier, str(seed), str(i)],
                             env=dict(envp, **extra_env), cwd=tmp, stdout=lp, stderr=subprocess.STDOUT)
        procs.append((p, op, lp, len(sh), i))
    results, problems, extras = [], [], []
    deadline = time.time() + timeout
    for p, op, lp, n_expected, i in procs:
        left = max(1, deadline - time.time())
        try:
            rc = p.wait(timeout=left)
        except subprocess.TimeoutExpired:
            p.kill()
            p.wait()
            rc = "timeout"
        lp.close()
        got = 0
        if os.path.exists(op):
            with open(op) as f:
                for line in f:
                    try:
                        r = json.loads(line)
                    except ValueError:
                        continue
                    if r.get("id") == "__worker__":
                        extras.append(r["worker_extra"])
                        continue
                    results.append(r)
                    got += 1
        if rc != 0 or got != n_expected:
            tail = ""
            try:
                with open(os.path.join(tmp, "log-%d.txt" % i)) as f:
                    tail = f.read()[-1500:]
            except OSError:
                pass
            problems.append("worker %d rc=%s results=%d/%d %s" % (i, rc, got, n_expected, tail.strip()[-600:]))
    shutil.rmtree(tmp, ignore_errors=True)
    return results, problems, extras


def _write_replay(prop, case, res, viol, tier, seed):
    d = os.path.join(env.VERIF, "replays", prop)
    os.makedirs(d, exist_ok=True)
    slug = "".join(c if c.isalnum() or c in "-_." else "_" for c in "%s-%s" % (viol.get("key", "v"), case.get("id")))[:150]
    k = 0
    path = os.path.join(d, slug + ".json")
    while os.path.exists(path):
        k += 1
        path = os.path.join(d, "%s-%d.json" % (slug, k))
    with open(path, "w") as f:
        json.dump({"property": prop, "tier": tier, "seed": seed, "case": case, "violation": viol,
                   "result": res}, f, indent=1, default=_jsonable)
    return path


def main(modname, argv=None):
    try:
        return _main(modname, argv)
    except SystemExit:
        raise
    except BaseException as exc:      # a crash of the machinery is never a verdict on the property
        if isinstance(exc, KeyboardInterrupt):
            raise
        print("INCONCLUSIVE property=%s reason=check machinery failed: %s" % (modname.rsplit(".", 1)[-1].upper(), traceback.format_exc(limit=6).replace("\n", " | ")[-900:]))
        return 2


def _main(modname, argv=None):
    ap = argparse.ArgumentParser()
    ap.add_argument("--tier", default=None)
    ap.add_argument("--replay", default=None)
    ap.add_argument("--workers", type=int, default=int(os.environ.get("VERIF_WORKERS", "0")) or min(16, os.cpu_count() or 1))
    ap.add_argument("--inproc", action="store_true")
    ap.add_argument("--only", default=None, help="substring filter on case ids (debugging)")
    ap.add_argument("--no-evidence", action="store_true")
    args = ap.parse_args(argv)
    tier = args.tier or os.environ.get("VERIF_TIER") or "quick"
    if tier not in ("quick", "thorough"):
        tier = "quick"
    seed = env.seed()
    t0 = time.time()
    mod = importlib.import_module(modname)
    prop = mod.PROPERTY
    env.assert_repo_is_source()

    if args.replay:
        with open(args.replay) as f:
            rp = json.load(f)
        want_hs = str(rp.get("seed", seed))
        want_opt = bool(rp.get("case", {}).get("pyopt"))
        if (os.environ.get("PYTHONHASHSEED", "0") != want_hs or want_opt != bool(sys.flags.optimize)) and not os.environ.get("VERIF_REEXEC"):
            # the interpreter's hash seed follows the workload seed (./check); replay under the one the case was found with
            os.execve(sys.executable, [sys.executable] + (["-O"] if want_opt else []) + ["-W", "ignore", "-c", "import sys; from vlib import runner; sys.exit(runner.main(sys.argv[1], sys.argv[2:]))",
                                       modname] + list(argv if argv is not None else sys.argv[1:]),
                      dict(os.environ, PYTHONHASHSEED=want_hs, VERIF_SEED=want_hs, VERIF_REEXEC="1"))
        if rp.get("case", {}).get("debuglog"):
            import logging
            import saml2_tophat  # noqa: F401  (resets the level on import)
            logging.disable(logging.NOTSET)
            logging.getLogger("saml2_tophat").setLevel(logging.DEBUG)
            logging.getLogger("saml2_tophat").addHandler(logging.NullHandler())
            logging.getLogger("saml2_tophat").propagate = False
        ctx = Ctx(rp.get("tier", tier), rp.get("seed", seed))
        if hasattr(mod, "setup_worker"):
            mod.setup_worker(ctx)
        res = run_one(mod, rp["case"], ctx)
        print(json.dumps(res, indent=1, default=_jsonable))
        kf = known.load()
        bad = [v for v in res["violations"] if not known.is_known(kf, prop, v.get("key"))]
        for v in bad:
            print("VIOLATION property=%s replay=%s" % (prop, args.replay))
        return 1 if bad else 0

    shutil.rmtree(os.path.join(env.VERIF, "replays", prop), ignore_errors=True)
    cases = mod.gen_cases(tier, seed)
    if args.only:
        cases = [c for c in cases if args.only in str(c.get("id"))]
    by_id = {}
    for c in cases:
        if c["id"] in by_id:
            raise RuntimeError("duplicate case id %r" % c["id"])
        by_id[c["id"]] = c
    if seed:
        # entities are long-lived inside a worker, so the order in which a worker meets its cases is part of the workload (state carried
        # between calls): every non-zero seed gives the workers another order and another partition of the same case list
        import random as _random
        _random.Random(seed).shuffle(cases)
    pyopt = getattr(mod, "PYOPT", "sample")
    if pyopt != "none" and os.environ.get("VERIF_PYOPT", "1") != "0" and not args.inproc:
        # environment dimension: python -O.  A sample of the cases (every k-th of the seed's order) runs once more in -O interpreters.
        want = len(cases) if pyopt == "all" else (min(len(cases), max(8, len(cases) // 6)) if tier == "quick" else min(len(cases), max(40, len(cases) // 3)))
        step = max(1, len(cases) // max(1, want))
        clones = []
        picked = cases[(seed % step)::step]
        # cases whose outcome depends on timing (thread interleavings) run in every environment, not in a sample of them
        picked = picked + [c for c in cases if c.get("all_envs") and c not in picked]
        for c in picked:
            k = dict(c)
            k["id"] = "%s|python-O" % c["id"]
            k["sig"] = list(c.get("sig") or [c["id"]]) + ["python -O"]
            k["pyopt"] = 1
            clones.append(k)
            by_id[k["id"]] = k
        cases = cases + clones
    if getattr(mod, "DEBUGLOG", "sample") != "none" and os.environ.get("VERIF_DEBUGLOG_SAMPLE", "1") != "0" and not args.inproc:
        # environment dimension: logging.  A (smaller) sample again with the package's loggers at DEBUG - what a message is decided to be
        # must not depend on whether somebody is reading the log
        base = [c for c in cases if not c.get("pyopt")]
        want = min(len(base), max(6, len(base) // 12)) if tier == "quick" else min(len(base), max(30, len(base) // 6))
        step = max(1, len(base) // max(1, want))
        clones = []
        picked = base[((seed + 1) % step)::step]
        picked = picked + [c for c in base if c.get("all_envs") and c not in picked]
        for c in picked:
            k = dict(c)
            k["id"] = "%s|debug-logging" % c["id"]
            k["sig"] = list(c.get("sig") or [c["id"]]) + ["debug logging"]
            k["debuglog"] = 1
            clones.append(k)
            by_id[k["id"]] = k
        cases = cases + clones
    timeout = int(os.environ.get("VERIF_TIMEOUT", "0")) or (900 if tier == "quick" else 3 * 3600)
    if args.inproc:
        ctx = Ctx(tier, seed)
        if hasattr(mod, "setup_worker"):
            mod.setup_worker(ctx)
        results = [run_one(mod, c, ctx) for c in cases]
        problems, extras = [], []
        if hasattr(mod, "worker_done"):
            e = mod.worker_done(ctx)
            if e:
                extras.append(e)
    else:
        results, problems, extras = _spawn(modname, cases, tier, seed, args.workers, timeout)

    inconclusive = list(problems)
    counters = collections.Counter()
    outcomes = collections.Counter()
    sigs = set()
    violations = []   # (case, res, viol)
    evals = 0
    for r in results:
        outcomes[r.get("outcome", "?")] += 1
        for k, v in r.get("counters", {}).items():
            counters[k] += v
        if r.get("outcome") == "HARNESS-ERROR":
            inconclusive.append("harness error in case %s: %s" % (r["id"], r.get("error", "")[-400:]))
        if r.get("nontrivial") and "sigs" not in r:
            sigs.add(json.dumps(r.get("sig"), sort_keys=True, default=_jsonable))
        for sg in r.get("sigs", []):   # a case that bundles several executions reports each signature
            sigs.add(json.dumps(sg, sort_keys=True, default=_jsonable))
        evals += int(r.get("evals", 1))
        for v in r.get("violations", []):
            violations.append((by_id.get(r["id"], {"id": r["id"]}), r, v))
    fin = {}
    if hasattr(mod, "finalize"):
        fin = mod.finalize(cases, results, tier, extras) or {}
        for v in fin.get("violations", []):
            violations.append((v.get("case", {"id": "finalize"}), {}, v))
        inconclusive.extend(fin.get("inconclusive", []))
    if not results:
        inconclusive.append("no case produced a result")
    if not sigs:
        inconclusive.append("no non-trivial case was observed")

    kf = known.load()
    known_hits = collections.OrderedDict()
    new = []
    for case, res, v in violations:
        ent = known.is_known(kf, prop, v.get("key"))
        if ent:
            known_hits.setdefault(v["key"], [ent, 0, case.get("id")])
            known_hits[v["key"]][1] += 1
        else:
            new.append((case, res, v))

    # ------------------------------------------------------------------ report
    print("== %s tier=%s seed=%d cases=%d results=%d executions=%d distinct_nontrivial=%d wall=%.1fs" % (
        prop, tier, seed, len(cases), len(results), evals, len(sigs), time.time() - t0))
    print("   outcomes: " + ", ".join("%s=%d" % kv for kv in sorted(outcomes.items())))
    if counters:
        print("   monitors: " + ", ".join("%s=%d" % kv for kv in sorted(counters.items())))
    for key, (ent, n, cid) in known_hits.items():
        print("KNOWN-FINDING: property=%s %s [key=%s, %d witnesses, e.g. case %s]" % (prop, ent.get("what", ""), key, n, cid))
    seen_keys = collections.Counter()
    lines = 0
    for case, res, v in new:
        seen_keys[v.get("key")] += 1
        if seen_keys[v.get("key")] > 3 or lines >= MAX_VIOLATION_LINES:
            continue
        path = _write_replay(prop, case, res, v, tier, seed)
        print("VIOLATION property=%s replay=%s" % (prop, path))
        print("   key=%s what=%s" % (v.get("key"), str(v.get("what"))[:300]))
        lines += 1
    if new and sum(seen_keys.values()) > lines:
        print("   (%d violating witnesses in total: %s)" % (sum(seen_keys.values()), dict(seen_keys)))
    for why in inconclusive[:8]:
        print("INCONCLUSIVE property=%s reason=%s" % (prop, str(why).replace("\n", " | ")[:700]))

    # ---------------------------------------------------------------- evidence
    samples = []
    for r in results[:: max(1, len(results) // 4)][:4]:
        samples.append({"case": by_id.get(r["id"]), "outcome": r.get("outcome"), "obs": r.get("obs")})
    cov = {
        "evaluations": evals,
        "distinct_nontrivial": len(sigs),
        "rule": mod.RULE,
        "samples": samples or [{"note": "no case ran"}],
        "outcomes": dict(outcomes),
        "monitor_counters": dict(counters),
        "known_findings_reproduced": {k: v[1] for k, v in known_hits.items()},
        "new_violation_keys": dict(seen_keys),
        "inconclusive": inconclusive[:8],
        "violation_witnesses": [{"key": v.get("key"), "case": c.get("id"), "what": str(v.get("what"))[:240]}
                                for c, _r, v in new[:60]],
        "workers": args.workers,
    }
    cov.update(fin.get("coverage", {}))
    if not args.no_evidence and not args.only:
        # (only when evidence is written: a check that watches which programs are started while it runs must not see this one start git)
        cov["tree_under_test"] = _tree_id()
    ev = {
        "property_id": prop, "tier": tier, "seed": seed, "level": mod.LEVEL, "coverage": cov,
        "assumptions": list(getattr(mod, "ASSUMPTIONS", [])),
        "wall_s": round(time.time() - t0, 2), "violations": len(new),
    }
    if not args.no_evidence and not args.only:
        write_evidence(prop, ev)
    if new:
        return 1
    if inconclusive:
        return 2
    return 0


def _tree_id():
    """which working tree the run looked at: commit of the repository under test (+dirty) and of the checks"""
    import subprocess
    out = {}
    for name, path in (("repo", env.REPO), ("verif", env.VERIF)):
        try:
            h = subprocess.run(["git", "-C", path, "log", "-1", "--format=%h"], stdout=subprocess.PIPE, stderr=subprocess.DEVNULL, timeout=20).stdout.decode().strip()
            dirty = subprocess.run(["git", "-C", path, "status", "--porcelain", "--untracked-files=no"], stdout=subprocess.PIPE, stderr=subprocess.DEVNULL,
                                   timeout=20).stdout.decode().strip()
            out[name] = (h or "no-git") + ("+modified" if dirty else "")
        except Exception:
            out[name] = "unknown"
    return out


def write_evidence(prop, ev):
    d = os.path.join(env.VERIF, "evidence")
    os.makedirs(d, exist_ok=True)
    path = os.path.join(d, prop + ".json")
    try:
        import jsonschema
        with open("/root/.vp/EVIDENCE.schema.json") as f:
            schema = json.load(f)
        jsonschema.validate(json.loads(json.dumps(ev, default=_jsonable)), schema)
    except ImportError:
        pass
    except (OSError, IOError):
        pass
    except Exception as exc:  # schema violation: still write, but say so loudly
        print("EVIDENCE-SCHEMA-PROBLEM %s: %s" % (prop, str(exc)[:300]))
    tmp = path + ".tmp"
    with open(tmp, "w") as f:
        json.dump(ev, f, indent=1, default=_jsonable, sort_keys=True)
    os.replace(tmp, path)
    if ev.get("tier") == "thorough":
        # the last thorough run is kept beside the file that every run rewrites (a later quick run would otherwise be all that is left of it)
        d2 = os.path.join(d, "thorough")
        os.makedirs(d2, exist_ok=True)
        with open(os.path.join(d2, prop + ".json.tmp"), "w") as f:
            json.dump(ev, f, indent=1, default=_jsonable, sort_keys=True)
        os.replace(os.path.join(d2, prop + ".json.tmp"), os.path.join(d2, prop + ".json"))
