"""Introspection of pysaml2's generated schema modules and an instance generator /
structural comparator that do not rely on SamlBase.__eq__ or on pysaml2's parser."""
import importlib
import os
import pkgutil
import xml.etree.ElementTree as ET

from . import env, gen

_cache = {}


def schema_modules():
    """All modules below saml2_tophat that export ELEMENT_BY_TAG / ELEMENT_FROM_STRING."""
    if "mods" in _cache:
        return _cache["mods"]
    import saml2_tophat
    mods = []
    skip = ("saml2_tophat.s2repoze", "saml2_tophat.tools", "saml2_tophat.mongo_store", "saml2_tophat.mdbcache")
    for m in pkgutil.walk_packages(saml2_tophat.__path__, "saml2_tophat."):
        if m.name.startswith(skip):
            continue
        try:
            mod = importlib.import_module(m.name)
        except Exception:
            continue
        if isinstance(getattr(mod, "ELEMENT_BY_TAG", None), dict) and getattr(mod, "NAMESPACE", None):
            mods.append(mod)
    for name in ("saml2_tophat.saml", "saml2_tophat.samlp", "saml2_tophat.md"):
        mod = importlib.import_module(name)
        if mod not in mods:
            mods.append(mod)
    mods.sort(key=lambda m: m.__name__)
    _cache["mods"] = mods
    return mods


def element_classes(mod):
    """classes of this module that are element classes (have c_tag and c_namespace)"""
    import saml2_tophat
    out = []
    seen = set()
    for name, cls in sorted(vars(mod).items()):
        if not isinstance(cls, type) or not issubclass(cls, saml2_tophat.SamlBase):
            continue
        if cls.__module__ != mod.__name__:
            continue
        if not getattr(cls, "c_tag", None) or not getattr(cls, "c_namespace", None):
            continue
        if cls in seen:
            continue
        seen.add(cls)
        out.append(cls)
    return out


def all_classes():
    if "classes" not in _cache:
        _cache["classes"] = [(m, c) for m in schema_modules() for c in element_classes(m)]
    return _cache["classes"]


def child_specs(cls):
    """list of (tag, member, child_class, is_list) for usable child declarations"""
    out = []
    for tag, (member, spec) in cls.c_children.items():
        is_list = isinstance(spec, list)
        ccls = spec[0] if is_list else spec
        out.append((tag, member, ccls, is_list))
    return out


TEXT_SAMPLES = ["plain", "a<b>&c", "quote\"'", "Müller 日本", "x]]>y", " lead", "trail ", "two  spaces", "line\nbreak", "&amp;", "cr\rinside", "crlf\r\ninside"]
ATTR_SAMPLES = ["v", "a<b>&\"c'", "é日本", "tab\there", "nl\nhere", "cr\rhere", " sp ", "http://example.org/?a=1&b=2", "2020-01-01T00:00:00Z"]


TYPED_LEXICAL = {
    "boolean": ["true", "false", "1", "0"],
    "integer": ["0", "7", "007", "+3", "-1"], "nonNegativeInteger": ["0", "7", "007", "+3"], "positiveInteger": ["1", "007", "+3"], "PositiveInteger": ["1", "007"],
    "unsignedShort": ["0", "7", "007", "65535"], "unsignedByte": ["0", "255", "07"], "unsignedInt": ["0", "42"], "unsignedLong": ["0", "42"],
    "dateTime": ["2020-01-01T00:00:00Z", "2020-01-01T00:00:00.5Z", "2020-01-01T00:00:00.123456789Z", "2020-01-01T00:00:00", "2020-01-01T01:00:00+01:00"],
    "datetime": ["2020-01-01T00:00:00Z", "2020-01-01T00:00:00.5Z"],
    "duration": ["PT5M", "P1D", "P1Y2M3DT4H5M6S", "-P1D", "PT0.5S"],
    "anyURI": ["http://example.org/x", "urn:a:b", "", "relative/path?q=1#f", "https://EXAMPLE.org/%7Ea"],
    "ID": ["id-1", "_x", "A.b-c"], "NCName": ["abc", "_a.b-c"], "QName": ["xs:string", "a"], "NMTOKEN": ["tok", "1a"], "NMTOKENS": ["a b", "x"],
    "base64Binary": ["QUJD", "QUJ D", "", "QQ=="], "string": ["", " ", "x"],
}


def make_instance(cls, rng, depth=2, fill=0.7, foreign=0.0, stats=None, want_text=True):
    """Instance of cls with attributes/children/text set directly on the members."""
    from saml2_tophat import ExtensionElement
    inst = cls()
    for xml_name, (member, typ, required) in cls.c_attributes.items():
        if required or rng.random() < fill:
            lex = TYPED_LEXICAL.get(str(typ).split(":")[-1]) if not isinstance(typ, type) else None
            if lex and rng.random() < 0.6:
                # every legal lexical form of the declared type is just a string to carry: "1" is not "true", "007" is not "7"
                setattr(inst, member, rng.choice(lex))
            else:
                setattr(inst, member, rng.choice(ATTR_SAMPLES) + gen.word(rng, 0, 3))
    nchildren = 0
    if depth > 0:
        for tag, member, ccls, is_list in child_specs(cls):
            if ccls is None or not isinstance(ccls, type):
                if stats is not None:
                    stats["unusable_child_decl"] = stats.get("unusable_child_decl", 0) + 1
                continue
            if rng.random() > fill:
                continue
            if is_list:
                k = rng.choice([1, 1, 2, 3])
                setattr(inst, member, [make_instance(ccls, rng, depth - 1, fill, foreign, stats) for _ in range(k)])
                nchildren += k
            else:
                setattr(inst, member, make_instance(ccls, rng, depth - 1, fill, foreign, stats))
                nchildren += 1
    always_text = any(b.__name__ == "AttributeValueBase" for b in cls.__mro__)   # no text there means xsi:nil, a different shape
    if want_text and (always_text or ((nchildren == 0 or rng.random() < 0.2) and rng.random() < 0.8)):
        try:
            inst.text = rng.choice(TEXT_SAMPLES) + gen.word(rng, 0, 4)
        except Exception:
            pass
    if always_text and inst.text is not None and rng.random() < 0.4:
        # a typed value whose type the library has no conversion for is still a value
        try:
            t = rng.choice(["xs:string", "xs:anyURI", "xs:dateTime", "xs:QName", "my:OwnType"])
            if t.startswith("xs:"):
                inst.set_type(t)
            else:
                # (set_type would also leave an 'xmlns:xs' pseudo-attribute behind, which is a namespace declaration and not content)
                inst.extension_attributes = dict(inst.extension_attributes or {})
                inst.extension_attributes.pop("xmlns:xs", None)
                inst.extension_attributes["{http://www.w3.org/2001/XMLSchema-instance}type"] = t
            if stats is not None:
                stats["typed_attribute_values"] = stats.get("typed_attribute_values", 0) + 1
        except Exception:
            pass
    if foreign and rng.random() < foreign:
        if inst.extension_attributes is None:
            inst.extension_attributes = {}
        inst.extension_attributes["{urn:verif:foreign}fa%d" % rng.randint(0, 3)] = rng.choice(ATTR_SAMPLES)
        # unknown to the class all the same: qualified with the class's own namespace, local name equal to / different from a declared attribute,
        # and a declared local name in a foreign namespace
        declared = [a for a in cls.c_attributes if not a.startswith("{")]
        r = rng.random()
        if declared and r < 0.35:
            inst.extension_attributes["{%s}%s" % (cls.c_namespace, rng.choice(declared))] = "own-ns-" + gen.word(rng, 2, 4)
        elif declared and r < 0.55:
            inst.extension_attributes["{urn:verif:foreign}%s" % rng.choice(declared)] = "foreign-ns-" + gen.word(rng, 2, 4)
        elif r < 0.7:
            inst.extension_attributes["{%s}verifExtra" % cls.c_namespace] = "own-ns-extra"
        ee = ExtensionElement("Foreign%d" % rng.randint(0, 3), namespace="urn:verif:foreign",
                              attributes={"k": rng.choice(ATTR_SAMPLES)}, text=rng.choice(TEXT_SAMPLES))
        decl_kids = [t for t in cls.c_children if t.startswith("{")]
        if decl_kids and rng.random() < 0.35:
            # unknown to the class all the same: the local name of a declared child in a namespace that is not the declared one (a foreign one, or
            # a near miss of the right one: other year, with/without the trailing '#' - what older or sloppier peers write)
            ns, local = rng.choice(decl_kids)[1:].split("}")
            near = [n for n in (ns.rstrip("#"), ns + "#" if not ns.endswith("#") else ns[:-1] + "/", ns.replace("2001/04", "2000/09"), ns.replace("2000/09", "2001/04"),
                                ns.replace(":2.0:", ":1.0:"), "urn:verif:foreign") if n != ns]
            ee.tag, ee.namespace = local, rng.choice(near)
            if stats is not None:
                stats["foreign_child_with_declared_local_name"] = stats.get("foreign_child_with_declared_local_name", 0) + 1
        if rng.random() < 0.6:
            # namespace-qualified attributes on foreign content (xsi:type and the like)
            ee.attributes["{urn:verif:foreign3}q"] = "qv-" + gen.word(rng, 1, 3)
            if rng.random() < 0.5:
                ee.attributes["{http://www.w3.org/2001/XMLSchema-instance}type"] = "xs:string"
        if rng.random() < 0.5:
            ee.children.append(ExtensionElement("Inner", namespace="urn:verif:foreign2", text="inner"))
        inst.extension_elements = [ee]
    return inst


def members_in_order(cls):
    """child members straight from the class tables (not through the library's own iteration helper): c_child_order first, then whatever
    c_children declares beyond it"""
    declared = [v[0] for v in cls.c_children.values()]
    out = [m for m in cls.c_child_order if m in declared]
    seen = set(out)
    for m in declared:
        if m not in seen:
            seen.add(m)
            out.append(m)
    return out


def _norm_text(t):
    return t if t else None


def describe(obj, path="", known_only=False):
    """nested, comparable description of a SamlBase / ExtensionElement object"""
    from saml2_tophat import ExtensionElement
    if isinstance(obj, ExtensionElement):
        return ("EXT", obj.namespace, obj.tag, tuple(sorted((obj.attributes or {}).items())), _norm_text(obj.text),
                tuple(describe(c) for c in obj.children))
    cls = obj.__class__
    attrs = tuple(sorted((xml, getattr(obj, member)) for xml, (member, _t, _r) in cls.c_attributes.items()
                         if getattr(obj, member, None) is not None))
    kids = []
    for member in members_in_order(cls):
        v = getattr(obj, member, None)
        if v is None:
            continue
        if isinstance(v, list):
            for x in v:
                kids.append((member, describe(x)))
        else:
            kids.append((member, describe(v)))
    ext_a = tuple(sorted((obj.extension_attributes or {}).items()))
    ext_e = tuple(describe(e) for e in (obj.extension_elements or []))
    return (cls.__module__ + "." + cls.__name__, attrs, _norm_text(obj.text), tuple(kids), ext_a, ext_e)


def first_difference(a, b, path="$"):
    if type(a) != type(b):
        return "%s: %r != %r" % (path, a, b)
    if isinstance(a, tuple):
        if len(a) != len(b):
            return "%s: length %d != %d (%r vs %r)" % (path, len(a), len(b), _short(a), _short(b))
        for i, (x, y) in enumerate(zip(a, b)):
            d = first_difference(x, y, "%s[%d]" % (path, i))
            if d:
                return d
        return None
    return None if a == b else "%s: %r != %r" % (path, a, b)


def _short(x):
    s = repr(x)
    return s if len(s) < 300 else s[:300] + "..."


def own_tree(xml_bytes):
    """independent parse (stdlib ElementTree on text produced by the library itself)"""
    return ET.fromstring(xml_bytes)
