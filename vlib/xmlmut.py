"""Mutators over signed SAML documents (C01, C10, C17).  Every mutator has a stable name
used in evidence, case signatures and known-finding keys.  All work on the original bytes
(xmlkit.Doc) so that untouched signed content keeps its exact serialisation.

mutants(text, want) yields (name, family, mutated_text).
"""
import re

from . import xmlkit as xk
from .xmlkit import Doc, SAML, SAMLP, DS

EVIL_NAMEID = "attacker-subject"
EVIL_VALUE = "attacker-value"


def _pfx(doc, uri, default):
    for p, u in doc.nsdecls_in_scope(doc.root).items():
        if u == uri and p:
            return p, ""
    return default, ' xmlns:%s="%s"' % (default, uri)


def el(doc, uri, default_prefix, local, inner=b"", attrs=""):
    p, decl = _pfx(doc, uri, default_prefix)
    if isinstance(inner, str):
        inner = inner.encode("utf-8")
    return ("<%s:%s%s%s>" % (p, local, decl, attrs)).encode() + inner + ("</%s:%s>" % (p, local)).encode()


def strip_signature(text_bytes):
    """Remove the direct ds:Signature child of a serialised element (bytes)."""
    d = Doc(text_bytes)
    s = d.root.child(DS, "Signature")
    return d.remove(s).b if s is not None else d.b


def evilize(elem_bytes, new_id=None, keep_sig=True, tweak=True):
    """Attacker's version of a serialised Assertion/Response/request: subject and first
    attribute value replaced, optionally a new ID, optionally without its signature."""
    d = Doc(elem_bytes)
    if not keep_sig:
        d = Doc(strip_signature(d.b))
    if tweak:
        nids = [n for n in d.find(SAML, "NameID") if not _under(n, DS, "Signature")]
        if nids:
            d = d.set_text(nids[0], EVIL_NAMEID)
        avs = d.find(SAML, "AttributeValue")
        if avs:
            d = d.set_text(avs[0], EVIL_VALUE)
        if not nids and not avs:
            # requests: change something the receiver acts upon
            for attr in ("AssertionConsumerServiceURL", "Destination"):
                if attr in d.root.attrs:
                    d = d.set_attr(d.root, attr, "https://attacker.example.org/acs")
                    break
            else:
                iss = d.find(SAML, "Issuer")
                if iss:
                    d = d.set_attr(d.root, "Consent", "urn:attacker")
    if new_id:
        d = d.set_attr(d.root, "ID", new_id)
    return d.b


def _under(n, ns, local):
    x = n.parent
    while x is not None:
        if x.ns == ns and x.local == local:
            return True
        x = x.parent
    return False


def _target(doc, tns, tlocal):
    """the signed target: first element of that name that carries a direct Signature"""
    for n in doc.find(tns, tlocal):
        if n.child(DS, "Signature") is not None:
            return n
    return None


# --------------------------------------------------------------------------- edits

def edits(text, tns, tlocal):
    """single text/attribute edits inside the signed target"""
    doc = Doc(text)
    t = _target(doc, tns, tlocal)
    if t is None:
        return
    seen = set()
    for n in t.iter():
        if _under(n, DS, "Signature") or (n.ns == DS):
            continue
        # text edit on leaves with text
        if not n.children and doc.inner(n).strip():
            key = ("text", n.local)
            if key not in seen:
                seen.add(key)
                yield "edit-text:%s" % n.local, "edit", doc.set_text(n, "X" + doc.inner(n).decode()).text()
        for a, v in n.attrs.items():
            if a.startswith("{") or ":" in a or " " in a:
                continue
            key = ("attr", n.local, a)
            if key in seen:
                continue
            seen.add(key)
            if a in ("NotOnOrAfter", "SessionNotOnOrAfter"):
                nv = re.sub(r"^(\d{4})", lambda m: str(int(m.group(1)) + 1), v)
            elif a == "NotBefore":
                nv = re.sub(r"^(\d{4})", lambda m: str(int(m.group(1)) - 1), v)
            elif a in ("ID", "Version", "IssueInstant", "AuthnInstant"):
                continue
            else:
                nv = v + "x"
            yield "edit-attr:%s/@%s" % (n.local, a), "edit", doc.set_attr(n, a, nv).text()
    # structural edits
    d = Doc(text)
    t = _target(d, tns, tlocal)
    astm = t.find(SAML, "AttributeStatement")
    if astm:
        extra = el(d, SAML, "saml", "Attribute", el(d, SAML, "saml", "AttributeValue", "admin"),
                   ' Name="urn:oid:1.3.6.1.4.1.5923.1.1.1.7" NameFormat="urn:oasis:names:tc:SAML:2.0:attrname-format:uri" FriendlyName="eduPersonEntitlement"')
        yield "add-attribute", "edit", d.append_child(astm[0], extra).text()
        yield "remove-attribute-statement", "edit", d.remove(astm[0]).text()
    cond = t.find(SAML, "Conditions")
    if cond:
        yield "remove-conditions", "edit", d.remove(cond[0]).text()
        ar = cond[0].find(SAML, "AudienceRestriction")
        if ar:
            yield "remove-audience-restriction", "edit", d.remove(ar[0]).text()
    nid = [n for n in t.find(SAML, "NameID")]
    if nid:
        yield "comment-in-nameid", "comment", d._splice(nid[0].stag_end, nid[0].stag_end, b"<!--c-->").text()
        inner = d.inner(nid[0])
        half = len(inner) // 2
        yield "comment-split-nameid", "comment", d._splice(nid[0].stag_end, nid[0].etag_start,
                                                           inner[:half] + b"<!--x-->" + inner[half:]).text()
    avs = t.find(SAML, "AttributeValue")
    if avs:
        yield "comment-in-attribute-value", "comment", d._splice(avs[0].etag_start, avs[0].etag_start, b"<!---->").text()
        yield "pi-in-attribute-value", "comment", d._splice(avs[0].etag_start, avs[0].etag_start, b"<?verif x?>").text()
        yield "cdata-append-attribute-value", "edit", d._splice(avs[0].etag_start, avs[0].etag_start, b"<![CDATA[+evil]]>").text()


# ---------------------------------------------------------------- signature games

def signature_games(text, tns, tlocal):
    doc = Doc(text)
    t = _target(doc, tns, tlocal)
    if t is None:
        return
    tid = t.attrs.get("ID")
    sig = t.child(DS, "Signature")
    sigb = doc.outer(sig)
    # forged signature: same structure, garbage value (an attacker has no key)
    forged = re.sub(br"(<[^>]*SignatureValue[^>]*>)[^<]*(</)", br"\1AAAA\2", sigb)
    evil_sig_other_ref = re.sub(br'URI="#[^"]*"', b'URI="#other"', sigb)

    yield "sig-remove", "sig", doc.remove(sig).text()
    yield "sig-duplicate-after", "sig", doc.insert_after(sig, sigb).text()
    yield "sig-forged-before-genuine", "sig", doc.insert_before(sig, forged).text()
    yield "sig-forged-after-genuine", "sig", doc.insert_after(sig, forged).text()
    yield "sig-forged-only", "sig", doc.replace(sig, forged).text()
    # Signature relocated into an earlier sibling (Issuer) / later child
    iss = t.child(SAML, "Issuer")
    if iss is not None:
        d2 = doc.remove(sig)
        t2 = _first(d2, tns, tlocal, tid)
        yield "sig-moved-into-issuer", "sig", d2.append_child(t2.child(SAML, "Issuer"), sigb).text()
        d3 = doc.append_child(iss, sigb)
        yield "sig-copy-into-issuer", "sig", d3.text()
    # reference games
    ref = sig.find(DS, "Reference")[0]
    yield "ref-uri-empty", "ref", doc.set_attr(ref, "URI", "").text()
    yield "ref-uri-removed", "ref", doc.set_attr(ref, "URI", None).text()
    yield "ref-uri-other", "ref", doc.set_attr(ref, "URI", "#" + (doc.root.attrs.get("ID") if t is not doc.root else "nonexistent")).text()
    yield "ref-duplicated", "ref", doc.insert_after(ref, doc.outer(ref)).text()
    yield "ref-xpointer", "ref", doc.set_attr(ref, "URI", "#xpointer(id('%s'))" % tid).text()
    yield "ref-remote", "ref", doc.set_attr(ref, "URI", "http://127.0.0.1:9/x.xml").text()
    tr = sig.find(DS, "Transform")
    if tr:
        yield "transform-enveloped-removed", "ref", doc.remove(tr[0]).text()
    # change target ID only
    yield "target-id-changed", "id", doc.set_attr(t, "ID", tid + "x").text()
    yield "target-id-removed", "id", doc.set_attr(t, "ID", None).text()
    # signature moved to the other level
    if t is not doc.root:
        d2 = doc.remove(sig)
        riss = d2.root.child(SAML, "Issuer")
        if riss is not None and d2.root.child(DS, "Signature") is None:
            yield "sig-moved-to-response", "sig", d2.insert_after(riss, sigb).text()
    else:
        a = [n for n in doc.find(SAML, "Assertion") if n.parent is doc.root and n.child(DS, "Signature") is None]
        if a:
            aiss = a[0].child(SAML, "Issuer")
            d2 = doc.insert_after(aiss, sigb) if aiss is not None else doc.prepend_child(a[0], sigb)
            d2 = d2.remove(d2.root.child(DS, "Signature"))
            yield "sig-moved-to-assertion", "sig", d2.text()


def _first(doc, ns, local, idv):
    for n in doc.find(ns, local):
        if n.attrs.get("ID") == idv:
            return n
    return None


# ------------------------------------------------------------------------- wrapping

def wrapping(text, tns, tlocal, deep=False):
    """XSW family for a signed target (Assertion below the Response, or the root message).
    The attacker's element takes the place the application reads; the genuine element
    (still verifiable) is hidden somewhere xmlsec finds it by ID."""
    doc = Doc(text)
    t = _target(doc, tns, tlocal)
    if t is None:
        return
    tid = t.attrs.get("ID")
    orig = doc.standalone(t)                      # genuine, signed
    orig_nosig = strip_signature(orig)
    sig = t.child(DS, "Signature")
    sigb = doc.outer(sig)
    root_is_target = t is doc.root

    def new_id(idmode):
        # identifiers an imprecise comparison (prefix, regular expression, case folding) would take for the genuine one
        return {"sameid": None, "newid": tid + "e", "dotid": tid.replace("-", ".", 1) if "-" in tid else tid[:1] + "." + tid[2:],
                "lastdot": tid[:-1] + ".", "caseid": tid.swapcase(), "prefixid": tid[:-1],
                # ... or that a normalising layer (strip, whitespace collapse, Unicode folding) would map onto the genuine one
                "trailblank": tid + " ", "leadblank": " " + tid, "trailtab": tid + "\t", "trailnl": tid + "\n", "trailnbsp": tid + "\u00a0",
                "zerowidth": tid[:3] + "\u200b" + tid[3:]}[idmode]

    def evil(idmode, sigmode, hide=b"", slot=None):
        """evil element bytes; hide = bytes to hide inside it at slot"""
        e = evilize(orig, new_id=new_id(idmode), keep_sig=(sigmode == "copysig"))
        if hide:
            e = _hide_in(e, hide, slot)
        return e

    slots_inside = ["Advice", "Object", "SubjectConfirmationData", "AttributeValue", "Extensions", "StatusDetail"]
    combos = []
    for slot in slots_inside:
        for idmode in ("sameid", "newid"):
            for sigmode in ("nosig", "copysig", "movesig"):
                combos.append((slot, idmode, sigmode))
        if slot in ("Advice", "Extensions", "Object"):
            for idmode in ("dotid", "lastdot", "caseid", "prefixid"):
                combos.append((slot, idmode, "movesig"))
        if slot in ("Advice", "Extensions", "StatusDetail"):
            for idmode in ("trailblank", "leadblank", "trailtab", "trailnl", "trailnbsp", "zerowidth"):
                combos.append((slot, idmode, "copysig"))
                if deep:
                    combos.append((slot, idmode, "movesig"))
    for slot, idmode, sigmode in combos:
        is_assertion_slot = slot in ("Advice", "SubjectConfirmationData", "AttributeValue")
        if root_is_target and is_assertion_slot:
            continue
        if not root_is_target and slot in ("Extensions", "StatusDetail"):
            # genuine assertion hidden at response level, evil in its place
            hidden = orig if sigmode != "movesig" else orig_nosig
            e = evil(idmode, "copysig" if sigmode in ("copysig", "movesig") else "nosig")
            d2 = doc.replace(t, e)
            d2 = _hide_at_response_level(d2, hidden, slot)
            if d2 is not None:
                yield "xsw:%s:%s:%s" % (slot, idmode, sigmode), "xsw", d2.text()
            continue
        if slot == "Object" and sigmode == "nosig":
            continue
        hidden = orig if sigmode != "movesig" else orig_nosig
        try:
            e = evil(idmode, "copysig" if sigmode in ("copysig", "movesig") else "nosig", hidden, slot)
        except LookupError:
            continue
        yield "xsw:%s:%s:%s" % (slot, idmode, sigmode), "xsw", doc.replace(t, e).text()

    # forged own Signature (Reference rewritten to the forged ID, worthless value) while the genuine Signature comes EARLIER in document
    # order below the forged element - that is the one the tool picks
    first_slot = "Extensions" if root_is_target else "Advice"
    for idmode in ("newid", "dotid"):
        nid = new_id(idmode)
        forged = re.sub(br'URI="#[^"]*"', b'URI="#' + nid.encode() + b'"', sigb, count=1)
        forged = re.sub(br"(<[^>]*SignatureValue[^>]*>)[^<]*(</)", br"\1AAAA\2", forged)
        base = evilize(orig, new_id=nid, keep_sig=False)
        bd = Doc(base)
        iss = bd.root.child(SAML, "Issuer")
        if iss is None:
            continue
        # (a) the whole genuine signed element inside an early slot, then the forged signature
        if first_slot == "Advice":
            hide_el = el(bd, SAML, "saml", "Advice", orig)
        else:
            hide_el = el(bd, SAMLP, "samlp", "Extensions", orig)
        yield "xsw-forged-own-sig:genuine-in-early-%s:%s" % (first_slot, idmode), "xsw", doc.replace(t, bd.insert_after(iss, hide_el + forged).b).text()
        # (b) the bare genuine Signature inside Issuer, the genuine element (signature stripped) parked later
        d2 = bd.append_child(iss, sigb)
        iss2 = d2.root.child(SAML, "Issuer")
        d2 = d2.insert_after(iss2, forged)
        try:
            parked = _hide_in(d2.b, orig_nosig, first_slot)
        except LookupError:
            continue
        yield "xsw-forged-own-sig:genuine-sig-in-Issuer:%s" % idmode, "xsw", doc.replace(t, parked).text()

    # sibling placements (assertion targets only)
    if not root_is_target:
        for idmode in ("sameid", "newid"):
            for sigmode in ("nosig", "copysig"):
                e = evil(idmode, sigmode)
                yield "xsw:sibling-before:%s:%s" % (idmode, sigmode), "xsw", doc.insert_before(t, e).text()
                yield "xsw:sibling-after:%s:%s" % (idmode, sigmode), "xsw", doc.insert_after(t, e).text()
        # ... plus an EncryptedAssertion at the end of the response (one that opens to a third, forged assertion; one nobody can open): with
        # cipher text in the message the rule "exactly one assertion" is no longer what refuses the unsigned sibling
        try:
            from vlib import fed
            from vlib.xmlkit import encrypt_fragment
            third = evilize(orig, new_id=tid + "y", keep_sig=False)
            ed = encrypt_fragment(third, fed.key(2)[1])
            ed = ed.decode("utf-8") if isinstance(ed, bytes) else ed
            m_ = re.search(r"<(\w+:)?CipherValue>([^<]{40,})</", ed)
            junk = ed.replace(m_.group(2), m_.group(2)[:10] + "AAAABBBBCCCCDDDD" + m_.group(2)[26:], 1) if m_ else ed
            for ename, edata in (("opens", ed), ("junk", junk)):
                enc_el = '<saml:EncryptedAssertion xmlns:saml="%s">%s</saml:EncryptedAssertion>' % (SAML, edata)
                for where in ("after", "before"):
                    e = evil("newid", "nosig")
                    d2 = doc.insert_before(t, e) if where == "before" else doc.insert_after(t, e)
                    last = [c for c in d2.root.children if c.tag == (SAML, "Assertion")][-1]
                    yield "xsw:sibling-%s:newid:nosig+encrypted-assertion-%s" % (where, ename), "xsw", d2.insert_after(last, enc_el).text()
        except ImportError:
            pass
        # genuine kept where it is, evil hidden first in document order inside Extensions (dup ID, evil first)
        e = evil("sameid", "copysig")
        d2 = _hide_at_response_level(doc, e, "Extensions")
        if d2 is not None:
            yield "dup-id:evil-first-in-extensions", "id", d2.text()
        # duplicate ID on an element of another name
        iss = doc.root.child(SAML, "Issuer")
        if iss is not None:
            yield "dup-id:on-response-issuer", "id", doc.set_attr(iss, "ID", tid).text()
    else:
        # evil root wrapping the genuine root
        for slot in ("Extensions", "StatusDetail", "Object"):
            for idmode in ("sameid", "newid"):
                for sigmode in ("nosig", "copysig"):
                    if slot == "Object" and sigmode == "nosig":
                        continue
                    try:
                        e = evil(idmode, sigmode, orig, slot)
                    except LookupError:
                        continue
                    yield "xsw-root:%s:%s:%s" % (slot, idmode, sigmode), "xsw", e.decode("utf-8")
        # the genuine root keeps its place but its assertion is swapped while a copy of the whole
        # genuine message hides in Extensions with the same ID
        d2 = _hide_at_response_level(doc, evilize(orig, keep_sig=True), "Extensions")
        if d2 is not None:
            yield "dup-id:evil-copy-in-extensions", "id", d2.text()


def _hide_in(elem_bytes, hide, slot):
    """place `hide` inside the serialised element elem_bytes at the named slot"""
    d = Doc(elem_bytes)
    r = d.root
    if slot == "Advice":
        adv = el(d, SAML, "saml", "Advice", hide)
        after = r.child(SAML, "Conditions") or r.child(SAML, "Subject") or r.child(DS, "Signature") or r.child(SAML, "Issuer")
        if after is None:
            raise LookupError(slot)
        return d.insert_after(after, adv).b
    if slot == "Object":
        s = r.child(DS, "Signature")
        if s is None:
            raise LookupError(slot)
        return d.append_child(s, el(d, DS, "ds", "Object", hide)).b
    if slot == "SubjectConfirmationData":
        n = r.find(SAML, "SubjectConfirmationData")
        if not n:
            raise LookupError(slot)
        return d.append_child(n[0], hide).b
    if slot == "AttributeValue":
        n = r.find(SAML, "AttributeValue")
        if not n:
            raise LookupError(slot)
        return d.append_child(n[-1], hide).b
    if slot in ("Extensions", "StatusDetail"):
        d2 = _hide_at_response_level(d, hide, slot)
        if d2 is None:
            raise LookupError(slot)
        return d2.b
    raise LookupError(slot)


def _hide_at_response_level(doc, hide, slot):
    r = doc.root
    if slot == "Extensions":
        ext = el(doc, SAMLP, "samlp", "Extensions", hide)
        after = r.child(DS, "Signature") or r.child(SAML, "Issuer")
        if after is None:
            return doc.prepend_child(r, ext)
        return doc.insert_after(after, ext)
    if slot == "StatusDetail":
        st = r.child(SAMLP, "Status")
        if st is None:
            return None
        return doc.append_child(st, el(doc, SAMLP, "samlp", "StatusDetail", hide))
    return None


def attacker_resigned(text, tns, tlocal):
    """The signed target edited and signed afresh by somebody who has no key of the issuer: with his own key and his key material in KeyInfo
    (RSAKeyValue, his certificate, nothing), and with hostile Algorithm identifiers whose text the verification tool echoes in its diagnostics."""
    from vlib import fed
    from vlib.xmlkit import sign_element
    doc = Doc(text)
    t = _target(doc, tns, tlocal)
    if t is None:
        return
    tid = t.attrs.get("ID")
    sig = t.child(DS, "Signature")
    m = re.search(br'SignatureMethod[^>]*Algorithm="[^"]*#([a-z0-9-]+)"', doc.outer(sig))
    alg = m.group(1).decode() if m else "rsa-sha256"
    d2 = doc.remove(sig)
    t2 = _first(d2, tns, tlocal, tid)
    leaf = [n for n in t2.iter() if not n.children and d2.inner(n).strip() and n.local in ("AttributeValue", "NameID", "Audience", "NewID", "SessionIndex")]
    edited = d2.set_text(leaf[0], "attacker-" + d2.inner(leaf[0]).decode()).text() if leaf else d2.set_attr(t2, "Consent", "urn:attacker").text()
    akey = fed.key(9)[0]
    from vlib.xmlkit import SIG_ALGS
    if alg not in SIG_ALGS:
        alg = "rsa-sha256"
    for how, kb in (("keyvalue", "KEYVALUE"), ("own-certificate", fed.cert_body(9)), ("no-keyinfo", None)):
        yield "resigned-by-outsider:%s" % how, "sig", sign_element(edited, tns, tlocal, tid, akey, alg, kb)
    # ... and under a name the receiver holds no key for at all (there is nothing to verify the signature with)
    de = Doc(edited)
    te = _first(de, tns, tlocal, tid)
    iss = te.child(SAML, "Issuer") if te is not None else None
    if iss is not None:
        renamed = de.set_text(iss, "https://elsewhere.example.net/idp").text()
        for how, kb in (("own-certificate", fed.cert_body(9)), ("keyvalue", "KEYVALUE")):
            yield "resigned-by-outsider:unknown-issuer:%s" % how, "sig", sign_element(renamed, tns, tlocal, tid, akey, alg, kb)
    # diagnostics injection: the genuine signature stays, content is edited (so verification fails), and an algorithm identifier carries
    # line breaks around the word OK - whatever the tool prints about it, that is not a report of success
    d3 = Doc(text)
    t3 = _target(d3, tns, tlocal)
    leaf3 = [n for n in t3.iter() if not n.children and d3.inner(n).strip() and n.local in ("AttributeValue", "NameID", "Audience", "NewID", "SessionIndex")]
    base = d3.set_text(leaf3[0], "attacker-" + d3.inner(leaf3[0]).decode()) if leaf3 else d3.set_attr(t3, "Consent", "urn:attacker")
    for where in ("Transform", "SignatureMethod", "DigestMethod", "CanonicalizationMethod"):
        for sep, sname in (("&#10;", "lf"), ("&#13;&#10;", "crlf"), ("&#x2028;", "ls")):
            b = Doc(base.b)
            s3 = _target(b, tns, tlocal).child(DS, "Signature")
            n = s3.find(DS, where)
            if not n:
                continue
            raw = b.b[:n[0].start] + re.sub(br'Algorithm="[^"]*"', ('Algorithm="urn:x%sOK%sy"' % (sep, sep)).encode(), b.b[n[0].start:n[0].stag_end], 1) + b.b[n[0].stag_end:]
            yield "diagnostics-injection:%s:%s" % (where, sname), "sig", raw.decode("utf-8")


def doctype_games(text, tns, tlocal):
    """A document type declaration in front of the untouched signed message: attribute defaults (<!ATTLIST>) that a DTD-aware parser adds
    to signed elements although no signature covers them; the message itself stays byte-identical."""
    doc = Doc(text)
    t = _target(doc, tns, tlocal)
    if t is None:
        return
    body = text[text.index("?>") + 2:] if text.startswith("<?xml") else text
    root_q = doc.qname(doc.root)
    wanted = [("NameID", "SPProvidedID", "attacker-provided-id"), ("NameID", "NameQualifier", "https://attacker.example.net/idp"),
              ("AuthnStatement", "SessionNotOnOrAfter", "2099-01-01T00:00:00Z"), ("AuthnStatement", "SessionIndex", "attacker-session"),
              ("SubjectConfirmationData", "Address", "203.0.113.66"), ("Conditions", "NotBefore", "2001-01-01T00:00:00Z"),
              ("Attribute", "FriendlyName", "attackerFriendlyName"), ("Assertion", "verifDefaulted", "x")]
    decls = []
    for local, attr, val in wanted:
        nodes = doc.find(SAML, local)
        if not nodes or attr in nodes[0].attrs:
            continue
        q = doc.qname(nodes[0])
        one = '<!ATTLIST %s %s CDATA "%s">' % (q, attr, val)
        decls.append(one)
        yield "doctype-attlist-default:%s/%s" % (local, attr), "sig", "<!DOCTYPE %s [%s]>%s" % (root_q, one, body)
    if decls:
        yield "doctype-attlist-default:all", "sig", "<!DOCTYPE %s [%s]>%s" % (root_q, "".join(decls), body)


def mutants(text, tns, tlocal, families=("edit", "comment", "sig", "ref", "id", "xsw")):
    seen = set()
    for gen in (edits, signature_games, attacker_resigned, doctype_games, wrapping):
        try:
            for name, fam, m in gen(text, tns, tlocal):
                if fam in families and name not in seen and m != text:
                    seen.add(name)
                    yield name, fam, m
        except Exception as exc:  # a mutator that cannot apply is skipped, visibly
            yield "MUTATOR-ERROR:%s:%s" % (gen.__name__, type(exc).__name__), "error", None
