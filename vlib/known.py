"""known_findings.json: genuine defects recorded rather than repaired, keyed by mechanism.

Entries: {property, key, status: "known"|"fixed", what, commit?}.  Only status "known"
suppresses a VIOLATION (it becomes a KNOWN-FINDING line); "fixed" entries suppress
nothing.  The file is never written at run time.
"""
import json
import os

from . import env


def load():
    path = os.path.join(env.VERIF, "known_findings.json")
    try:
        with open(path) as f:
            return json.load(f).get("findings", [])
    except (OSError, ValueError):
        return []


def is_known(findings, prop, key):
    for ent in findings:
        if ent.get("property") == prop and ent.get("key") == key and ent.get("status") == "known":
            return ent
    return None
