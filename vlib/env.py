"""Process environment for every check and worker.

Importing this module
  * puts <repo>/src first on sys.path so that the *current working tree* of the
    repository is what runs (VERIF_REPO overrides /repo for self-tests),
  * appends /verif/.deps (icontract, jsonschema installed by setup.sh),
  * silences pysaml2's logging and the py3.12 SyntaxWarnings of the pinned tree,
  * moves the process into a private scratch directory outside /repo and /verif
    (pysaml2 writes shelve/key files relative to cwd) which is removed at exit.
"""
import atexit
import logging
import os
import shutil
import sys
import tempfile
import warnings

VERIF = os.path.dirname(os.path.dirname(os.path.abspath(__file__)))
REPO = os.environ.get("VERIF_REPO", "/repo")
SRC = os.path.join(REPO, "src")
GUARD = "PYSAML2_TOPHAT_VERIF"

os.environ.setdefault("PYTHONDONTWRITEBYTECODE", "1")
sys.dont_write_bytecode = True
os.environ[GUARD] = "1"

if SRC in sys.path:
    sys.path.remove(SRC)
sys.path.insert(0, SRC)
_deps = os.path.join(VERIF, ".deps")
if _deps not in sys.path:
    sys.path.append(_deps)
if VERIF not in sys.path:
    sys.path.insert(1, VERIF)

warnings.filterwarnings("ignore")
logging.disable(logging.CRITICAL)

XMLSEC = os.environ.get("VERIF_XMLSEC", os.path.join(VERIF, ".build", "bin", "xmlsec1"))
XMLSEC_ASAN = os.path.join(VERIF, ".build", "bin", "xmlsec1-asan")
KEYS = os.path.join(VERIF, "fixtures", "keys")

_scratch = None


def scratch():
    """Private scratch directory (created on first use, cwd is moved there)."""
    global _scratch
    if _scratch is None:
        base = os.environ.get("VERIF_TMP") or tempfile.gettempdir()
        _scratch = tempfile.mkdtemp(prefix="pysaml2-verif-", dir=base)
        os.chdir(_scratch)
        atexit.register(shutil.rmtree, _scratch, True)
    return _scratch


def seed():
    try:
        return int(os.environ.get("VERIF_SEED", "0"))
    except ValueError:
        return 0


def assert_repo_is_source():
    """The imported package must come from <repo>/src - otherwise nothing we observe
    is about the working tree."""
    import saml2_tophat
    here = os.path.realpath(os.path.dirname(saml2_tophat.__file__))
    want = os.path.realpath(os.path.join(SRC, "saml2_tophat"))
    if here != want:
        raise RuntimeError("saml2_tophat imported from %s, expected %s" % (here, want))
