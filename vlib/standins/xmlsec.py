"""Stand-in for the `xmlsec` module of pyXMLSecurity, which CryptoBackendXMLSecurity imports (crypto_backend = "XMLSecurity").

pyXMLSecurity is not installed in this sandbox (and cannot be fetched).  The stand-in keeps the contract that backend relies on -
`parse_xml(text)`, `verify(xml, keyspec)` returning True / False or raising XMLSigException - and does the cryptography through
the same driver as everything else in /verif.  `verify` has no node argument (the real module has none either): it returns True only if
EVERY ds:Signature in the document verifies, as an enveloped signature of its parent element, under the given certificate.  That is the
strictest reading, so a check using it can only be wrong in the library's favour.

It is put on sys.path by the checks that build an entity with that backend, never globally.
"""
from vlib import xmlkit as xk


class XMLSigException(Exception):
    pass


def parse_xml(text):
    if isinstance(text, bytes):
        text = text.decode("utf-8")
    try:
        xk.Doc(text)
    except Exception as exc:
        raise XMLSigException("not parsable: %r" % (exc,))
    return text


def verify(xml, keyspec):
    d = xk.Doc(xml)
    sigs = [n for n in d.root.iter() if n.tag == (xk.DS, "Signature")]
    if not sigs:
        raise XMLSigException("no signature")
    for s in sigs:
        p = s.parent
        if p is None or "ID" not in p.attrs:
            return False
        if not xk.verify(xml, p.ns, p.local, p.attrs["ID"], keyspec):
            return False
    return True
