"""pytest plugin (-p vlib.suite_plugin): the repository's own test suite as a workload for the C11 parser-construction monitor.
Loaded before any test module (hence before saml2_tophat / defusedxml); at the end of the session writes a summary of every XML parser
built with a saml2_tophat frame on the stack to $VERIF_SUITE_OUT."""
import collections
import json
import os

from vlib import parsermon

parsermon.install()
parsermon.state["recording"] = True


def pytest_sessionfinish(session, exitstatus):
    summary = collections.Counter()
    for e in parsermon.events:
        if e.get("site"):
            summary[(e["site"], bool(e["defused"]), e["api"])] += 1
    out = os.environ.get("VERIF_SUITE_OUT")
    if out:
        with open(out, "w") as f:
            json.dump({"constructions": [{"site": k[0], "defused": k[1], "api": k[2], "count": v} for k, v in sorted(summary.items())],
                       "total_events": len(parsermon.events), "exitstatus": int(exitstatus),
                       "tests_collected": getattr(session, "testscollected", None)}, f)
