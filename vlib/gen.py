"""Generators shared by the checks (all driven by an explicit random.Random)."""
import random
import string

# local attribute names that the saml_uri attribute map carries in both directions
ATTRS = ["givenName", "sn", "mail", "displayName", "cn", "eduPersonAffiliation", "eduPersonEntitlement",
         "eduPersonPrincipalName", "uid", "title", "o", "ou", "telephoneNumber", "eduPersonNickname",
         "employeeNumber", "initials", "l", "street", "postalCode", "preferredLanguage"]

SPECIALS = ["<", ">", "&", '"', "'", "]]>", "<!--", "-->", "<?x?>", "&amp;", "&#x41;", "</ns1:AttributeValue>",
            "<ns1:Attribute Name=\"x\"/>", "%", "+", "=", ";", "\\"]
UNICODE = ["Müller", "Ærø", "日本語", "Ελληνικά", "кириллица", "عربى", "😀", " ", "é", " "]


def word(rng, lo=1, hi=10):
    return "".join(rng.choice(string.ascii_letters + string.digits) for _ in range(rng.randint(lo, hi)))


def value(rng, hostile=True):
    kind = rng.randrange(8) if hostile else 0
    if kind <= 1:
        return word(rng, 1, 14)
    if kind == 2:
        return word(rng, 1, 5) + rng.choice(SPECIALS) + word(rng, 0, 5)
    if kind == 3:
        return rng.choice(UNICODE) + word(rng, 0, 4)
    if kind == 4:
        return word(rng, 1, 4) + " " + word(rng, 1, 4) + "\t" + word(rng, 1, 3)
    if kind == 5:
        return "".join(rng.choice(SPECIALS + UNICODE + [word(rng)]) for _ in range(rng.randint(2, 6)))
    if kind == 6:
        return word(rng, 40, 300)
    return word(rng, 1, 6) + "@" + word(rng, 2, 8) + ".example.org"


def identity(rng, hostile=True, names=None, lo=1, hi=5):
    """dict local-name -> list of non-empty values without leading/trailing whitespace."""
    names = names or ATTRS
    out = {}
    for n in rng.sample(names, rng.randint(lo, min(hi, len(names)))):
        vals = []
        for _ in range(rng.choice([1, 1, 1, 2, 3])):
            v = value(rng, hostile).strip()
            if v and v not in vals:
                vals.append(v)
        if vals:
            out[n] = vals
    if not out:
        out["uid"] = [word(rng, 3, 8)]
    return out


def expected_ava(ident):
    return {k: sorted(str(x) for x in v) for k, v in ident.items()}
