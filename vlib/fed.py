"""Federation builder: real Saml2Client / Server objects from plain configuration
dictionaries, each with committed fixture keys, metadata produced by pysaml2's own
metadata.entity_descriptor and exchanged as inline metadata."""
import base64
import copy
import json
import os

from . import env

from saml2_tophat import BINDING_HTTP_POST, BINDING_HTTP_REDIRECT, BINDING_SOAP  # noqa: E402
from saml2_tophat.config import SPConfig, IdPConfig, Config  # noqa: E402
from saml2_tophat.metadata import entity_descriptor  # noqa: E402
from saml2_tophat.client import Saml2Client  # noqa: E402
from saml2_tophat.server import Server  # noqa: E402
from saml2_tophat.saml import NAMEID_FORMAT_PERSISTENT, NAMEID_FORMAT_TRANSIENT, NAME_FORMAT_URI  # noqa: E402
from saml2_tophat.authn_context import INTERNETPROTOCOLPASSWORD  # noqa: E402

SP_EID = "https://sp.example.org/md"
SP2_EID = "https://sp2.example.org/md"
IDP_EID = "https://idp.example.org/md"
IDP2_EID = "https://idp2.example.org/md"
ACS_POST = "https://sp.example.org/acs/post"
ACS_REDIRECT = "https://sp.example.org/acs/redirect"
SLO_SP = "https://sp.example.org/slo"
SSO_REDIRECT = "https://idp.example.org/sso/redirect"
SSO_POST = "https://idp.example.org/sso/post"
SLO_IDP = "https://idp.example.org/slo"

AUTHN = {"class_ref": INTERNETPROTOCOLPASSWORD, "authn_auth": "https://idp.example.org/authn"}


def key(i):
    return (os.path.join(env.KEYS, "k%02d.key" % i), os.path.join(env.KEYS, "k%02d.crt" % i))


def cert_body(i):
    with open(key(i)[1]) as f:
        return "".join(l.strip() for l in f if not l.startswith("-----"))


def sp_conf(eid=SP_EID, key_i=1, enc_keys=(2,), xmlsec=None, endpoints=None, top=None, **sp_extra):
    k, c = key(key_i)
    sp = {"endpoints": endpoints or {
        "assertion_consumer_service": [(ACS_POST, BINDING_HTTP_POST), (ACS_REDIRECT, BINDING_HTTP_REDIRECT)],
        "single_logout_service": [(SLO_SP, BINDING_HTTP_REDIRECT), (SLO_SP + "/post", BINDING_HTTP_POST),
                                  (SLO_SP + "/soap", BINDING_SOAP)]},
        "idp": [IDP_EID]}
    sp.update(sp_extra)
    cnf = {"entityid": eid, "service": {"sp": sp}, "key_file": k, "cert_file": c,
           "xmlsec_binary": xmlsec or env.XMLSEC, "metadata": {"inline": []}}
    if enc_keys:
        cnf["encryption_keypairs"] = [{"key_file": key(i)[0], "cert_file": key(i)[1]} for i in enc_keys]
    cnf.update(top or {})
    return cnf


DEFAULT_POLICY = {"default": {"lifetime": {"minutes": 15}, "attribute_restrictions": None,
                              "name_form": NAME_FORMAT_URI, "nameid_format": NAMEID_FORMAT_PERSISTENT}}


def idp_conf(eid=IDP_EID, key_i=0, xmlsec=None, endpoints=None, policy=None, top=None, **idp_extra):
    k, c = key(key_i)
    idp = {"endpoints": endpoints or {
        "single_sign_on_service": [(SSO_REDIRECT, BINDING_HTTP_REDIRECT), (SSO_POST, BINDING_HTTP_POST)],
        "single_logout_service": [(SLO_IDP, BINDING_HTTP_REDIRECT), (SLO_IDP + "/post", BINDING_HTTP_POST),
                                  (SLO_IDP + "/soap", BINDING_SOAP)]},
        "policy": copy.deepcopy(policy or DEFAULT_POLICY)}
    idp.update(idp_extra)
    cnf = {"entityid": eid, "service": {"idp": idp}, "key_file": k, "cert_file": c,
           "xmlsec_binary": xmlsec or env.XMLSEC, "metadata": {"inline": []}}
    cnf.update(top or {})
    return cnf


def _cls(cnf):
    svc = cnf.get("service", {})
    if "sp" in svc:
        return SPConfig
    if "idp" in svc or "aa" in svc:
        return IdPConfig
    return Config


def metadata_of(cnf):
    c = _cls(cnf)().load(copy.deepcopy(cnf), metadata_construction=True)
    return entity_descriptor(c).to_string().decode("utf-8")


def make_sp(cnf, metadatas, config_class=None):
    """config_class: SPConfig (default), Config or IdPConfig - Saml2Client documents 'a Config instance'"""
    cnf = copy.deepcopy(cnf)
    cnf["metadata"] = {"inline": list(metadatas)}
    return Saml2Client(config=(config_class or SPConfig)().load(cnf))


def make_idp(cnf, metadatas):
    cnf = copy.deepcopy(cnf)
    cnf["metadata"] = {"inline": list(metadatas)}
    return Server(config=IdPConfig().load(cnf))


def pair(sp_cnf=None, idp_cnf=None):
    sp_cnf = sp_cnf or sp_conf()
    idp_cnf = idp_cnf or idp_conf()
    spmd, idpmd = metadata_of(sp_cnf), metadata_of(idp_cnf)
    return make_sp(sp_cnf, [idpmd]), make_idp(idp_cnf, [spmd])


class Cache(object):
    """Per-worker cache of built entities keyed by a JSON description."""

    def __init__(self):
        self.d = {}

    def get(self, kind, desc, builder):
        k = kind + ":" + json.dumps(desc, sort_keys=True, default=str)
        if k not in self.d:
            self.d[k] = builder()
        return self.d[k]


def b64(xml):
    if isinstance(xml, str):
        xml = xml.encode("utf-8")
    return base64.b64encode(xml).decode("ascii")


def issue(idp, identity, in_response_to="id-req-1", destination=ACS_POST, sp_eid=SP_EID, userid="user-1",
          authn=None, **kw):
    """IdP builds an authn response; returns the XML text."""
    resp = idp.create_authn_response(identity, in_response_to, destination, sp_eid, userid=userid,
                                     authn=authn or AUTHN, **kw)
    return "%s" % resp


def deliver(sp, xml, outstanding=None, binding=BINDING_HTTP_POST, **kw):
    """Returns (accepted_response_or_None, exception_or_None)."""
    try:
        if binding == BINDING_SOAP:
            body = xml[xml.index("?>") + 2:] if xml.startswith("<?xml") else xml
            wire = '<ns0:Envelope xmlns:ns0="http://schemas.xmlsoap.org/soap/envelope/"><ns0:Body>%s</ns0:Body></ns0:Envelope>' % body
        elif binding == BINDING_HTTP_REDIRECT:
            import base64 as _b64
            import zlib as _zlib
            wire = _b64.b64encode(_zlib.compress(xml.encode("utf-8"))[2:-4]).decode("ascii")
        else:
            wire = b64(xml)
        r = sp.parse_authn_request_response(wire, binding, outstanding, **kw)
        return r, None
    except Exception as exc:  # the class is the observation
        return None, exc


def identity_of(resp):
    """What the application would read from an accepted response."""
    if resp is None:
        return None
    out = {}
    try:
        out["ava"] = {k: sorted(map(str, v)) if isinstance(v, (list, tuple)) else [str(v)]
                      for k, v in (resp.ava or {}).items()}
    except Exception as exc:
        out["ava"] = "ERR %r" % exc
    nid = getattr(resp, "name_id", None)
    out["name_id"] = None if nid is None else {
        "text": nid.text, "format": nid.format, "sp_name_qualifier": nid.sp_name_qualifier,
        "name_qualifier": nid.name_qualifier, "sp_provided_id": nid.sp_provided_id}
    try:
        out["issuer"] = resp.issuer()
    except Exception as exc:
        out["issuer"] = "ERR %r" % exc
    a = getattr(resp, "assertion", None)
    if a is not None:
        out["assertion_id"] = a.id
        out["assertion_issuer"] = a.issuer.text if a.issuer is not None else None
        c = a.conditions
        if c is not None:
            out["conditions"] = {"nb": c.not_before, "nooa": c.not_on_or_after,
                                 "aud": [[x.text for x in ar.audience] for ar in (c.audience_restriction or [])]}
    try:
        si = resp.session_info()
        out["session"] = {k: si.get(k) for k in ("not_on_or_after", "came_from", "issuer", "session_index")}
        out["authn_info"] = [list(map(str, x[:2])) for x in si.get("authn_info", [])]
    except Exception as exc:
        out["session"] = "ERR %s" % type(exc).__name__
    out["in_response_to"] = getattr(resp, "in_response_to", None)
    return out
