"""Operating-system level observation of file access that does not end at this interpreter: inotify watches (ctypes, no dependency) on
canary files report an open or a read by ANY process - the external signature / encryption tool included, which audit hooks cannot see."""
import ctypes
import os
import struct

IN_ACCESS, IN_OPEN, IN_NONBLOCK = 0x1, 0x20, 0o4000


class Watch(object):
    """with Watch([path, ...]) as w: ...; w.events() -> [(path, 'open'|'read'), ...] seen since the last call"""

    def __init__(self, paths):
        self.paths = list(paths)
        self.fd = -1
        self.wd = {}
        self.available = False

    def __enter__(self):
        try:
            libc = ctypes.CDLL(None, use_errno=True)       # (find_library would run ldconfig / a compiler)
            self.fd = libc.inotify_init1(IN_NONBLOCK)
            if self.fd < 0:
                return self
            for p in self.paths:
                wd = libc.inotify_add_watch(self.fd, os.fsencode(p), IN_OPEN | IN_ACCESS)
                if wd >= 0:
                    self.wd[wd] = p
            self.available = len(self.wd) == len(self.paths)
        except (OSError, AttributeError):
            self.available = False
        return self

    def events(self):
        out = []
        if self.fd < 0:
            return out
        while True:
            try:
                buf = os.read(self.fd, 65536)
            except (BlockingIOError, OSError):
                break
            if not buf:
                break
            i = 0
            while i + 16 <= len(buf):
                wd, mask, _cookie, ln = struct.unpack_from("iIII", buf, i)
                i += 16 + ln
                if wd in self.wd:
                    if mask & IN_OPEN:
                        out.append((self.wd[wd], "open"))
                    if mask & IN_ACCESS:
                        out.append((self.wd[wd], "read"))
        return out

    def __exit__(self, *a):
        if self.fd >= 0:
            try:
                os.close(self.fd)
            except OSError:
                pass
            self.fd = -1
        return False
