"""Prefix-preserving XML editing on the original bytes (signed content must not be
re-serialised), plus an attacker/IdP toolkit that signs and encrypts through the driver
directly - independent of pysaml2's own signing and encryption code.

Node offsets come from expat; every edit returns new text, re-parse after each edit.
"""
import os
import re
import subprocess
import tempfile
import xml.parsers.expat as expat

from . import env

DS = "http://www.w3.org/2000/09/xmldsig#"
SAML = "urn:oasis:names:tc:SAML:2.0:assertion"
SAMLP = "urn:oasis:names:tc:SAML:2.0:protocol"
XENC = "http://www.w3.org/2001/04/xmlenc#"
XSI = "http://www.w3.org/2001/XMLSchema-instance"
XS = "http://www.w3.org/2001/XMLSchema"

SIG_ALGS = {
    "rsa-sha1": ("http://www.w3.org/2000/09/xmldsig#rsa-sha1", "http://www.w3.org/2000/09/xmldsig#sha1"),
    "rsa-sha224": ("http://www.w3.org/2001/04/xmldsig-more#rsa-sha224", "http://www.w3.org/2001/04/xmldsig-more#sha224"),
    "rsa-sha256": ("http://www.w3.org/2001/04/xmldsig-more#rsa-sha256", "http://www.w3.org/2001/04/xmlenc#sha256"),
    "rsa-sha384": ("http://www.w3.org/2001/04/xmldsig-more#rsa-sha384", "http://www.w3.org/2001/04/xmldsig-more#sha384"),
    "rsa-sha512": ("http://www.w3.org/2001/04/xmldsig-more#rsa-sha512", "http://www.w3.org/2001/04/xmlenc#sha512"),
}


class Node(object):
    __slots__ = ("ns", "local", "attrs", "start", "stag_end", "etag_start", "end", "children", "parent", "depth")

    def __init__(self, ns, local, attrs, start, parent, depth):
        self.ns, self.local, self.attrs, self.start = ns, local, attrs, start
        self.parent, self.depth = parent, depth
        self.children = []
        self.stag_end = self.etag_start = self.end = None

    @property
    def tag(self):
        return (self.ns, self.local)

    def iter(self):
        yield self
        for c in self.children:
            for x in c.iter():
                yield x

    def find(self, ns, local):
        return [n for n in self.iter() if n.ns == ns and n.local == local]

    def child(self, ns, local):
        for c in self.children:
            if c.ns == ns and c.local == local:
                return c
        return None

    def path(self):
        parts = []
        n = self
        while n is not None:
            parts.append(n.local)
            n = n.parent
        return "/".join(reversed(parts))


class Doc(object):
    def __init__(self, text):
        if isinstance(text, str):
            text = text.encode("utf-8")
        self.b = text
        self.root = None
        self._parse()

    def _parse(self):
        p = expat.ParserCreate(namespace_separator=" ")
        p.ordered_attributes = False
        stack = []
        b = self.b

        def start(name, attrs):
            ns, _, local = name.rpartition(" ")
            idx = p.CurrentByteIndex
            node = Node(ns, local, dict(attrs), idx, stack[-1] if stack else None, len(stack))
            # end of the start tag: first '>' outside quotes
            i, q = idx, None
            while True:
                c = b[i:i + 1]
                if q:
                    if c == q:
                        q = None
                elif c in (b'"', b"'"):
                    q = c
                elif c == b">":
                    break
                i += 1
            node.stag_end = i + 1
            if stack:
                stack[-1].children.append(node)
            else:
                self.root = node
            stack.append(node)

        def end(name):
            node = stack.pop()
            idx = p.CurrentByteIndex
            if b[node.stag_end - 2:node.stag_end] == b"/>":     # <a/>: expat reports the position after the tag
                node.etag_start = node.stag_end
                node.end = node.stag_end
            elif b[idx:idx + 2] == b"</":
                node.etag_start = idx
                node.end = b.index(b">", idx) + 1
            else:  # <a/>
                node.etag_start = node.stag_end
                node.end = node.stag_end
        p.StartElementHandler = start
        p.EndElementHandler = end
        p.Parse(b, True)

    # ------------------------------------------------------------ queries
    def find(self, ns, local):
        return self.root.find(ns, local)

    def outer(self, n):
        return self.b[n.start:n.end]

    def inner(self, n):
        return self.b[n.stag_end:n.etag_start]

    def text(self):
        return self.b.decode("utf-8")

    def qname(self, n):
        m = re.match(br"<([^\s/>]+)", self.b[n.start:n.stag_end])
        return m.group(1).decode()

    def prefix(self, n):
        q = self.qname(n)
        return q.split(":")[0] if ":" in q else ""

    def nsdecls_in_scope(self, n):
        """xmlns declarations (as text ' xmlns:p="u"') visible at n, innermost wins."""
        decls = {}
        chain = []
        x = n
        while x is not None:
            chain.append(x)
            x = x.parent
        for x in reversed(chain):
            for m in re.finditer(br'\sxmlns(?::([\w.-]+))?\s*=\s*("[^"]*"|\'[^\']*\')', self.b[x.start:x.stag_end]):
                decls[(m.group(1) or b"").decode()] = m.group(2)[1:-1].decode()
        return decls

    def standalone(self, n):
        """Serialisation of n that carries every namespace declaration in scope."""
        decls = self.nsdecls_in_scope(n)
        own = self.b[n.start:n.stag_end]
        add = b""
        for pfx, uri in sorted(decls.items()):
            attr = ("xmlns:%s" % pfx if pfx else "xmlns").encode()
            if re.search(br"\s" + re.escape(attr) + br"\s*=", own):
                continue
            add += b" " + attr + b'="' + uri.encode() + b'"'
        m = re.match(br"<[^\s/>]+", own)
        return own[:m.end()] + add + own[m.end():] + self.b[n.stag_end:n.end]

    # -------------------------------------------------------------- edits
    def _splice(self, a, z, new):
        if isinstance(new, str):
            new = new.encode("utf-8")
        return Doc(self.b[:a] + new + self.b[z:])

    def replace(self, n, new):
        return self._splice(n.start, n.end, new)

    def remove(self, n):
        return self._splice(n.start, n.end, b"")

    def insert_before(self, n, new):
        return self._splice(n.start, n.start, new)

    def insert_after(self, n, new):
        return self._splice(n.end, n.end, new)

    def prepend_child(self, n, new):
        n = self._open(n)
        return n[0]._splice(n[1].stag_end, n[1].stag_end, new)

    def append_child(self, n, new):
        d, n = self._open(n)
        return d._splice(n.etag_start, n.etag_start, new)

    def _open(self, n):
        """make sure n has separate start and end tags; returns (doc, node)"""
        if n.etag_start != n.stag_end or self.b[n.stag_end - 2:n.stag_end] != b"/>":
            return self, n
        q = self.qname(n).encode()
        d = self._splice(n.stag_end - 2, n.stag_end, b"></" + q + b">")
        return d, d.node_at(n.start)

    def node_at(self, start):
        for x in self.root.iter():
            if x.start == start:
                return x
        raise KeyError(start)

    def set_text(self, n, new):
        d, n = self._open(n)
        return d._splice(n.stag_end, n.etag_start, escape(new))

    def set_attr(self, n, name, value):
        """name is the literal attribute name as written (e.g. 'ID'); value None removes."""
        stag = self.b[n.start:n.stag_end]
        pat = re.compile(br"\s" + re.escape(name.encode()) + br'\s*=\s*("[^"]*"|\'[^\']*\')')
        m = pat.search(stag)
        new_attr = b"" if value is None else b" " + name.encode() + b'="' + escape(value, True).encode() + b'"'
        if m:
            stag2 = stag[:m.start()] + new_attr + stag[m.end():]
        else:
            close = len(stag) - (2 if stag.endswith(b"/>") else 1)
            stag2 = stag[:close] + new_attr + stag[close:]
        return self._splice(n.start, n.stag_end, stag2)


def escape(s, attr=False):
    s = s.replace("&", "&amp;").replace("<", "&lt;").replace(">", "&gt;")
    if attr:
        s = s.replace('"', "&quot;").replace("\n", "&#10;").replace("\t", "&#9;")
    return s


# ---------------------------------------------------------------------------
# driver-backed signing / encryption, independent of pysaml2
# ---------------------------------------------------------------------------

def _run(args, inp, extra_files=()):
    d = tempfile.mkdtemp(prefix="xk-", dir=env.scratch())
    try:
        fin = os.path.join(d, "in.xml")
        fout = os.path.join(d, "out.xml")
        with open(fin, "wb") as f:
            f.write(inp if isinstance(inp, bytes) else inp.encode("utf-8"))
        paths = []
        for i, content in enumerate(extra_files):
            p = os.path.join(d, "x%d.xml" % i)
            with open(p, "wb") as f:
                f.write(content if isinstance(content, bytes) else content.encode("utf-8"))
            paths.append(p)
        argv = [env.XMLSEC] + [a.format(*paths) if isinstance(a, str) else a for a in args] + ["--output", fout, fin]
        e = dict(os.environ)
        e.pop("VERIF_FAULT", None)
        e["VERIF_CASE"] = "harness:" + e.get("VERIF_CASE", "")
        p = subprocess.run(argv, stdout=subprocess.PIPE, stderr=subprocess.PIPE, env=e, timeout=60)
        out = b""
        if os.path.exists(fout):
            with open(fout, "rb") as f:
                out = f.read()
        return p.returncode, p.stderr.decode("utf-8", "replace"), out
    finally:
        import shutil
        shutil.rmtree(d, ignore_errors=True)


def signature_template(ref_id, alg="rsa-sha1", cert_body=None, sig_id=None, prefix="ds", ref_uri=None):
    sm, dm = SIG_ALGS[alg]
    ki = ""
    if cert_body == "KEYVALUE":
        # an empty KeyValue is filled by the signing tool with the public key of the signing key (RSAKeyValue)
        ki = "<{p}:KeyInfo><{p}:KeyValue/></{p}:KeyInfo>".format(p=prefix)
    elif cert_body:
        ki = "<{p}:KeyInfo><{p}:X509Data><{p}:X509Certificate>{c}</{p}:X509Certificate></{p}:X509Data></{p}:KeyInfo>".format(
            p=prefix, c=cert_body)
    return ('<{p}:Signature xmlns:{p}="{ds}"{sid}><{p}:SignedInfo>'
            '<{p}:CanonicalizationMethod Algorithm="http://www.w3.org/2001/10/xml-exc-c14n#"/>'
            '<{p}:SignatureMethod Algorithm="{sm}"/>'
            '<{p}:Reference URI="{uri}"><{p}:Transforms>'
            '<{p}:Transform Algorithm="http://www.w3.org/2000/09/xmldsig#enveloped-signature"/>'
            '<{p}:Transform Algorithm="http://www.w3.org/2001/10/xml-exc-c14n#"/></{p}:Transforms>'
            '<{p}:DigestMethod Algorithm="{dm}"/><{p}:DigestValue/></{p}:Reference></{p}:SignedInfo>'
            '<{p}:SignatureValue/>{ki}</{p}:Signature>').format(
        p=prefix, ds=DS, sm=sm, dm=dm, uri=("#" + ref_id) if ref_uri is None else ref_uri, ki=ki, sid=(' Id="%s"' % sig_id) if sig_id else "")


def sign_element(text, ns, local, node_id, key_file, alg="rsa-sha1", cert_body=None, id_attr="ID", ref_uri=None):
    """Insert an enveloped signature template after the element's Issuer (or first) and
    have the driver fill it.  Returns signed text (str).  Raises RuntimeError on failure."""
    doc = Doc(text)
    targets = [n for n in doc.find(ns, local) if n.attrs.get(id_attr) == node_id]
    if not targets:
        raise RuntimeError("no %s with %s=%s" % (local, id_attr, node_id))
    t = targets[0]
    tmpl = signature_template(node_id, alg, cert_body, ref_uri=ref_uri)
    iss = t.child(SAML, "Issuer")
    doc = doc.insert_after(iss, tmpl) if iss is not None else doc.prepend_child(t, tmpl)
    rc, err, out = _run(["--sign", "--privkey-pem", key_file, "--id-attr:" + id_attr, "%s:%s" % (ns, local),
                         "--node-id", node_id], doc.b)
    if rc != 0 or not out:
        raise RuntimeError("harness signing failed: %s" % err)
    return out.decode("utf-8")


ENC_TEMPLATE = (
    '<xenc:EncryptedData xmlns:xenc="{xenc}" xmlns:ds="{ds}" Type="http://www.w3.org/2001/04/xmlenc#Element">'
    '<xenc:EncryptionMethod Algorithm="http://www.w3.org/2001/04/xmlenc#tripledes-cbc"/>'
    '<ds:KeyInfo><xenc:EncryptedKey><xenc:EncryptionMethod Algorithm="http://www.w3.org/2001/04/xmlenc#rsa-1_5"/>'
    '<ds:KeyInfo><ds:KeyName>my-rsa-key</ds:KeyName></ds:KeyInfo>'
    '<xenc:CipherData><xenc:CipherValue/></xenc:CipherData></xenc:EncryptedKey></ds:KeyInfo>'
    '<xenc:CipherData><xenc:CipherValue/></xenc:CipherData></xenc:EncryptedData>').format(xenc=XENC, ds=DS)


def encrypt_assertions(text, cert_file, which=None):
    """Replace each (selected) direct Assertion child of the Response by an
    EncryptedAssertion encrypted to cert_file (what any party knowing the SP's public
    certificate can do).  The plaintext assertion is made namespace self-contained first."""
    doc = Doc(text)
    idx = 0
    while True:
        doc = Doc(doc.b)
        plain = [c for c in doc.root.children if c.tag == (SAML, "Assertion")]
        if which is not None:
            plain = [c for i, c in enumerate(plain) if (i + idx) in which]
        if not plain:
            break
        a = plain[0]
        wrapped = b'<saml:EncryptedAssertion xmlns:saml="' + SAML.encode() + b'">' + doc.standalone(a) + b"</saml:EncryptedAssertion>"
        d2 = doc.replace(a, wrapped)
        xpath = '/*/*[local-name()="EncryptedAssertion"][not(*[local-name()="EncryptedData"])][1]/*[local-name()="Assertion"]'
        rc, err, out = _run(["--encrypt", "--pubkey-cert-pem", cert_file, "--session-key", "des-192",
                             "--xml-data", "{0}", "--node-xpath", xpath], ENC_TEMPLATE, [d2.b])
        if rc != 0 or not out:
            raise RuntimeError("harness encryption failed: %s" % err)
        doc = Doc(out)
        idx += 1
        if which is not None and idx >= len(which):
            break
    return doc.text()


def encrypt_fragment(fragment, cert_file):
    """xenc:EncryptedData (bytes) whose plaintext is the given element, encrypted to cert_file - what anybody who knows the addressee's
    public certificate can produce.  The fragment must carry its own namespace declarations."""
    if isinstance(fragment, str):
        fragment = fragment.encode("utf-8")
    rc, err, out = _run(["--encrypt", "--pubkey-cert-pem", cert_file, "--session-key", "des-192", "--xml-data", "{0}", "--node-xpath", "/*/*[1]"],
                        ENC_TEMPLATE, [b"<verifwrap>" + fragment + b"</verifwrap>"])
    if rc != 0 or not out:
        raise RuntimeError("harness encryption failed: %s" % err)
    d = Doc(out)
    kids = d.root.children
    if len(kids) != 1 or kids[0].tag != (XENC, "EncryptedData"):
        raise RuntimeError("harness encryption produced %r" % [k.tag for k in kids])
    return d.standalone(kids[0])


def decrypt(text, key_file):
    rc, err, out = _run(["--decrypt", "--privkey-pem", key_file, "--id-attr:ID", "EncryptedKey"], text)
    return rc, err, out


def verify(text, ns, local, node_id, cert_file, id_attr="ID"):
    rc, err, out = _run(["--verify", "--enabled-reference-uris", "empty,same-doc", "--pubkey-cert-pem", cert_file,
                         "--id-attr:" + id_attr, "%s:%s" % (ns, local), "--node-id", node_id], text)
    return rc == 0 and "OK" in err.splitlines()
