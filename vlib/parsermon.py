"""Parser-construction monitor and resource-access monitor for C11.

install() must run before saml2_tophat / defusedxml are imported.  It replaces the
module-level entry points of the stdlib XML parsers with recording wrappers:
    xml.etree.ElementTree.XMLParser / fromstring / XML / parse / iterparse
    xml.dom.minidom.parse / parseString, xml.sax.parse / parseString / make_parser
    xml.parsers.expat.ParserCreate (pyexpat.ParserCreate)
Every construction made while `recording` is on is logged with the nearest saml2_tophat
frame (the call site inside the package) and whether a defusedxml DefusedXMLParser with
entities and external references forbidden is on the stack.
"""
import sys

events = []          # dicts: kind, site (file:line in saml2_tophat or None), defused (bool), api
state = {"recording": False, "installed": False}
audit = []           # (name, detail) while recording


def _stack_info():
    site = None
    defused = False
    f = sys._getframe(2)
    depth = 0
    while f is not None and depth < 60:
        fn = f.f_code.co_filename
        if "defusedxml" in fn:
            loc = f.f_locals
            slf = loc.get("self")
            if slf is not None and type(slf).__name__ == "DefusedXMLParser":
                # the expat parser is created by the base-class constructor, before DefusedXMLParser stores
                # its flags on the instance: read them from the constructor's arguments
                fe = loc.get("forbid_entities", getattr(slf, "forbid_entities", False))
                fx = loc.get("forbid_external", getattr(slf, "forbid_external", False))
                if fe and fx:
                    defused = True
        if site is None and "/saml2_tophat/" in fn:
            site = "%s:%d" % (fn.split("/saml2_tophat/", 1)[1], f.f_lineno)
        f = f.f_back
        depth += 1
    return site, defused


def _record(api):
    if not state["recording"]:
        return
    site, defused = _stack_info()
    events.append({"api": api, "site": site, "defused": defused})


def install():
    if state["installed"]:
        return
    state["installed"] = True
    assert "saml2_tophat" not in sys.modules and "defusedxml.ElementTree" not in sys.modules, \
        "parser monitor must be installed before the package under observation is imported"
    import xml.etree.ElementTree as ET
    import xml.parsers.expat as expat
    import pyexpat
    import xml.dom.minidom as minidom
    import xml.sax as sax

    _XMLParser = ET.XMLParser

    class MonitoredXMLParser(_XMLParser):
        def __init__(self, *a, **kw):
            _record("stdlib ElementTree.XMLParser")
            _XMLParser.__init__(self, *a, **kw)
    ET.XMLParser = MonitoredXMLParser

    def wrap(mod, name, api):
        orig = getattr(mod, name)

        def w(*a, **kw):
            _record(api)
            return orig(*a, **kw)
        w.__name__ = name
        w.__wrapped__ = orig
        setattr(mod, name, w)

    for name in ("fromstring", "XML", "parse", "iterparse", "fromstringlist", "XMLID"):
        wrap(ET, name, "stdlib ElementTree." + name)
    for name in ("parse", "parseString"):
        wrap(minidom, name, "xml.dom.minidom." + name)
    for name in ("parse", "parseString", "make_parser"):
        wrap(sax, name, "xml.sax." + name)
    _pc = expat.ParserCreate

    def ParserCreate(*a, **kw):
        _record("expat.ParserCreate")
        return _pc(*a, **kw)
    expat.ParserCreate = ParserCreate
    pyexpat.ParserCreate = ParserCreate

    def hook(name, args):
        if not state["recording"]:
            return
        if name == "open":
            audit.append(("open", str(args[0])))
        elif name.startswith("socket.") and name in ("socket.connect", "socket.getaddrinfo", "socket.gethostbyname",
                                                     "socket.sendto", "socket.bind", "socket.connect_ex"):
            audit.append((name, repr(args[1:])[:160]))
        elif name in ("urllib.Request", "http.client.connect", "ftplib.connect"):
            audit.append((name, repr(args)[:160]))
        elif name in ("subprocess.Popen", "os.system", "os.exec", "os.posix_spawn"):
            audit.append((name, repr(args[:2])[:200]))
    sys.addaudithook(hook)


class watch(object):
    """with watch() as w: ...  -> w.parsers, w.audit"""

    def __enter__(self):
        del events[:]
        del audit[:]
        state["recording"] = True
        return self

    def __exit__(self, *exc):
        state["recording"] = False
        self.parsers = list(events)
        self.audit = list(audit)
        return False
