"""Monitors shared by the checks: driver event log reader, signature-structure oracle,
audit hook recorder, contract helpers."""
import base64
import json
import xml.etree.ElementTree as ET

DS = "http://www.w3.org/2000/09/xmldsig#"
SAML = "urn:oasis:names:tc:SAML:2.0:assertion"
SAMLP = "urn:oasis:names:tc:SAML:2.0:protocol"
XENC = "http://www.w3.org/2001/04/xmlenc#"


def read_events(path, offset=0):
    evs = []
    try:
        with open(path, "rb") as f:
            f.seek(offset)
            data = f.read()
    except OSError:
        return evs
    for line in data.splitlines():
        if not line.strip():
            continue
        try:
            e = json.loads(line.decode("utf-8", "replace"))
        except ValueError:
            continue
        for k in ("input_b64", "cert_b64", "xmldata_b64", "output_b64"):
            v = e.pop(k, "")
            try:
                e[k[:-4]] = base64.b64decode(v) if v else b""
            except Exception:
                e[k[:-4]] = b""
        evs.append(e)
    return evs


def slim(ev):
    """Event without bulky payloads, for results/evidence."""
    return {"cmd": ev.get("cmd"), "rc": ev.get("rc"), "verdict": ev.get("verdict"), "fault": ev.get("fault"),
            "node_id": ev.get("node_id"), "node": (ev.get("id_attr_node") or "").rsplit(":", 1)[-1],
            "cert": cert_name(ev.get("cert", b"")), "case": ev.get("case")}


_cert_names = {}


def cert_name(pem):
    """Map certificate bytes (PEM with or without armour) to the fixture key name."""
    import glob
    import os
    from . import env
    if not _cert_names:
        for p in glob.glob(os.path.join(env.KEYS, "*.crt")):
            with open(p) as f:
                _cert_names[_pem_body(f.read())] = os.path.basename(p)[:-4]
    if isinstance(pem, bytes):
        pem = pem.decode("ascii", "replace")
    return _cert_names.get(_pem_body(pem), "unknown" if pem.strip() else "")


def _pem_body(txt):
    return "".join(l.strip() for l in txt.splitlines() if l and not l.startswith("-----"))


def genuine_ok(ev):
    """a verification the tool really performed and that succeeded UNDER THE KEY IT WAS GIVEN on the command line (key_used 'keyinfo' means
    the signature verified under a key taken from the document's own KeyInfo - that vouches for nothing)"""
    return ev.get("cmd") == "verify" and ev.get("rc") == 0 and ev.get("verdict") == "OK" and not ev.get("fault") and ev.get("key_used", "given") != "keyinfo"


def ok_under_document_key(ev):
    return ev.get("cmd") == "verify" and ev.get("rc") == 0 and ev.get("verdict") == "OK" and ev.get("key_used") == "keyinfo"


def signature_structure_problems(doc, node_name, node_id, id_attr="ID"):
    """C01 oracle (B): is the element the tool was asked to vouch for the element its
    signature digests?  doc: bytes the tool verified; node_name 'ns:Local'; returns a list
    of problem strings (empty = fine)."""
    probs = []
    try:
        root = ET.fromstring(doc)
    except ET.ParseError as exc:
        return ["unparseable verified document: %s" % exc]
    ns, _, local = node_name.rpartition(":")
    tag = "{%s}%s" % (ns, local)
    hits = [e for e in root.iter(tag) if e.get(id_attr) == node_id]
    if len(hits) != 1:
        return ["%d elements %s carry %s=%r" % (len(hits), local, id_attr, node_id)]
    # (the tool registers the ID attribute on elements of this name only, so an element of another
    # name carrying the same value is no ambiguity for it and is not demanded by the property)
    el = hits[0]
    sigtag = "{%s}Signature" % DS
    direct = [c for c in el if c.tag == sigtag]
    if len(direct) != 1:
        probs.append("element has %d direct Signature children" % len(direct))
        return probs
    first = next(el.iter(sigtag))
    if first is not direct[0]:
        probs.append("first Signature in document order below the element is not its own child")
    si = direct[0].find("{%s}SignedInfo" % DS)
    refs = si.findall("{%s}Reference" % DS) if si is not None else []
    if len(refs) != 1:
        probs.append("SignedInfo has %d References" % len(refs))
    elif refs[0].get("URI") != "#" + node_id:
        probs.append("Reference URI %r does not name the element %r" % (refs[0].get("URI"), node_id))
    return probs


class AuditRecorder(object):
    """sys.addaudithook based recorder of file opens and network activity."""

    def __init__(self):
        import sys
        self.active = False
        self.events = []
        sys.addaudithook(self._hook)

    def _hook(self, name, args):
        if not self.active:
            return
        if name == "open":
            self.events.append(("open", str(args[0])))
        elif name in ("socket.connect", "socket.getaddrinfo", "socket.gethostbyname", "socket.bind",
                      "socket.sendto", "urllib.Request", "http.client.connect", "ftplib.connect"):
            self.events.append((name, repr(args[1:] if name == "socket.connect" else args)[:200]))
        elif name in ("subprocess.Popen", "os.system"):
            self.events.append((name, repr(args[:2])[:300]))

    def start(self):
        self.events = []
        self.active = True

    def stop(self):
        self.active = False
        return self.events


class Counter(object):
    def __init__(self):
        self.n = {}

    def hit(self, k, by=1):
        self.n[k] = self.n.get(k, 0) + by
