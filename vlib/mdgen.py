"""Hand-written SAML metadata documents from a plain description (independent of
pysaml2's own metadata generation): the description is also the model the oracles use.

entity description (dict):
  eid, valid_until (str|None),
  idp: {keys: [(use|None, key_index)], sso: [(binding, location)], slo: [...], nameid_formats: []} | None
  sp:  {keys: [...], acs: [(binding, location, index, is_default|None)], slo: [(binding, location)],
        requested: [(name, friendly, required(bool|None), [values])], authn_requests_signed, want_assertions_signed} | None
  aa:  {keys: [...], attribute_service: [(binding, location)]} | None
  entity_categories: [uri, ...]
"""
from . import fed

MD = "urn:oasis:names:tc:SAML:2.0:metadata"
DS = "http://www.w3.org/2000/09/xmldsig#"
SAML = "urn:oasis:names:tc:SAML:2.0:assertion"
MDATTR = "urn:oasis:names:tc:SAML:metadata:attribute"
PROTO = "urn:oasis:names:tc:SAML:2.0:protocol"


def esc(s):
    return str(s).replace("&", "&amp;").replace("<", "&lt;").replace(">", "&gt;").replace('"', "&quot;")


def key_descriptor(use, key_index):
    u = ' use="%s"' % use if use else ""
    if key_index == "keyname":
        # a key that is only named (the certificate is expected to be known otherwise): legal, and nothing a certificate lookup can use
        return '<md:KeyDescriptor%s><ds:KeyInfo><ds:KeyName>signing-key-2020</ds:KeyName></ds:KeyInfo></md:KeyDescriptor>' % u
    if key_index == "descriptor-without-keyinfo":
        return '<md:KeyDescriptor%s/>' % u
    if key_index == "empty-certificate":
        # (a certificate element that was left empty, e.g. by a template)
        return '<md:KeyDescriptor%s><ds:KeyInfo><ds:X509Data><ds:X509Certificate/></ds:X509Data></ds:KeyInfo></md:KeyDescriptor>' % u
    if key_index == "x509-without-certificate":
        return ('<md:KeyDescriptor%s><ds:KeyInfo><ds:X509Data><ds:X509SubjectName>CN=idp</ds:X509SubjectName></ds:X509Data></ds:KeyInfo>'
                '</md:KeyDescriptor>') % u
    return ('<md:KeyDescriptor%s><ds:KeyInfo><ds:X509Data><ds:X509Certificate>%s</ds:X509Certificate></ds:X509Data></ds:KeyInfo>'
            '</md:KeyDescriptor>') % (u, fed.cert_body(key_index))


def _endpoint(tag, binding, location, index=None, default=None, response_location=None):
    a = ' Binding="%s" Location="%s"' % (esc(binding), esc(location))
    if index is not None:
        a += ' index="%s"' % index
    if default is not None:
        a += ' isDefault="%s"' % _b(default)
    if response_location:
        a += ' ResponseLocation="%s"' % esc(response_location)
    return "<md:%s%s/>" % (tag, a)


_BOOLS = {"words": ("true", "false"), "digits": ("1", "0"), "padded": (" true", "false ")}
_style = ["words"]


PROTO11 = "urn:oasis:names:tc:SAML:1.1:protocol urn:oasis:names:tc:SAML:1.0:protocol"


def _b(v):
    """lexical form of an xs:boolean in the style of the entity being written"""
    t, f = _BOOLS[_style[0]]
    return t if v else f


def entity(d):
    """d.get("lexical"): {"bool": words|digits|padded, "ecat_type": None|"xs:string"|"xs:anyURI"} - other legal ways of writing the same
    declarations"""
    lex = d.get("lexical") or {}
    _style[0] = lex.get("bool", "words")
    try:
        return _entity(d, lex)
    finally:
        _style[0] = "words"


def _entity(d, lex):
    parts = []
    vu = ' validUntil="%s"' % d["valid_until"] if d.get("valid_until") else ""
    parts.append('<md:EntityDescriptor xmlns:md="%s" xmlns:ds="%s" xmlns:saml="%s" xmlns:mdattr="%s" entityID="%s"%s>' % (
        MD, DS, SAML, MDATTR, esc(d["eid"]), vu))
    if d.get("entity_categories") or d.get("entity_category_support") or d.get("valueless_entity_attribute") or d.get("empty_value_entity_attribute"):
        typ = ' xmlns:xs="http://www.w3.org/2001/XMLSchema" xmlns:xsi="http://www.w3.org/2001/XMLSchema-instance" xsi:type="%s"' % lex["ecat_type"] \
            if lex.get("ecat_type") else ""
        attrs = ""
        # (entity-category: what the entity IS; entity-category-support: which categories it honours as a releasing party - not the same claim)
        for aname, key in (("http://macedir.org/entity-category-support", "entity_category_support"), ("http://macedir.org/entity-category", "entity_categories")):
            if d.get(key) and d.get("split_category_attributes"):
                # the same Name more than once, one value each (legal; what merging aggregators produce)
                for c in d[key]:
                    attrs += '<saml:Attribute Name="%s" NameFormat="urn:oasis:names:tc:SAML:2.0:attrname-format:uri"><saml:AttributeValue%s>%s</saml:AttributeValue></saml:Attribute>' % (
                        aname, typ, esc(c))
            elif d.get(key):
                vals = "".join("<saml:AttributeValue%s>%s</saml:AttributeValue>" % (typ, esc(c)) for c in d[key])
                attrs += '<saml:Attribute Name="%s" NameFormat="urn:oasis:names:tc:SAML:2.0:attrname-format:uri">%s</saml:Attribute>' % (aname, vals)
        if d.get("empty_value_entity_attribute"):
            attrs = '<saml:Attribute Name="%s" NameFormat="urn:oasis:names:tc:SAML:2.0:attrname-format:uri"><saml:AttributeValue/></saml:Attribute>' % esc(d["empty_value_entity_attribute"]) + attrs
        if d.get("valueless_entity_attribute"):
            # an entity attribute that is a bare flag (no AttributeValue), in front of the others
            attrs = '<saml:Attribute Name="%s" NameFormat="urn:oasis:names:tc:SAML:2.0:attrname-format:uri"/>' % esc(d["valueless_entity_attribute"]) + attrs
        parts.append('<md:Extensions>%s<mdattr:EntityAttributes>%s</mdattr:EntityAttributes></md:Extensions>' % (
            '<x:Note xmlns:x="urn:example:verif:unknown">n</x:Note>' if d.get("unknown_extension") else "", attrs))
    elif d.get("unknown_extension"):
        # Extensions that hold nothing any schema module knows
        parts.append('<md:Extensions><x:Note xmlns:x="urn:example:verif:unknown">n</x:Note></md:Extensions>')
    # role descriptors for other protocols than SAML 2.0 (d["saml11"] = {"idp": {...}, "sp": {...}, "first": bool}): same entity, same role
    # element, endpoints of their own - nothing of them is a SAML 2.0 endpoint of the entity
    other = d.get("saml11") or {}
    # (proto_list: the SAML 2.0 descriptors also list other protocols, separated by any white space an xs:list allows)
    p20 = d.get("proto_list") or PROTO
    idps = [(d.get("idp"), p20)] + [(other.get("idp"), PROTO11)]
    sps = [(d.get("sp"), p20)] + [(other.get("sp"), PROTO11)] + [(d.get("sp_second"), PROTO)]      # sp_second: a further SAML 2.0 SPSSODescriptor
    if other.get("first"):
        idps.reverse()
        sps.reverse()
    for idp, proto in idps:
      if idp:
        parts.append('<md:IDPSSODescriptor protocolSupportEnumeration="%s"%s>' % (
            proto, ' WantAuthnRequestsSigned="true"' if idp.get("want_authn_requests_signed") else ""))
        parts.extend(key_descriptor(u, k) for u, k in idp.get("keys", []))
        parts.extend(_endpoint("SingleLogoutService", b, l) for b, l in idp.get("slo", []))
        parts.extend("<md:NameIDFormat>%s</md:NameIDFormat>" % esc(f) for f in idp.get("nameid_formats", []))
        parts.extend(_endpoint("SingleSignOnService", b, l) for b, l in idp.get("sso", []))
        parts.append("</md:IDPSSODescriptor>")
    for sp, proto in sps:
      if sp:
        attrs = ""
        if sp.get("authn_requests_signed") is not None:
            attrs += ' AuthnRequestsSigned="%s"' % _b(sp["authn_requests_signed"])
        if sp.get("want_assertions_signed") is not None:
            attrs += ' WantAssertionsSigned="%s"' % _b(sp["want_assertions_signed"])
        parts.append('<md:SPSSODescriptor protocolSupportEnumeration="%s"%s>' % (proto, attrs))
        parts.extend(key_descriptor(u, k) for u, k in sp.get("keys", []))
        parts.extend(_endpoint("SingleLogoutService", b, l) for b, l in sp.get("slo", []))
        parts.extend(_endpoint("ManageNameIDService", b, l) for b, l in sp.get("mni", []))
        parts.extend("<md:NameIDFormat>%s</md:NameIDFormat>" % esc(f) for f in sp.get("nameid_formats", []))
        for b, l, idx, dflt in sp.get("acs", []):
            parts.append(_endpoint("AssertionConsumerService", b, l, idx, dflt))
        if sp.get("requested") is not None:
            parts.append('<md:AttributeConsumingService index="1"><md:ServiceName xml:lang="en">svc</md:ServiceName>')
            for name, friendly, required, values in sp["requested"]:
                a = ' Name="%s" NameFormat="urn:oasis:names:tc:SAML:2.0:attrname-format:uri"' % esc(name)
                if friendly:
                    a += ' FriendlyName="%s"' % esc(friendly)
                if required is not None:
                    a += ' isRequired="%s"' % _b(required)
                if values:
                    parts.append("<md:RequestedAttribute%s>%s</md:RequestedAttribute>" % (
                        a, "".join("<saml:AttributeValue>%s</saml:AttributeValue>" % esc(v) for v in values)))
                else:
                    parts.append("<md:RequestedAttribute%s/>" % a)
            parts.append("</md:AttributeConsumingService>")
        if sp.get("empty_service"):
            # a second service that requests nothing (hand-written metadata; the schema wants at least one RequestedAttribute)
            parts.append('<md:AttributeConsumingService index="2"><md:ServiceName xml:lang="en">svc2</md:ServiceName></md:AttributeConsumingService>')
        parts.append("</md:SPSSODescriptor>")
    aa = d.get("aa")
    if aa:
        parts.append('<md:AttributeAuthorityDescriptor protocolSupportEnumeration="%s">' % PROTO)
        parts.extend(key_descriptor(u, k) for u, k in aa.get("keys", []))
        parts.extend(_endpoint("AttributeService", b, l) for b, l in aa.get("attribute_service", []))
        parts.append("</md:AttributeAuthorityDescriptor>")
    parts.append("</md:EntityDescriptor>")
    return "".join(parts)


def entities(descs, valid_until=None, name="verif-federation", ident=None, nested=()):
    """nested: already rendered EntitiesDescriptor elements (an aggregate of aggregates), placed after the entities"""
    vu = ' validUntil="%s"' % valid_until if valid_until else ""
    i = ' ID="%s"' % ident if ident else ""
    return '<md:EntitiesDescriptor xmlns:md="%s" Name="%s"%s%s>%s%s</md:EntitiesDescriptor>' % (
        MD, esc(name), vu, i, "".join(entity(d) for d in descs), "".join(nested))
