"""Virtual clock for the saml2_tophat package.

Every loaded saml2_tophat module that holds a reference to the `time` module, the
`datetime` module or the `datetime.datetime` class gets a proxy whose notion of "now"
is controlled by the harness.  No wall-clock value ever decides a verdict.
"""
import calendar
import datetime as _dt
import sys
import time as _time
import types

_state = {"now": None}


def set_now(epoch):
    """epoch: seconds since 1970 (int/float) or None for the real clock."""
    _state["now"] = epoch


def now():
    return _state["now"] if _state["now"] is not None else _time.time()


def iso(epoch=None, z=True):
    t = now() if epoch is None else epoch
    return _time.strftime("%Y-%m-%dT%H:%M:%S", _time.gmtime(t)) + ("Z" if z else "")


def parse_iso(s):
    """Independent xs:dateTime reader -> epoch seconds (float)."""
    import re
    m = re.match(r"^(-?\d{4,})-(\d\d)-(\d\d)T(\d\d):(\d\d):(\d\d)(\.\d+)?(Z|[+-]\d\d:\d\d)?$", s.strip())
    if not m:
        raise ValueError("not an xs:dateTime: %r" % s)
    y, mo, d, h, mi, se = [int(m.group(i)) for i in range(1, 7)]
    frac = float(m.group(7)) if m.group(7) else 0.0
    t = calendar.timegm((y, mo, d, h, mi, se, 0, 0, 0)) + frac
    tz = m.group(8)
    if tz and tz != "Z":
        sign = 1 if tz[0] == "+" else -1
        t -= sign * (int(tz[1:3]) * 3600 + int(tz[4:6]) * 60)
    return t


class _TimeProxy(types.ModuleType):
    def __init__(self):
        types.ModuleType.__init__(self, "time")
        for k in dir(_time):
            if not k.startswith("__"):
                setattr(self, k, getattr(_time, k))
        self.time = lambda: float(now())
        self.gmtime = lambda secs=None: _time.gmtime(now() if secs is None else secs)
        self.localtime = lambda secs=None: _time.localtime(now() if secs is None else secs)

        def strftime(fmt, t=None):
            return _time.strftime(fmt, _time.gmtime(now()) if t is None else t)
        self.strftime = strftime
        self.__verif_proxy__ = True


class _DateTime(_dt.datetime):
    @classmethod
    def utcnow(cls):
        return cls.utcfromtimestamp(now())

    @classmethod
    def now(cls, tz=None):
        # naive local time, as the real one (the process zone is UTC unless a case sets another one with process_tz)
        return cls.fromtimestamp(now(), tz)

    @classmethod
    def today(cls):
        return cls.fromtimestamp(now())


class _DatetimeModuleProxy(types.ModuleType):
    def __init__(self):
        types.ModuleType.__init__(self, "datetime")
        for k in dir(_dt):
            if not k.startswith("__"):
                setattr(self, k, getattr(_dt, k))
        self.datetime = _DateTime
        self.__verif_proxy__ = True


_TIME = _TimeProxy()
_DTMOD = _DatetimeModuleProxy()


class process_tz(object):
    """with process_tz("EET-3"): ...  - the process time zone (POSIX TZ string) for the duration of the block; None leaves it alone.
    SAML instants are UTC, so nothing the library decides may depend on it."""

    def __init__(self, tz):
        self.tz = tz

    def __enter__(self):
        import os
        if self.tz:
            self.old = os.environ.get("TZ")
            os.environ["TZ"] = self.tz
            _time.tzset()
        return self

    def __exit__(self, *exc):
        import os
        if self.tz:
            if self.old is None:
                os.environ.pop("TZ", None)
            else:
                os.environ["TZ"] = self.old
            _time.tzset()
        return False


ZONES = [None, "EET-3", "PST8", "IST-5:30", "NZST-12"]


def install():
    """(Re)patch all loaded saml2_tophat modules; cheap, call before each case."""
    n = 0
    for name, mod in list(sys.modules.items()):
        if mod is None or not (name == "saml2_tophat" or name.startswith("saml2_tophat.")):
            continue
        d = getattr(mod, "__dict__", {})
        if d.get("time") is _time:
            mod.time = _TIME
            n += 1
        if d.get("datetime") is _dt.datetime:
            mod.datetime = _DateTime
            n += 1
        elif d.get("datetime") is _dt:
            mod.datetime = _DTMOD
            n += 1
        if d.get("gmtime") is _time.gmtime:
            mod.gmtime = _TIME.gmtime
        if d.get("mktime") is _time.mktime:
            pass
    return n
