"""C13 - schema validation rejects every structurally invalid message.

Table-driven: for every element class a minimal instance satisfying all declared
constraints is generated from the class tables (typed valid values); then each declared
constraint is violated in isolation - required attribute missing/empty, each explicit
occurrence bound undershot/overshot, each attribute or text of a checked simple type
given a non-conforming value - at the root and nested under possible parents.
Oracle: violated => valid_instance / verify() raises; satisfied => returns true.
"""
import random

from vlib import env, schema, gen

PROPERTY = "C13"
LEVEL = "exploration"
RULE = ("one execution = valid_instance() on one generated instance: either the minimal valid instance of a class (optionally with one "
        "more valid optional attribute) or that instance with exactly one declared constraint violated, at the root or as a child "
        "of a valid parent; non-trivial = the validator ran on an instance built from at least one table entry; distinct = (class, "
        "constraint kind, member, variant, position)")
ASSUMPTIONS = ["'occurrence bounds its class declares' = the entries of c_cardinality (children without an entry have no declared bound; "
               "instances built for the accept direction include them anyway)",
               "checked simple types are those the property names: dateTime, boolean, integer kinds, duration, enumerations",
               "class-specific verify() rules beyond the tables (Assertion, Conditions, AuthnContext, SubjectLocality, AttributeValue) "
               "are respected by the generator of valid instances, not tested here"]

GOOD = {"ID": "id-abc123", "NCName": "abc", "dateTime": "2020-01-01T00:00:00Z", "datetime": "2020-01-01T00:00:00Z",
        "anyURI": "http://example.org/x", "nonNegativeInteger": "3", "PositiveInteger": "3", "positiveInteger": "3",
        "boolean": "true", "unsignedShort": "7", "unsignedByte": "7", "unsignedInt": "7", "unsignedLong": "7", "duration": "PT5M",
        "base64Binary": "QUJD", "integer": "5", "QName": "xs:string", "anyType": "x", "string": "s", "NMTOKEN": "token",
        "NMTOKENS": "tok1 tok2", "None": "value", "": "s"}
BAD = {"dateTime": ["not-a-date", "2020-01-01", "01/02/2020 10:00"], "datetime": ["not-a-date"], "boolean": ["maybe", "2"],
       "integer": ["abc", "1.5"], "nonNegativeInteger": ["-1", "abc"], "PositiveInteger": ["0", "abc"], "positiveInteger": ["0", "abc"],
       "unsignedShort": ["70000", "-1", "abc"], "unsignedByte": ["300", "abc"], "unsignedInt": ["-1", "abc"], "unsignedLong": ["-1", "abc"],
       "duration": ["xyz", "5 minutes"]}
# near misses: one step outside the lexical space of the type, where the conversion a validator is built on (int(), strptime, lower())
# is more generous than the schema type
NEAR = {"dateTime": ["2021-02-20T00:00:00.Z", "2020-01-01T00:00:00z", "2020-1-1T0:0:0Z", "", "2020-01-01t00:00:00Z", "2020-01-01 00:00:00Z",
                     "2020-13-01T00:00:00Z", "2020-02-30T00:00:00Z", "2020-01-01T25:00:00Z", "20200101T000000Z",
                     # zone designators outside the lexical space (minutes above 59, offsets above 14:00, wrong shapes)
                     "2020-01-01T00:00:00+05:75", "2020-01-01T00:00:00-00:60", "2020-01-01T00:00:00-13:60", "2020-01-01T00:00:00+14:01",
                     "2020-01-01T00:00:00+24:00", "2020-01-01T00:00:00+5:00", "2020-01-01T00:00:00+0500", "2020-01-01T00:00:00Z+01:00",
                     "2020-01-01T00:00:00+01", "2020-01-01T00:00:00 Z",
                     # (second 60 is left alone: a leap second to ISO 8601 and XSD 1.0, outside the value space to XSD 1.1)
                     "2020-01-01T00:00:61Z", "2020-01-01T00:00:99Z",
                     # the end-of-day hour with anything but zeros behind it
                     "2020-01-01T24:30:00Z", "2020-01-01T24:00:01Z", "2020-01-01T24:15:00.500Z", "2020-01-01T24:00:00.001Z", "2020-01-01T24:59:59",
                     # padded with characters that are white space to str.strip() and not to XML (S ::= #x20 | #x9 | #xD | #xA)
                     "2020-01-01T00:00:00Z\u00a0", "\u20282020-01-01T00:00:00Z", "\u30002020-01-01T00:00:00Z\u3000", "2020-01-01T00:00:00Z\x0c"],
        "boolean": ["TRUE", "True", "False", "yes", "", "01", "t", "true\u00a0", "\u30001", "false\x0b", "\u20280"],
        "integer": ["1_0", "\u0661\u0662", "", "1e3", "0x10", "1 0", "--1", "+", "5\u00a0", "\x1c5"],
        "nonNegativeInteger": ["1_0", "\u0661\u0662", "", "-1_0", "3\u00a0"], "positiveInteger": ["1_0", "\u0661", "", "-3", "3\u2028"],
        "PositiveInteger": ["1_0", "\u0661", "", "\u00a03"],
        "unsignedShort": ["1_0", "\u0661", "65536", "", "7\u00a0", "\x0c7"], "unsignedByte": ["2_5", "256", "", "7\u3000"], "unsignedInt": ["1_0", "4294967296", "", "7\u00a0"],
        "unsignedLong": ["1_0", "18446744073709551616", "", "\u20287"],
        "duration": ["P1.5D", "P1DT1H1M1.S", "PT1D", "P", "PT", "P1S", "1D", "p1d", "P-1D", "P1DT", "", "PT5M\u00a0", "\u3000P1D"]}
for _k, _v in NEAR.items():
    BAD.setdefault(_k, [])
    BAD[_k] = BAD[_k] + [x for x in _v if x not in BAD[_k]]
BAD["datetime"] = BAD["datetime"] + [x for x in NEAR["dateTime"] if x not in BAD["datetime"]]


# instances the class-specific verify() rules must accept (the generator of minimal instances steers clear of these members)
CLASS_RULE_VALID = {
    "SubjectLocality": [{"dns_name": "idp.example.org"}, {"dns_name": "login-2.idp.example.co.uk"}, {"dns_name": "localhost"}, {"address": "192.0.2.17"},
                        {"address": "2001:db8::17"}, {"address": "192.0.2.17", "dns_name": "idp.example.org"}],
}


XSI = "http://www.w3.org/2001/XMLSchema-instance"
DECOR = [("xsi:nil=true", {"{%s}nil" % XSI: "true"}), ("xsi:nil=1", {"{%s}nil" % XSI: "1"}), ("xsi:type", {"{%s}type" % XSI: "xs:string"}),
         ("a foreign attribute", {"{urn:example:verif}note": "x"})]


def base_type(typ):
    if isinstance(typ, type):
        return None
    t = str(typ)
    if ":" in t:
        t = t.split(":")[-1]
    return t


def good_value(typ):
    if isinstance(typ, type):
        spec = typ.c_value_type or {"base": "string"}
        return good_text(spec)
    return GOOD.get(str(typ), GOOD.get(base_type(typ), "s"))


def good_text(spec):
    if "enumeration" in spec:
        return spec["enumeration"][0]
    if spec.get("base") == "list":
        return GOOD.get(base_type(spec.get("member", "string")), "s")
    return GOOD.get(base_type(spec.get("base", "string")), "s")


CHECKED = ("dateTime", "datetime", "boolean", "duration", "integer", "nonNegativeInteger", "positiveInteger", "PositiveInteger",
           "unsignedShort", "unsignedByte", "unsignedInt", "unsignedLong")


def lexical_forms(typ):
    """legal lexical forms of a checked simple type, plain and with the white space XML Schema collapses around them.  dateTime values with
    a zone offset are left out in both directions: legal xs:dateTime, but SAML core 1.3.3 requires UTC without a zone component."""
    t = base_type(typ)
    if t not in CHECKED:
        return []
    out = []
    for v in schema.TYPED_LEXICAL.get(t, []):
        if t in ("dateTime", "datetime") and (v[-6] in "+-" and v[-3] == ":"):
            continue
        out += [v, " " + v, v + "\n"]
    return out


def bad_values(typ):
    if isinstance(typ, type):
        spec = typ.c_value_type or {}
        return bad_texts(spec)
    return BAD.get(str(typ), BAD.get(base_type(typ), []))


_enum_index = {}


def enum_index():
    """value -> list of (class, member or None) where that value is a legal member of an enumeration (attribute type or element text)"""
    if not _enum_index:
        for m, c in schema.all_classes():
            if c.c_value_type and "enumeration" in c.c_value_type:
                for v in c.c_value_type["enumeration"]:
                    _enum_index.setdefault(v, []).append((c, None))
            for xml_name, (member, typ, required) in c.c_attributes.items():
                if isinstance(typ, type) and typ.c_value_type and "enumeration" in typ.c_value_type:
                    for v in typ.c_value_type["enumeration"]:
                        _enum_index.setdefault(v, []).append((c, member))
    return _enum_index


def bad_texts(spec):
    if "enumeration" in spec:
        # a made-up value, and members of OTHER enumerations (legal somewhere else, not here)
        own = set(spec["enumeration"])
        foreign = sorted(v for v in enum_index() if v not in own)
        pick = [v for v in ("signing", "Permit", "exact", "technical", "true") if v in foreign][:3]
        return ["NotInTheEnumeration"] + pick
    if spec.get("base") == "list":
        return []
    return BAD.get(base_type(spec.get("base", "string")), [])


SPECIAL_TEXT = {"SubjectLocality": None}


def minimal(cls, depth=4, _stack=()):
    """smallest instance satisfying every declared constraint (required attributes, explicit minimum
    occurrences, single children without an explicit bound)"""
    inst = cls()
    for xml_name, (member, typ, required) in cls.c_attributes.items():
        if required:
            setattr(inst, member, good_value(typ))
    if depth > 0:
        for tag, member, ccls, is_list in schema.child_specs(cls):
            if ccls is None or not isinstance(ccls, type) or ccls in _stack:
                continue
            card = cls.c_cardinality.get(member)
            need = (card or {}).get("min", None)
            if card is None:
                need = 0 if is_list else 1
            if not need:
                continue
            kids = [minimal(ccls, depth - 1, _stack + (cls,)) for _ in range(need)]
            setattr(inst, member, kids if is_list else kids[0])
    if cls.c_value_type:
        try:
            inst.text = good_text(cls.c_value_type)
        except Exception:
            pass
    _semantic_fixups(inst)
    return inst


def _semantic_fixups(inst):
    """rules of class-specific verify() overrides that the tables do not carry"""
    name = inst.__class__.__name__
    if name in ("AuthnContext", "AuthnContextType_"):
        # one of class_ref / decl / decl_ref combinations only
        if getattr(inst, "authn_context_decl", None) is not None and getattr(inst, "authn_context_decl_ref", None) is not None:
            inst.authn_context_decl = None
    if name in ("AttributeValue",) or any(b.__name__ == "AttributeValueBase" for b in inst.__class__.__mro__):
        if not inst.text:
            inst.text = "value"
    if name in ("Assertion", "AssertionType_") and getattr(inst, "subject", None) is None:
        # Assertion.verify(): without statements an assertion MUST contain a subject
        scls = dict((m, c) for t, m, c, l in schema.child_specs(inst.__class__)).get("subject")
        if isinstance(scls, type):
            inst.subject = minimal(scls, 2)
    if name in ("SubjectLocality", "SubjectLocalityType_"):
        inst.address = None
        inst.dns_name = None


def validate(inst):
    from saml2_tophat.validate import valid_instance
    try:
        r = valid_instance(inst)
        return ("ok", r)
    except Exception as exc:
        return ("raise", exc)


def gen_cases(tier, seed):
    env.assert_repo_is_source()
    cases = []
    for mod, cls in schema.all_classes():
        cases.append({"id": "%s.%s" % (mod.__name__, cls.__name__), "sig": [mod.__name__, cls.__name__], "module": mod.__name__,
                      "cls": cls.__name__, "parents": 1 if tier == "quick" else 1000})
    return cases


_parents = {}


def parents_of(cls):
    if not _parents:
        for m, c in schema.all_classes():
            for tag, member, ccls, is_list in schema.child_specs(c):
                if isinstance(ccls, type):
                    _parents.setdefault(ccls, []).append((c, member, is_list))
    return _parents.get(cls, [])


def run_case(case, ctx):
    import importlib
    from saml2_tophat.validate import NotValid
    mod = importlib.import_module(case["module"])
    cls = getattr(mod, case["cls"])
    viol, counters, sigs = [], {}, []
    rng = random.Random("%s/%s" % (ctx.seed, case["id"]))

    def hit(k, n=1):
        counters[k] = counters.get(k, 0) + n

    def expect_ok(inst, what, sig):
        hit("accept_direction")
        r = validate(inst)
        sigs.append(sig)
        if r[0] == "raise":
            exc = r[1]
            key = "C13/valid-instance-rejected:" + type(exc).__name__
            if isinstance(exc, KeyError):
                key = "C13/validator-table-lacks-declared-type-name"
            viol.append({"key": key, "what": "%s %s: valid_instance raised %r" % (case["id"], what, exc)})
            return False
        if r[1] is not True:
            viol.append({"key": "C13/valid-instance-not-true", "what": "%s %s: valid_instance returned %r" % (case["id"], what, r[1])})
            return False
        return True

    def prime(value):
        """validate the same string first where it IS valid (plain string text, and wherever it is a legal enumeration member): the verdict
        on the violated instance must not depend on what was validated before"""
        from saml2_tophat import saml
        try:
            validate(saml.Issuer(text=value))
            for (kc, member) in enum_index().get(value, [])[:3]:
                k = minimal(kc)
                if member is None:
                    k.text = value
                else:
                    setattr(k, member, value)
                validate(k)
            hit("primings")
        except Exception:
            hit("priming_failed")

    def expect_raise(make, what, sig, positions, prime_with=None):
        """make() -> a fresh violated instance; evaluated at the root and below each chosen parent"""
        if prime_with is not None:
            prime(prime_with)
        inst = make()
        hit("reject_direction")
        sigs.append(sig + ["root"])
        r = validate(inst)
        if r[0] == "ok":
            viol.append({"key": "C13/violated-constraint-accepted:" + sig[2], "what": "%s %s: valid_instance returned %r" % (case["id"], what, r[1]),
                         "detail": {"xml": _xml(inst)}})
            return
        if not isinstance(r[1], NotValid) and not type(r[1]).__name__ in ("MustValueError", "OutsideCardinality", "ShouldValueError"):
            hit("rejected_by_non_validation_exception:" + type(r[1]).__name__)
        # the same violation on an element that also carries attributes validation has no table entry for (xsi:nil, xsi:type, a foreign
        # attribute): none of them waives a declared constraint, neither on the element itself nor for what is below it
        for dname, dattrs in DECOR:
            inst = make()
            inst.extension_attributes = dict(inst.extension_attributes or {}, **dattrs)
            hit("reject_direction_decorated")
            sigs.append(sig + ["root+" + dname])
            r = validate(inst)
            if r[0] == "ok":
                viol.append({"key": "C13/violated-constraint-accepted-on-decorated-element:" + sig[2],
                             "what": "%s %s on an element that also carries %s: valid_instance returned %r" % (case["id"], what, dname, r[1]),
                             "detail": {"xml": _xml(inst)}})
                break
        for (pcls, member, is_list) in positions:
            try:
                p = minimal(pcls, 3)
                child = make()
                # in a list the violated child comes after a valid sibling (every item must be validated)
                setattr(p, member, [minimal(child.__class__, 3), child] if is_list else child)
            except Exception:
                hit("parent_build_failed")
                continue
            pr = validate(p)
            hit("reject_direction_nested")
            sigs.append(sig + ["under:" + pcls.__name__ + "." + member])
            if pr[0] == "ok":
                viol.append({"key": "C13/violated-constraint-accepted-when-nested:" + sig[2],
                             "what": "%s %s as %s of %s: valid_instance returned %r" % (case["id"], what, member, pcls.__name__, pr[1]),
                             "detail": {"xml": _xml(p)}})
                continue
            dname, dattrs = DECOR[len(sigs) % len(DECOR)]
            p.extension_attributes = dict(p.extension_attributes or {}, **dattrs)
            pr = validate(p)
            hit("reject_direction_decorated")
            sigs.append(sig + ["under:" + pcls.__name__ + "." + member + "+" + dname])
            if pr[0] == "ok":
                viol.append({"key": "C13/violated-constraint-accepted-below-decorated-element:" + sig[2],
                             "what": "%s %s as %s of a %s that carries %s: valid_instance returned %r" % (case["id"], what, member, pcls.__name__, dname, pr[1]),
                             "detail": {"xml": _xml(p)}})

    try:
        base = minimal(cls)
    except Exception as exc:
        return {"outcome": "unbuildable", "nontrivial": False, "violations": [
            {"key": "C13/minimal-instance-unbuildable:" + type(exc).__name__, "what": "%s: %r" % (case["id"], exc)}], "counters": counters}
    if not expect_ok(base, "minimal instance", [case["module"], case["cls"], "minimal", "-", "-", "root"]):
        return {"outcome": "valid-rejected", "nontrivial": True, "violations": viol[:3], "counters": counters, "sigs": sigs, "evals": 1}

    # class-specific rules, accept direction: what the class's own verify() is there to let through must get through, at the root and nested
    for member_values in CLASS_RULE_VALID.get(case["cls"], []):
        i = minimal(cls)
        for m_, v_ in member_values.items():
            setattr(i, m_, v_)
        expect_ok(i, "with %r (class rule)" % (member_values,), [case["module"], case["cls"], "class-rule-valid", repr(sorted(member_values.items())), "-", "root"])
        for (pcls, member, is_list) in parents_of(cls)[:2]:
            if not _parent_ok(pcls):
                continue
            p_ = minimal(pcls, 3)
            setattr(p_, member, [i] if is_list else i)
            expect_ok(p_, "with %r (class rule) as %s of %s" % (member_values, member, pcls.__name__),
                      [case["module"], case["cls"], "class-rule-valid", repr(sorted(member_values.items())), "-", "under:" + pcls.__name__])

    ps = parents_of(cls)
    positions = rng.sample(ps, min(case["parents"], len(ps)))
    # parents whose own minimal instance is invalid cannot host the nested experiment
    positions = [p for p in positions if _parent_ok(p[0])]

    # (1) attributes
    for xml_name, (member, typ, required) in sorted(cls.c_attributes.items()):
        if required:
            for variant, val in (("missing", None), ("empty", "")):
                def make(member=member, val=val):
                    i = minimal(cls)
                    setattr(i, member, val)
                    return i
                expect_raise(make, "required attribute %s %s" % (xml_name, variant),
                             [case["module"], case["cls"], "required-attribute-" + variant, xml_name], positions)
        # optional or required: a conforming value must be accepted
        i = minimal(cls)
        setattr(i, member, good_value(typ))
        expect_ok(i, "attribute %s=%r (type %s)" % (xml_name, good_value(typ), typ if not isinstance(typ, type) else typ.__name__),
                  [case["module"], case["cls"], "typed-attribute-valid", xml_name, "-", "root"])
        for lex in lexical_forms(typ):
            i = minimal(cls)
            setattr(i, member, lex)
            expect_ok(i, "attribute %s=%r (a legal lexical form of %s)" % (xml_name, lex, typ),
                      [case["module"], case["cls"], "typed-attribute-valid-form", xml_name, lex, "root"])
        for bad in bad_values(typ):
            def make(member=member, bad=bad):
                i = minimal(cls)
                setattr(i, member, bad)
                return i
            expect_raise(make, "attribute %s=%r violates type %s" % (xml_name, bad, typ if not isinstance(typ, type) else typ.__name__),
                         [case["module"], case["cls"], "typed-attribute-invalid", xml_name + "=" + bad], positions)
            expect_raise(make, "attribute %s=%r violates type %s (same string validated before where it is legal)" % (
                xml_name, bad, typ if not isinstance(typ, type) else typ.__name__),
                [case["module"], case["cls"], "typed-attribute-invalid-after-priming", xml_name + "=" + bad], [], prime_with=bad)
    # (2) typed text
    if cls.c_value_type:
        if "enumeration" not in cls.c_value_type:
            for lex in lexical_forms(cls.c_value_type.get("base", "string")):
                i = minimal(cls)
                i.text = lex
                expect_ok(i, "text %r (a legal lexical form of %r)" % (lex, cls.c_value_type),
                          [case["module"], case["cls"], "typed-text-valid-form", lex, "-", "root"])
        for bad in bad_texts(cls.c_value_type):
            def make(bad=bad):
                i = minimal(cls)
                i.text = bad
                return i
            expect_raise(make, "text %r violates %r" % (bad, cls.c_value_type), [case["module"], case["cls"], "typed-text-invalid", bad], positions)
            expect_raise(make, "text %r violates %r (same string validated before where it is legal)" % (bad, cls.c_value_type),
                         [case["module"], case["cls"], "typed-text-invalid-after-priming", bad], [], prime_with=bad)
    # (3) explicit occurrence bounds
    specs = {member: (ccls, is_list) for tag, member, ccls, is_list in schema.child_specs(cls)}
    for member, card in sorted(cls.c_cardinality.items()):
        if member not in specs or not isinstance(specs[member][0], type):
            continue
        ccls, is_list = specs[member]
        cmin, cmax = card.get("min"), card.get("max")
        if cmin:
            def make(member=member, cmin=cmin, is_list=is_list, ccls=ccls):
                i = minimal(cls)
                setattr(i, member, [minimal(ccls, 3) for _ in range(cmin - 1)] if is_list and cmin > 1 else ([] if is_list else None))
                return i
            expect_raise(make, "child %s below min %s" % (member, cmin), [case["module"], case["cls"], "below-min", member], positions)
        if cmax is not None:
            # (for a single-valued member the API still accepts a list; that is how "more than max" can be represented)
            try:
                n = int(cmax)
            except (TypeError, ValueError):
                n = None
            if n is not None:
                def make(member=member, n=n, ccls=ccls):
                    i = minimal(cls)
                    setattr(i, member, [minimal(ccls, 3) for _ in range(n + 1)])
                    return i
                expect_raise(make, "child %s above max %s" % (member, n), [case["module"], case["cls"], "above-max", member], positions)
        # within bounds must be accepted
        if is_list:
            i = minimal(cls)
            k = max(cmin or 0, 1)
            if cmax is not None:
                try:
                    k = min(k, int(cmax))
                except (TypeError, ValueError):
                    pass
            setattr(i, member, [minimal(ccls, 3) for _ in range(k)])
            expect_ok(i, "child %s x%d within bounds" % (member, k), [case["module"], case["cls"], "within-bounds", member, "-", "root"])
    # (4) the same bound at the level of a *parsed* message: a single-valued child (explicit max 1) repeated in the text
    import saml2_tophat
    from vlib import xmlkit as xk
    for member, card in sorted(cls.c_cardinality.items()):
        if member not in specs or not isinstance(specs[member][0], type) or specs[member][1]:
            continue
        if card.get("max") not in (1, "1"):
            continue
        ccls = specs[member][0]
        try:
            i = minimal(cls)
            setattr(i, member, minimal(ccls, 3))
            d = xk.Doc(i.to_string())
            kid = [c for c in d.root.children if (c.ns, c.local) == (ccls.c_namespace, ccls.c_tag)]
            if len(kid) != 1:
                continue
            twice = d.insert_after(kid[0], d.outer(kid[0])).b
        except Exception:
            hit("parsed_duplicate_not_buildable")
            continue
        try:
            parsed = saml2_tophat.create_class_from_xml_string(cls, twice)
        except Exception:
            hit("parsed_duplicate_refused_by_parser")      # refusing the text is a rejection too
            sigs.append([case["module"], case["cls"], "repeated-single-child-in-text", member, "refused-while-parsing"])
            continue
        if parsed is None:
            hit("parsed_duplicate_refused_by_parser")
            continue
        hit("reject_direction_parsed_text")
        sigs.append([case["module"], case["cls"], "repeated-single-child-in-text", member, "parsed"])
        r = validate(parsed)
        if r[0] == "ok":
            viol.append({"key": "C13/repeated-single-child-in-parsed-message-not-rejected",
                         "what": "%s: text with two <%s> children (max 1) parses and valid_instance returned %r" % (case["id"], ccls.c_tag, r[1]),
                         "detail": {"xml": twice.decode("utf-8", "replace")[:1500]}})
    uniq = {}
    for v in viol:
        uniq.setdefault(v["key"] + v["what"][:80], v)
    out = list(uniq.values())
    return {"outcome": "violations" if viol else "held", "nontrivial": True, "violations": out[:12], "counters": counters,
            "sigs": sigs, "evals": counters.get("accept_direction", 0) + counters.get("reject_direction", 0) + counters.get("reject_direction_nested", 0) + counters.get("reject_direction_parsed_text", 0) + counters.get("reject_direction_decorated", 0) + counters.get("parsed_duplicate_refused_by_parser", 0),
            "obs": {"attributes": len(cls.c_attributes), "cardinality_entries": len(cls.c_cardinality)}}


_pok = {}


def _parent_ok(pcls):
    if pcls not in _pok:
        try:
            _pok[pcls] = validate(minimal(pcls, 3))[0] == "ok"
        except Exception:
            _pok[pcls] = False
    return _pok[pcls]


def _xml(inst):
    try:
        return inst.to_string().decode("utf-8", "replace")[:2000]
    except Exception as exc:
        return "unserialisable: %r" % exc


def finalize(cases, results, tier, extras):
    tot = {}
    for r in results:
        for k, v in r.get("counters", {}).items():
            tot[k] = tot.get(k, 0) + v
    inc = []
    if len(cases) < 1000:
        inc.append("only %d element classes discovered" % len(cases))
    for need in ("accept_direction", "reject_direction", "reject_direction_nested"):
        if not tot.get(need):
            inc.append("counter %s is zero" % need)
    return {"inconclusive": inc, "coverage": {"classes": len(cases), "exhaustive": False,
                                              "table_entries": "every required attribute, every c_cardinality entry, every typed attribute/text of every class"}}
