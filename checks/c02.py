"""C02 - SP signature requirements decide acceptance exactly as documented.

Exhaustive table: 8 option settings x {R, A, RA, none signed} x {plain, encrypted} x
{all valid, each present signature corrupted in turn} (x maker: the real IdP or the
harness toolkit for the all-valid cells) x generated identities.
Oracle: independent truth table, both directions; driver log: an accepted cell has a
genuine successful verify event for every signature that is present.
"""
import itertools
import os
import random

from vlib import env, fed, xmlkit as xk, monitors, gen, mdgen

PROPERTY = "C02"
LEVEL = "exploration"
RULE = ("cells of the finite table (want_response_signed, want_assertions_signed, want_assertions_or_response_signed) x "
        "signed layout x plain/encrypted x corruption x maker, each run through Saml2Client.parse_authn_request_response; "
        "a cell is non-trivial when the response reached the SP's signature logic (accepted, or rejected by a "
        "signature-class exception); distinct = distinct cell tuples")
ASSUMPTIONS = ["libxmlsec1/OpenSSL as installed and the 500-line driver tools/xmlsec1_shim.c stand in for the xmlsec1 CLI",
               "fixture keys under fixtures/keys", "IdP metadata carries one signing certificate (k00)"]

OUT = {"id-req-1": "/"}
# ways in which a signature that is present can be invalid
HOWS = ["digest", "sigvalue", "content", "sigvalue-empty", "sigvalue-blank", "digest-empty", "sigvalue-truncated"]


def gen_cases(tier, seed):
    rng = random.Random(seed)
    cases = []
    n_ident = 1 if tier == "quick" else 6
    for wrs, was, waors in itertools.product((0, 1), repeat=3):
        for layout in ("none", "R", "A", "RA"):
            corrs = ["valid"] + (["corrupt-R"] if "R" in layout else []) + (["corrupt-A"] if "A" in layout else [])
            for enc in (0, 1):
                for corr in corrs:
                    makers = ("idp", "kit") if corr == "valid" else ("kit",)
                    hows = [""] if corr == "valid" else HOWS
                    for maker, how in itertools.product(makers, hows):
                        for k in range(n_ident):
                            alg = rng.choice(sorted(xk.SIG_ALGS)) if maker == "kit" else "rsa-sha1"
                            cid = "o%d%d%d-%s-%s-%s%s-%s-%d" % (wrs, was, waors, layout, "enc" if enc else "plain", corr, ":" + how if how else "", maker, k)
                            cases.append({"id": cid, "sig": [wrs, was, waors, layout, enc, corr, how, maker],
                                          "opts": [wrs, was, waors], "layout": layout, "enc": enc, "corr": corr,
                                          "maker": maker, "how": how, "alg": alg,
                                          "identity": gen.identity(random.Random("%s/%s" % (seed, cid)))})
    # the same table for issuers the SP's metadata knows but holds no signing key for: a signature that is present cannot be verified,
    # so it can neither be ignored nor count as meeting a requirement
    for mdkeys in sorted(MDKEYS):
        for wrs, was, waors in itertools.product((0, 1), repeat=3):
            for layout in ("none", "R", "A", "RA"):
                for enc in (0, 1):
                    cid = "o%d%d%d-%s-%s-issuer:%s" % (wrs, was, waors, layout, "enc" if enc else "plain", mdkeys)
                    cases.append({"id": cid, "sig": [wrs, was, waors, layout, enc, "valid", "", "kit", mdkeys], "opts": [wrs, was, waors], "layout": layout, "enc": enc,
                                  "corr": "valid", "maker": "kit", "how": "", "alg": "rsa-sha256", "mdkeys": mdkeys,
                                  "identity": gen.identity(random.Random("%s/%s" % (seed, cid)))})
    # an SP that cannot open the EncryptedAssertion (no encryption key pair of its own, or another one than the IdP encrypted to): there is
    # nothing it could have checked, so there is nothing to accept, whatever the options say
    for spenc in ("no-keypair", "other-keypair"):
        for wrs, was, waors in itertools.product((0, 1), repeat=3):
            for layout in ("none", "R", "A", "RA"):
                cid = "o%d%d%d-%s-enc-valid-kit-sp-cannot-open:%s" % (wrs, was, waors, layout, spenc)
                cases.append({"id": cid, "sig": [wrs, was, waors, layout, 1, "valid", "", "kit", "cannot-open:" + spenc], "opts": [wrs, was, waors], "layout": layout,
                              "enc": 1, "corr": "valid", "maker": "kit", "how": "", "alg": "rsa-sha256", "spenc": spenc,
                              "identity": gen.identity(random.Random("%s/%s" % (seed, cid)))})
    # the other crypto backend the package ships (crypto_backend = "XMLSecurity": verification answers True/False instead of raising); plain
    # assertions only - that backend cannot decrypt
    for wrs, was, waors in itertools.product((0, 1), repeat=3):
        for layout in ("none", "R", "A", "RA"):
            corrs = ["valid"] + (["corrupt-R"] if "R" in layout else []) + (["corrupt-A"] if "A" in layout else [])
            for corr in corrs:
                for how in ([""] if corr == "valid" else (HOWS if tier == "thorough" else HOWS[:2])):
                    cid = "o%d%d%d-%s-plain-%s%s-kit-backend:XMLSecurity" % (wrs, was, waors, layout, corr, ":" + how if how else "")
                    cases.append({"id": cid, "sig": [wrs, was, waors, layout, 0, corr, how, "kit", "backend:XMLSecurity"], "opts": [wrs, was, waors], "layout": layout,
                                  "enc": 0, "corr": corr, "maker": "kit", "how": how, "alg": "rsa-sha256", "backend": "XMLSecurity",
                                  "identity": gen.identity(random.Random("%s/%s" % (seed, cid)))})
    # the same requirements at the client's other response entry points (answers to attribute and authentication queries, over SOAP): what the
    # SP wants signed does not depend on which question the response answers
    for entry in ("attribute_query_response", "authn_query_response"):
        for wrs, was, waors in itertools.product((0, 1), repeat=3):
            for layout in ("none", "R", "A", "RA"):
                for corr in ("valid", "content-edited"):
                    cid = "o%d%d%d-%s-plain-%s-idp-via-%s" % (wrs, was, waors, layout, corr, entry)
                    cases.append({"id": cid, "sig": [wrs, was, waors, layout, 0, corr, "", "idp", "via:" + entry], "opts": [wrs, was, waors], "layout": layout, "enc": 0,
                                  "corr": corr, "maker": "idp", "how": "", "alg": "rsa-sha1", "entry": entry,
                                  "identity": gen.identity(random.Random("%s/%s" % (seed, cid)))})
    # a signature that is present but is not the element's own (the mutation catalogue of C01's wrapping and signature families applied to
    # the assertion of an A-signed message): it neither meets a requirement nor may it be ignored
    n_wrap = 170 if tier == "quick" else 400          # (the catalogue has about 160 entries for this target: every one of them, in order)
    for wi in range(n_wrap):
        for opts in (((0, 1, 0), (0, 0, 1)) if tier == "quick" else ((0, 1, 0), (0, 0, 1), (1, 1, 0), (0, 1, 1))):      # (with nothing required an unsigned forged assertion is acceptable: not judged here)
            cid = "o%d%d%d-A-plain-wrapped-%03d-kit" % (opts + (wi,))
            cases.append({"id": cid, "sig": [opts[0], opts[1], opts[2], "A", 0, "wrapped", wi % 8, "kit"], "opts": list(opts), "layout": "A", "enc": 0, "corr": "wrapped",
                          "maker": "kit", "how": "", "alg": "rsa-sha256", "wrap_index": wi, "identity": gen.identity(random.Random("%s/wrapped/%d" % (seed, wi)))})
    # the class of the configuration object the client is built from (SPConfig, plain Config, IdPConfig for an entity that is both)
    for cc in ("Config", "IdPConfig"):
        for wrs, was, waors in itertools.product((0, 1), repeat=3):
            for layout in ("none", "R", "A", "RA"):
                cid = "o%d%d%d-%s-plain-valid-idp-built-from-%s" % (wrs, was, waors, layout, cc)
                cases.append({"id": cid, "sig": [wrs, was, waors, layout, 0, "valid", "", "idp", cc], "opts": [wrs, was, waors], "layout": layout, "enc": 0, "corr": "valid",
                              "maker": "idp", "how": "", "alg": "rsa-sha1", "config_class": cc, "identity": gen.identity(random.Random("%s/%s" % (seed, cid)))})
    # options that are left out of a configuration: what such an SP does must not depend on which SPs were built before it in the same
    # process (reference: the same configuration in a fresh interpreter)
    names = ["want_response_signed", "want_assertions_signed", "want_assertions_or_response_signed"]
    k = 0
    for given in itertools.product((None, 0, 1), repeat=3):
        if None not in given:
            continue
        for order in ("explicit-true-first", "explicit-false-first", "mixed-first"):
            if tier == "quick" and (k % 3) != ("explicit-true-first", "explicit-false-first", "mixed-first").index(order) and given != (None, None, None):
                k += 1
                continue
            k += 1
            cid = "omitted-%s-after-%s" % ("".join("x" if g is None else str(g) for g in given), order)
            cases.append({"id": cid, "sig": ["omitted-options", list(given), order], "kind": "omitted", "given": list(given), "order": order})
    return cases


def sp_with(given):
    kw = {n: bool(v) for n, v in zip(("want_response_signed", "want_assertions_signed", "want_assertions_or_response_signed"), given) if v is not None}
    spc = fed.sp_conf(**kw)
    idc = fed.idp_conf()
    return fed.make_sp(spc, [fed.metadata_of(idc)]), fed.make_idp(idc, [fed.metadata_of(spc)])


def acceptance_vector(given):
    """which of the four signed layouts (valid, plain) an SP configured with only the given options accepts"""
    sp, idp = sp_with(given)
    out = []
    for layout in ("none", "R", "A", "RA"):
        xml = fed.issue(idp, {"givenName": ["Ann"]}, sign_response="R" in layout, sign_assertion="A" in layout)
        r, e = fed.deliver(sp, xml, dict(OUT))
        out.append(int(r is not None))
    return out


def run_omitted(case, ctx):
    import json
    import subprocess
    import sys
    given = case["given"]
    # reference from a fresh interpreter (nothing was configured there before)
    code = "import json; from checks import c02; print('VECTOR ' + json.dumps(c02.acceptance_vector(%r)))" % (given,)
    p = subprocess.run([sys.executable] + (["-O"] if sys.flags.optimize else []) + ["-W", "ignore", "-c", code], cwd=env.VERIF, stdout=subprocess.PIPE, stderr=subprocess.STDOUT,
                       env=dict(__import__("os").environ, PYTHONPATH=env.VERIF), timeout=600)
    lines = [l for l in p.stdout.decode("utf-8", "replace").splitlines() if l.startswith("VECTOR ")]
    if not lines:
        return {"outcome": "HARNESS-ERROR", "error": "no reference vector: %s" % p.stdout.decode("utf-8", "replace")[-400:]}
    ref = json.loads(lines[-1][7:])
    # history in this process: SPs that state every option explicitly, in some order
    combos = list(itertools.product((0, 1), repeat=3))
    if case["order"] == "explicit-true-first":
        combos.sort(key=lambda c: -sum(c))
    elif case["order"] == "explicit-false-first":
        combos.sort(key=lambda c: sum(c))
    else:
        random.Random(str(given)).shuffle(combos)
    for c in combos:
        sp_with(c)
    got = acceptance_vector(given)
    viol = []
    if got != ref:
        viol.append({"key": "C02/omitted-option-takes-its-value-from-an-earlier-sp",
                     "what": "SP configured with %r (None = option left out) built after SPs with explicit settings (%s) accepts layouts none/R/A/RA as %r; the same "
                             "configuration in a fresh interpreter: %r" % (dict(zip(("response", "assertions", "either"), given)), case["order"], got, ref)})
    return {"outcome": "held" if not viol else "violations", "nontrivial": True, "violations": viol, "counters": {"omitted_option_histories": 1, "accepted": sum(got)}}


# IdP entries of the SP's metadata without a key usable for verifying signatures (the issuer still signs with k00)
MDKEYS = {"no-key-descriptor": [], "encryption-only-key": [("encryption", 0)], "other-encryption-only-key": [("encryption", 4)],
          # an issuer in the middle of a key roll-over: several signing certificates, the one in use first / in the middle / last
          "several-signing-keys:used-first": [("signing", 0), ("signing", 5), ("signing", 6)],
          "several-signing-keys:used-middle": [("signing", 5), ("signing", 0), ("signing", 6)],
          "several-signing-keys:used-last": [("signing", 5), ("signing", 6), ("signing", 0)]}
B_REDIR = "urn:oasis:names:tc:SAML:2.0:bindings:HTTP-Redirect"


def setup_worker(ctx):
    ctx.fedcache = fed.Cache()


def _sp(ctx, opts, mdkeys=None, config_class=None, spenc=None, backend=None):
    def build():
        if backend == "XMLSecurity":
            import sys
            sd = os.path.join(os.path.dirname(os.path.dirname(os.path.abspath(__file__))), "vlib", "standins")
            if sd not in sys.path:
                sys.path.insert(0, sd)       # `import xmlsec` inside CryptoBackendXMLSecurity finds the stand-in (see its docstring)
        from saml2_tophat.config import Config, IdPConfig
        cls = {"Config": Config, "IdPConfig": IdPConfig}.get(config_class)
        spc = fed.sp_conf(want_response_signed=bool(opts[0]), want_assertions_signed=bool(opts[1]),
                          want_assertions_or_response_signed=bool(opts[2]), enc_keys={None: (2,), "no-keypair": (), "other-keypair": (5,)}[spenc])
        if backend:
            spc["crypto_backend"] = backend
        idc = fed.idp_conf()
        idpmd = fed.metadata_of(idc)
        if mdkeys is not None:
            idpmd = mdgen.entity({"eid": fed.IDP_EID, "idp": {"keys": MDKEYS[mdkeys], "sso": [(B_REDIR, fed.SSO_REDIRECT)]}})
        return fed.make_sp(spc, [idpmd], config_class=cls), fed.make_idp(idc, [fed.metadata_of(spc)])
    return ctx.fedcache.get("pair", [opts, mdkeys, config_class, spenc, backend], build)


def corrupt_signature(text, owner_ns, owner_local, how):
    """Invalidate the enveloped signature of the (single) element owner without touching
    anything another signature made earlier covers... the caller orders the steps."""
    d = xk.Doc(text)
    owner = d.find(owner_ns, owner_local)[0]
    sig = owner.child(xk.DS, "Signature")
    if how.startswith("sigvalue"):
        n = sig.child(xk.DS, "SignatureValue")
    else:
        n = sig.find(xk.DS, "DigestValue")[0]
    if how.endswith("-empty"):
        return d._splice(n.stag_end, n.etag_start, "").text()
    if how.endswith("-blank"):
        return d._splice(n.stag_end, n.etag_start, " \n ").text()
    if how.endswith("-truncated"):
        return d._splice(n.stag_end, n.etag_start, d.inner(n)[:40]).text()
    val = d.inner(n).decode()
    i = next(j for j, c in enumerate(val) if c.isalnum())
    flipped = val[:i] + ("B" if val[i] != "B" else "C") + val[i + 1:]
    return d._splice(n.stag_end, n.etag_start, flipped).text()


def build_message(case, idp):
    layout, enc, corr = case["layout"], case["enc"], case["corr"]
    R, A = "R" in layout, "A" in layout
    ident = case["identity"]
    if case["maker"] == "idp":
        xml = fed.issue(idp, ident, sign_response=R, sign_assertion=A, encrypt_assertion=bool(enc))
        d = xk.Doc(xml)
        return xml, d.root.attrs["ID"], None
    xml = fed.issue(idp, ident, sign_response=False, sign_assertion=False)
    d = xk.Doc(xml)
    rid = d.root.attrs["ID"]
    aid = d.find(xk.SAML, "Assertion")[0].attrs["ID"]
    kf = fed.key(0)[0]
    if A:
        xml = xk.sign_element(xml, xk.SAML, "Assertion", aid, kf, case["alg"], fed.cert_body(0))
        if corr == "corrupt-A":
            if case["how"] == "content":
                d = xk.Doc(xml)
                nid = d.find(xk.SAML, "NameID")[0]
                xml = d.set_text(nid, "attacker-" + d.inner(nid).decode()).text()
            else:
                xml = corrupt_signature(xml, xk.SAML, "Assertion", case["how"])
    if enc:
        xml = xk.encrypt_assertions(xml, fed.key(2)[1])
    if R:
        xml = xk.sign_element(xml, xk.SAMLP, "Response", rid, kf, case["alg"], fed.cert_body(0))
        if corr == "corrupt-R":
            if case["how"] == "content":
                d = xk.Doc(xml)
                st = d.find(xk.SAMLP, "StatusCode")[0]
                # content edit outside the assertion: add a harmless attribute to Status
                xml = d.set_attr(st.parent, "verif", "edited").text()
            else:
                xml = corrupt_signature(xml, xk.SAMLP, "Response", case["how"])
    return xml, rid, aid


def expected_accept(case):
    wrs, was, waors = case["opts"]
    R, A = "R" in case["layout"], "A" in case["layout"]
    ok = (not wrs or R) and (not was or A) and (not waors or R or A)
    if case.get("mdkeys") and not case["mdkeys"].startswith("several-signing-keys") and (R or A):
        return False          # no key to verify the present signature with
    if case.get("spenc"):
        return False          # no assertion the SP could have looked at
    if case.get("entry"):
        return ok and (case["corr"] == "valid" or case["layout"] == "none")
    if case["corr"] == "wrapped":
        return None           # never with the attacker's content; refusal is always right (judged in run_case)
    return ok and case["corr"] == "valid"


def run_case(case, ctx):
    if case.get("kind") == "omitted":
        return run_omitted(case, ctx)
    sp, idp = _sp(ctx, case["opts"], case.get("mdkeys"), case.get("config_class"), case.get("spenc"), case.get("backend"))
    if case.get("backend") and type(sp.sec.crypto).__name__ != "CryptoBackend" + case["backend"]:
        return {"outcome": "HARNESS-ERROR", "error": "the SP was not built with the %s backend but with %s" % (case["backend"], type(sp.sec.crypto).__name__)}
    wrapped_name = None
    if case["corr"] == "wrapped":
        # the catalogue is made once per worker, from one A-signed message (building it anew for every cell made the quick tier quadratic)
        from vlib import xmlmut as xm
        cat = getattr(ctx, "wrapped_catalogue", None)
        if cat is None:
            xml0, rid0, aid0 = build_message(case, idp)
            cat = [(n_, m_) for n_, f_, m_ in xm.mutants(xml0, xk.SAML, "Assertion", families=("xsw", "sig", "ref", "id")) if m_ is not None]
            ctx.wrapped_catalogue = cat
        if not cat:
            return {"outcome": "HARNESS-ERROR", "error": "no wrapping mutant could be built"}
        wrapped_name, xml = cat[case["wrap_index"] % len(cat)]
        rid = aid = None
    else:
        xml, rid, aid = build_message(case, idp)
    ctx.mark()
    if case.get("entry"):
        from saml2_tophat import BINDING_SOAP
        if case["corr"] == "content-edited":
            # (after signing: whatever signature is there no longer matches)
            d0 = xk.Doc(xml)
            av = d0.find(xk.SAML, "AttributeValue")[0]
            xml = d0.set_text(av, "edited-" + d0.inner(av).decode("utf-8")).text()
        body = xml[xml.index("?>") + 2:] if xml.startswith("<?xml") else xml
        wire = '<ns0:Envelope xmlns:ns0="http://schemas.xmlsoap.org/soap/envelope/"><ns0:Body>%s</ns0:Body></ns0:Envelope>' % body
        try:
            resp, exc = getattr(sp, "parse_" + case["entry"])(wire, BINDING_SOAP), None
        except Exception as exc_:
            resp, exc = None, exc_
    else:
        resp, exc = fed.deliver(sp, xml, dict(OUT))
    evs = [e for e in ctx.events() if not e.get("case", "").startswith("harness:")]
    accepted = resp is not None and exc is None
    want = expected_accept(case)
    viol = []
    oks = [e for e in evs if monitors.genuine_ok(e)]
    ok_ids = set(e.get("node_id") for e in oks)
    excname = type(exc).__name__ if exc is not None else ("None-returned" if resp is None else "")
    outcome = "accept" if accepted else "reject:" + excname
    if case["corr"] == "wrapped":
        from vlib import xmlmut as xm
        ident_ = fed.identity_of(resp) if accepted else {}
        evil = accepted and (xm.EVIL_VALUE in repr(ident_.get("ava")) or xm.EVIL_NAMEID in repr(ident_.get("name_id")))
        if evil:
            viol.append({"key": "C02/signature-of-another-element-met-or-waived-the-requirement", "what": "cell %s mutant %s: accepted with the attacker's content %r" % (
                case["sig"], wrapped_name, ident_.get("ava"))})
        return {"outcome": outcome + ":" + (wrapped_name or "").split(":")[0], "nontrivial": True, "violations": viol,
                "counters": {"wrapped_cells": 1, "accepted": int(accepted), "rejected_sigver": int(not accepted), "rejected_other": 0,
                             "verify_ok_events": len(oks), "verify_events": len([e for e in evs if e.get("cmd") == "verify"]), "decrypt_events": 0},
                "obs": {"mutant": wrapped_name}}
    if accepted != want:
        key = "false-accept" if accepted else "false-reject"
        if accepted and case.get("mdkeys") and case["layout"] != "none":
            key = "signature-accepted-without-a-key-to-verify-it"
        elif accepted and case.get("spenc"):
            key = "accepted-although-no-assertion-could-be-opened"
        elif accepted and case["corr"] != "valid":
            key = "invalid-signature-ignored"
        elif accepted:
            key = "missing-required-signature-accepted"
        viol.append({"key": "C02/" + key,
                     "what": "cell %s: expected %s, observed %s" % (case["sig"], "accept" if want else "reject", outcome),
                     "detail": {"exception": repr(exc)[:300]}})
    if accepted:
        ident = fed.identity_of(resp)
        # every signature present must have been genuinely verified
        # (with the other backend the verification does not go through the library's tool invocation; the stand-in's own verdict is genuine)
        if "R" in case["layout"] and rid not in ok_ids and not case.get("backend"):
            viol.append({"key": "C02/accepted-without-verify-event",
                         "what": "accepted, response signature present but no genuine OK verify for %s" % rid})
        if "A" in case["layout"] and aid is not None and aid not in ok_ids and not case.get("backend"):
            viol.append({"key": "C02/accepted-without-verify-event",
                         "what": "accepted, assertion signature present but no genuine OK verify for %s" % aid})
        exp_ava = gen.expected_ava(case["identity"])
        # (an authentication-query response is not read for attributes)
        if ident.get("ava") != exp_ava and case["corr"] != "content-edited" and case.get("entry") != "authn_query_response":
            viol.append({"key": "C02/accepted-identity-differs", "what": "ava %r != %r" % (ident.get("ava"), exp_ava)})
    import saml2_tophat.sigver as sv
    sig_reject = exc is not None and isinstance(exc, sv.SigverError)
    return {"outcome": outcome, "nontrivial": accepted or sig_reject, "violations": viol,
            "counters": {"verify_ok_events": len(oks), "verify_events": len([e for e in evs if e.get("cmd") == "verify"]),
                         "decrypt_events": len([e for e in evs if e.get("cmd") == "decrypt"]),
                         "accepted": int(accepted), "rejected_sigver": int(sig_reject),
                         "rejected_other": int(not accepted and not sig_reject)},
            "obs": {"expected": "accept" if want else "reject", "events": [monitors.slim(e) for e in evs][:8]}}


def finalize(cases, results, tier, extras):
    cells = set(tuple(c["sig"][:6]) for c in cases if c.get("kind") != "omitted")
    done = set()
    by = {c["id"]: c for c in cases}
    for r in results:
        if r.get("outcome") != "HARNESS-ERROR" and by[r["id"]].get("kind") != "omitted":
            done.add(tuple(by[r["id"]]["sig"][:6]))
    inc = []
    if done != cells:
        inc.append("%d table cells produced no result" % len(cells - done))
    if not any(r.get("outcome") == "accept" for r in results):
        inc.append("no cell was accepted - the accept direction was never observed")
    return {"coverage": {"exhaustive": done == cells, "table_cells": len(cells), "table_cells_run": len(done)},
            "inconclusive": inc}
