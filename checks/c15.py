"""C15 - redirect-binding signatures bind the exact query and the signer's own key.

(a) inputs: messages x RelayStates x all five algorithms signed with
    Entity.apply_binding(HTTP-Redirect, sign=True); independent RSA verification with the
    `cryptography` package over the raw query octets; single-parameter mutations;
    verify_redirect_signature must agree with the independent verdict for every
    (URL, certificate, mutation).
(b) histories: every sequence (bounded length) of {obtain signer, sign with the signer
    held, apply_binding, verify the other's URL} by entities with different keys.
(c) schedules: threads signing concurrently; sys.monitoring PY_START events on
    RSACrypto.get_signer and RSASigner.sign are gates at which a controller enforces
    every interleaving of the critical steps (2 threads: 6, 3 threads: 90), then
    free-running threads with a tiny switch interval.
Oracle: every URL verifies under its signer's certificate and under no other.
"""
import base64
import itertools
import random
import sys
import threading
import urllib.parse as up

from vlib import env, fed, gen

PROPERTY = "C15"
LEVEL = "exploration"
RULE = ("one execution = one signed URL checked against all candidate certificates (inputs), one history of obtain/sign/bind/verify steps "
        "(histories), or one enforced interleaving of the critical steps of concurrently signing threads (schedules); non-trivial = at least one "
        "signature was produced and verified independently; distinct = (algorithm, message kind, RelayState class, mutation) / history / interleaving")
ASSUMPTIONS = ["independent verification uses cryptography's RSA PKCS#1 v1.5 verify over the raw query octets SAMLRequest|SAMLResponse, RelayState, SigAlg",
               "the critical steps of a signing operation are entry into RSACrypto.get_signer and entry into RSASigner.sign (where the key is bound and used)"]

from saml2_tophat import BINDING_HTTP_REDIRECT  # noqa: E402

ALGS = {
    "rsa-sha1": "http://www.w3.org/2000/09/xmldsig#rsa-sha1",
    "rsa-sha224": "http://www.w3.org/2001/04/xmldsig-more#rsa-sha224",
    "rsa-sha256": "http://www.w3.org/2001/04/xmldsig-more#rsa-sha256",
    "rsa-sha384": "http://www.w3.org/2001/04/xmldsig-more#rsa-sha384",
    "rsa-sha512": "http://www.w3.org/2001/04/xmldsig-more#rsa-sha512",
}
ENT_KEYS = {"sp": 1, "idp": 0, "sp2": 3}


def _hash(alg_uri):
    from cryptography.hazmat.primitives import hashes
    return {"sha1": hashes.SHA1, "sha224": hashes.SHA224, "sha256": hashes.SHA256, "sha384": hashes.SHA384, "sha512": hashes.SHA512}[alg_uri.rsplit("-", 1)[-1]]()


_pub = {}


def pubkey(i):
    if i not in _pub:
        from cryptography import x509
        with open(fed.key(i)[1], "rb") as f:
            _pub[i] = x509.load_pem_x509_certificate(f.read()).public_key()
    return _pub[i]


NON_RSA_CERTS = (15, 16, 17)      # fixtures k15 (EC P-256), k16 (Ed25519), k17 (DSA)


def raw_params(url):
    q = up.urlsplit(url).query
    return [tuple(p.split("=", 1)) if "=" in p else (p, "") for p in q.split("&") if p]


def independent_verify(url_or_params, cert_i):
    """SAML bindings 3.4.4.1: the signature covers the raw octets typ=..&RelayState=..&SigAlg=.. as sent"""
    from cryptography.hazmat.primitives.asymmetric import padding
    rp = raw_params(url_or_params) if isinstance(url_or_params, str) else url_or_params
    d = dict(rp)
    typ = "SAMLRequest" if "SAMLRequest" in d else "SAMLResponse"
    if "SAMLRequest" in d and "SAMLResponse" in d:
        return False        # two messages in one query: the signature cannot say which of them it is about
    if "Signature" not in d or "SigAlg" not in d or typ not in d:
        return False
    alg = up.unquote_plus(d["SigAlg"])
    if alg not in ALGS.values():
        return False
    parts = ["%s=%s" % (k, d[k]) for k in (typ, "RelayState", "SigAlg") if k in d]
    octets = "&".join(parts).encode("ascii")
    try:
        sig = base64.b64decode(up.unquote_plus(d["Signature"]))
        pubkey(cert_i).verify(sig, octets, padding.PKCS1v15(), _hash(alg))
        return True
    except Exception:
        return False


def library_verify(entity, params, cert_i):
    from saml2_tophat.sigver import verify_redirect_signature
    try:
        return bool(verify_redirect_signature(dict(params), entity.sec.sec_backend, fed.cert_body(cert_i)))
    except Exception:
        return False


def signed_url(entity, msg, relay, alg, response=False, dest=None):
    info = entity.apply_binding(BINDING_HTTP_REDIRECT, msg, dest or fed.SSO_REDIRECT, relay, response=response, sign=True, sigalg=ALGS[alg])
    return dict(info["headers"])["Location"]


# ------------------------------------------------------------------ cases

def gen_cases(tier, seed):
    rng = random.Random(seed)
    cases = []
    # (the last ones: every character that some percent-encoders escape and others leave alone - the signer's and the verifier's must agree)
    relays = ["", "/next", "a&b=c", "&Signature=AAAA", "ü ö", "line\nbreak", "%41", "+", "a~b-._", "safe*'()!", "sub;delims,$@:/?[]"]
    for alg in sorted(ALGS):
        for who in ("sp", "idp"):
            rs = relays if tier == "thorough" else [relays[0]] + rng.sample(relays[1:8], 2) + [relays[8 + (len(cases) % 3)]]
            for ri, relay in enumerate(rs):
                cases.append({"id": "inputs-%s-%s-r%d" % (alg, who, ri), "sig": ["inputs", alg, who, ri], "kind": "inputs", "alg": alg, "who": who, "relay": relay})
    depth = 4 if tier == "quick" else 5
    steps = history_steps(("sp", "idp"), ["rsa-sha1"] if tier == "quick" else ["rsa-sha1", "rsa-sha256"])
    for i in range(len(steps)):
        cases.append({"id": "histories-d%d-first%02d" % (depth, i), "sig": ["histories", depth, i], "kind": "histories", "first": i, "depth": depth,
                      "algs": ["rsa-sha1"] if tier == "quick" else ["rsa-sha1", "rsa-sha256"]})
    for k in range(4 if tier == "quick" else 24):
        cases.append({"id": "histories-random-%d" % k, "sig": ["histories-random", k], "kind": "histories-random", "k": k, "len": 60 if tier == "quick" else 400})
    # entry-level gates (start, get_signer, sign): every interleaving of 2 threads, and of 3 threads
    # entities built from the SAME key_file / cert_file paths whose content was replaced in between (key roll-over)
    for k in range(2 if tier == "quick" else 6):
        cases.append({"id": "key-rollover-%d" % k, "sig": ["key-rollover", k], "kind": "rollover", "k": k})
        cases.append({"id": "entity-churn-%d" % k, "sig": ["churn", k], "kind": "churn", "k": k, "own_worker": True, "generations": 12 if tier == "quick" else 40, "width": 6})
    cases.append({"id": "schedules-2-threads", "sig": ["schedules", 2], "kind": "schedules", "threads": 2})
    cases.append({"id": "schedules-3-threads", "sig": ["schedules", 3], "kind": "schedules", "threads": 3, "limit": 400 if tier == "quick" else 100000})
    # line-level gates inside get_signer/sign: 2 threads, preemption bounded
    cases.append({"id": "schedules-2-threads-lines", "sig": ["schedules", 2, "lines"], "kind": "schedules", "threads": 2, "lines": True,
                  "bound": 2 if tier == "quick" else 4, "limit": 600 if tier == "quick" else 20000})
    if tier == "thorough":
        cases.append({"id": "schedules-3-threads-lines", "sig": ["schedules", 3, "lines"], "kind": "schedules", "threads": 3, "lines": True, "bound": 2, "limit": 20000})
    for k in range(2 if tier == "quick" else 8):
        cases.append({"id": "free-running-%d" % k, "sig": ["free-running", k], "kind": "free", "k": k, "threads": 4, "iters": 60 if tier == "quick" else 400})
    # the verifying side: URLs of two signers checked under both certificates by several threads at once (yields injected), and verification
    # histories that contain a certificate that cannot be read
    # signing and verifying after the binding layer has been used for other things in the same process (module-level tables are shared)
    for pk, preface in enumerate(PREFACES):
        for who in ("sp", "idp"):
            cases.append({"id": "after-%s-%s" % (preface, who), "sig": ["after-traffic", preface, who], "kind": "inputs", "alg": ["rsa-sha256", "rsa-sha1"][pk % 2], "who": who,
                          "relay": "rs", "preface": preface})
    for k in range(3 if tier == "quick" else 20):
        cases.append({"id": "verify-threads-%d" % k, "sig": ["verify-threads", k], "kind": "verify-threads", "own_worker": True, "all_envs": True, "k": k, "rounds": 12 if tier == "quick" else 60})
    for k in range(2 if tier == "quick" else 10):
        cases.append({"id": "verify-history-bad-certificate-%d" % k, "sig": ["verify-history", k], "kind": "verify-history", "k": k})
    return cases


def history_steps(ents, algs):
    steps = []
    for e in ents:
        for a in algs:
            steps.append(("get", e, a))
            steps.append(("bind", e, a))
        steps.append(("sign", e))
        steps.append(("verify-other", e))
    return steps


def setup_worker(ctx):
    spc = fed.sp_conf()
    idc = fed.idp_conf()
    sp2c = fed.sp_conf(eid=fed.SP2_EID, key_i=3, enc_keys=())
    idpmd = fed.metadata_of(idc)
    ctx.ents = {"sp": fed.make_sp(spc, [idpmd]), "idp": fed.make_idp(idc, [fed.metadata_of(spc)]), "sp2": fed.make_sp(sp2c, [idpmd])}
    rid, req = ctx.ents["sp"].create_authn_request(fed.SSO_REDIRECT)
    ctx.req = "%s" % req
    ctx.resp = fed.issue(ctx.ents["idp"], {"givenName": ["Ann"]}, sign_response=False)
    rid, req2 = ctx.ents["sp2"].create_authn_request(fed.SSO_REDIRECT)
    ctx.req2 = "%s" % req2


def check_url(url, owner, viol, what, counters, entity=None):
    """the URL must verify under the owner's certificate and under no other"""
    counters["urls_checked"] = counters.get("urls_checked", 0) + 1
    ok = []
    for i in range(12):
        if independent_verify(url, i):
            ok.append(i)
    want = [ENT_KEYS[owner]]
    if ok != want:
        key = "C15/url-signed-with-another-entitys-key" if ok and ok != want else "C15/signed-url-does-not-verify-under-signers-certificate"
        viol.append({"key": key, "what": "%s: URL requested by %s (k%02d) verifies under %s" % (what, owner, want[0], ["k%02d" % i for i in ok]),
                     "detail": {"url": url[:600]}})
        return False
    return True


PREFACES = ["artifact-redirect", "artifact-redirect-with-relaystate", "signed-response-redirect", "post-form", "soap", "unsigned-redirect", "artifact-binding"]


def run_preface(ctx, who, preface):
    """other, legitimate uses of the encoders by the same entity before it signs: none of them may change what a later signature covers"""
    from saml2_tophat import BINDING_HTTP_POST, BINDING_SOAP, BINDING_HTTP_ARTIFACT
    ent = ctx.ents[who]
    art = "AAQAAMFbLinlXaCM+FIxiDwGOLAy2T71gbpO7ZhNzAgEANlB90ECfpNEVLg="
    if preface == "artifact-redirect":
        ent.use_http_get(art, fed.SSO_REDIRECT, "", typ="SAMLart")
    elif preface == "artifact-redirect-with-relaystate":
        ent.use_http_get(art, fed.SSO_REDIRECT + "?x=1", "rs-art", typ="SAMLart")
    elif preface == "signed-response-redirect":
        signed_url(ctx.ents["idp"], ctx.resp, "r", "rsa-sha512", response=True)
    elif preface == "post-form":
        ent.apply_binding(BINDING_HTTP_POST, ctx.req, fed.SSO_POST, "rs")
    elif preface == "soap":
        ent.apply_binding(BINDING_SOAP, ctx.req, fed.SSO_POST)
    elif preface == "unsigned-redirect":
        ent.apply_binding(BINDING_HTTP_REDIRECT, ctx.req, fed.SSO_REDIRECT, "rs")
    elif preface == "artifact-binding":
        ent.apply_binding(BINDING_HTTP_ARTIFACT, art, fed.SSO_REDIRECT, "rs")


def run_inputs(case, ctx, viol, counters, sigs):
    if case.get("preface"):
        try:
            run_preface(ctx, case["who"], case["preface"])
            counters["prefaces_run"] = counters.get("prefaces_run", 0) + 1
        except Exception as exc:
            counters["preface_raised:%s:%s" % (case["preface"], type(exc).__name__)] = 1
    ent = ctx.ents[case["who"]]
    is_resp = case["who"] == "idp"
    msg = ctx.resp if is_resp else ctx.req
    url = signed_url(ent, msg, case["relay"], case["alg"], response=is_resp)
    check_url(url, case["who"], viol, "alg %s relay %r" % (case["alg"], case["relay"]), counters)
    params = dict((k, up.unquote_plus(v)) for k, v in raw_params(url))
    typ = "SAMLResponse" if is_resp else "SAMLRequest"
    other_alg = ALGS["rsa-sha256" if case["alg"] != "rsa-sha256" else "rsa-sha1"]
    muts = {"unchanged": dict(params), "reordered": dict(reversed(list(params.items())))}
    m = dict(params); v = m[typ]; m[typ] = v[:10] + ("A" if v[10] != "A" else "B") + v[11:]; muts["message-changed"] = m
    m = dict(params); m["RelayState"] = (m.get("RelayState", "") + "x"); muts["relaystate-changed-or-added"] = m
    if "RelayState" in params:
        m = dict(params); del m["RelayState"]; muts["relaystate-removed"] = m
    # values that differ from the signed ones only in something a text-normalising layer would fold away
    rs = params.get("RelayState", "")
    for nm, val in (("trailing-lf", rs + "\n"), ("trailing-crlf", rs + "\r\n"), ("trailing-blank", rs + " "), ("leading-blank", " " + rs),
                    ("lf-to-crlf", rs.replace("\n", "\r\n")), ("lf-to-ls", rs.replace("\n", "\u2028")), ("crlf-to-lf", rs.replace("\r\n", "\n")),
                    ("case-swapped", rs.swapcase()), ("nfd", __import__("unicodedata").normalize("NFD", rs)), ("nfkc", __import__("unicodedata").normalize("NFKC", rs)),
                    ("tab-to-blank", rs.replace("\t", " "))):
        if val != rs:
            m = dict(params); m["RelayState"] = val; muts["relaystate-" + nm] = m
    m = dict(params); m[typ] = m[typ] + "\n"; muts["message-trailing-lf"] = m
    m = dict(params); m[typ] = " " + m[typ]; muts["message-leading-blank"] = m
    m = dict(params); m["SigAlg"] = other_alg; muts["sigalg-swapped"] = m
    m = dict(params); m["SigAlg"] = "http://www.w3.org/2000/09/xmldsig#dsa-sha1"; muts["sigalg-unsupported"] = m
    m = dict(params); m["SigAlg"] = ""; muts["sigalg-empty"] = m
    m = dict(params); del m["SigAlg"]; muts["sigalg-missing"] = m
    m = dict(params); m["Signature"] = m["Signature"][:-8] + "AAAAAA=="; muts["signature-changed"] = m
    m = dict(params); m["Signature"] = ""; muts["signature-empty"] = m
    m = dict(params); m[("SAMLRequest" if is_resp else "SAMLResponse")] = m.pop(typ); muts["message-type-swapped"] = m
    # a second message parameter next to the signed one (a receiver that looks for the other kind would read the unsigned one)
    other_typ = "SAMLRequest" if is_resp else "SAMLResponse"
    m = dict(params); m[other_typ] = params[typ]; muts["other-message-parameter-added-copy"] = m
    m = dict(params); m[other_typ] = "AAAA"; muts["other-message-parameter-added"] = m
    m = dict([(other_typ, "AAAA")] + list(params.items())); muts["other-message-parameter-added-first"] = m
    other = "idp" if case["who"] == "sp" else "sp"
    # who verifies: the peer - and the signer itself (its own URL reflected back to it in somebody else's name); under which certificate: the
    # signer's, other entities', and third parties' certificates that carry no RSA key at all (EC, Ed25519, DSA)
    for (name, mp), vname in itertools.product(muts.items(), (other, case["who"])):
        verifier = ctx.ents[vname]
        # independent verdict over what a receiver would reconstruct from the decoded parameters
        rp = [(k, up.quote_plus(v)) for k, v in mp.items()]
        for cert_i in (ENT_KEYS[case["who"]], ENT_KEYS["sp2"], ENT_KEYS[other]) + NON_RSA_CERTS:
            if vname == case["who"] and name not in ("unchanged", "reordered", "message-changed", "sigalg-swapped"):
                continue
            want = independent_verify(rp, cert_i)
            must = (name in ("unchanged", "reordered")) and cert_i == ENT_KEYS[case["who"]]
            if want != must:
                viol.append({"key": "C15/independent-oracle-inconsistent", "what": "mutation %s cert k%02d: independent verdict %s" % (name, cert_i, want)})
            got = library_verify(verifier, mp, cert_i)
            counters["library_verdicts"] = counters.get("library_verdicts", 0) + 1
            sigs.append(["inputs", case["alg"], case["who"], name, cert_i == ENT_KEYS[case["who"]]])
            if got != must:
                key = "C15/mutated-query-still-verifies" if got else "C15/genuine-signed-query-rejected"
                if got and cert_i != ENT_KEYS[case["who"]]:
                    key = "C15/verifies-under-foreign-certificate"
                viol.append({"key": key + ":" + name, "what": "alg %s relay %r mutation %s certificate k%02d: verify_redirect_signature=%s, expected %s" % (
                    case["alg"], case["relay"], name, cert_i, got, must)})


class World(object):
    """state of one history: signers held, last URLs"""

    def __init__(self, ctx):
        self.ctx = ctx
        self.held = {}
        self.last_url = {}

    def step(self, st, viol, counters, trace):
        try:
            self._step(st, viol, counters, trace)
        except Exception as exc:
            # a signer that cannot sign (or a verification that blows up) after some history is a broken key binding, not a harness problem
            viol.append({"key": "C15/operation-fails-after-history:" + st[0], "what": "history %r: step %r raised %s: %s" % (trace, st, type(exc).__name__, str(exc)[:160])})

    def _step(self, st, viol, counters, trace):
        ents = self.ctx.ents
        op, e = st[0], st[1]
        trace.append(list(st))
        if op == "get":
            self.held[e] = (ents[e].sec.sec_backend.get_signer(ALGS[st[2]]), st[2])
        elif op == "sign":
            if e not in self.held:
                return
            signer, alg = self.held[e]
            octets = b"SAMLRequest=abc&SigAlg=" + up.quote_plus(ALGS[alg]).encode()
            sig = signer.sign(octets)
            url = "https://x.example.org/?SAMLRequest=abc&SigAlg=%s&Signature=%s" % (up.quote_plus(ALGS[alg]), up.quote_plus(base64.b64encode(sig).decode()))
            check_url(url, e, viol, "history %r: %s signs with the signer it obtained" % (trace, e), counters)
        elif op == "bind":
            msg = self.ctx.resp if e == "idp" else (self.ctx.req2 if e == "sp2" else self.ctx.req)
            url = signed_url(ents[e], msg, "rs", st[2], response=(e == "idp"))
            self.last_url[e] = url
            check_url(url, e, viol, "history %r: apply_binding by %s" % (trace, e), counters)
        elif op == "verify-other":
            others = [o for o in self.last_url if o != e]
            for o in others:
                params = dict((k, up.unquote_plus(v)) for k, v in raw_params(self.last_url[o]))
                for cert_owner in self.ctx.ents:
                    got = library_verify(ents[e], params, ENT_KEYS[cert_owner])
                    counters["library_verdicts"] = counters.get("library_verdicts", 0) + 1
                    if got != (cert_owner == o):
                        viol.append({"key": "C15/verify-disagrees-after-history", "what": "history %r: %s verifying %s's URL with %s's certificate gave %s" % (
                            trace, e, o, cert_owner, got)})


def run_histories(case, ctx, viol, counters, sigs):
    steps = history_steps(("sp", "idp"), case["algs"])
    first = steps[case["first"]]
    n = 0
    for tail in itertools.product(range(len(steps)), repeat=case["depth"] - 1):
        seq = [first] + [steps[i] for i in tail]
        # histories without any signing step decide nothing
        if not any(s[0] in ("sign", "bind") for s in seq):
            continue
        w = World(ctx)
        trace = []
        before = len(viol)
        for st in seq:
            w.step(st, viol, counters, trace)
        n += 1
        if len(viol) > before and len(viol) > 6:
            break
    counters["histories"] = counters.get("histories", 0) + n
    sigs.append(["histories", case["depth"], case["first"], n])
    return n


def run_random_history(case, ctx, viol, counters, sigs):
    rng = random.Random("%s/%s" % (ctx.seed, case["id"]))
    steps = history_steps(("sp", "idp", "sp2"), sorted(ALGS))
    w = World(ctx)
    trace = []
    for i in range(case["len"]):
        w.step(rng.choice(steps), viol, counters, trace)
        trace[:] = trace[-8:]
        if len(viol) > 4:
            break
    counters["histories"] = counters.get("histories", 0) + 1
    sigs.append(["histories-random", case["k"]])


# ------------------------------------------------------------- schedule control

class Explorer(object):
    """Stateless systematic schedule exploration (CHESS style).  Threads stop at gates (sys.monitoring events); whenever every live thread
    is stopped the controller picks the next one to run: choices follow `prefix`, then 'keep the current thread running'.  The choice points
    and their options are recorded so that the caller can enumerate all schedules depth first, optionally with a preemption bound."""

    def __init__(self, prefix, nthreads):
        self.prefix = list(prefix)
        self.n = nthreads
        self.cond = threading.Condition()
        self.waiting = {}
        self.finished = set()
        self.running = None
        self.last = None
        self.trace = []       # (chosen, options, preemptive)
        self.log = []         # (tid, label) in execution order
        self.deadlock = False

    def _decide(self):
        if self.running is not None:
            return
        live = [t for t in range(self.n) if t not in self.finished]
        if not live or any(t not in self.waiting for t in live):
            return
        options = sorted(self.waiting)
        if self.last in options:          # exploration order: keep running the current thread first, then the others
            options = [self.last] + [o for o in options if o != self.last]
        k = len(self.trace)
        if k < len(self.prefix):
            chosen = self.prefix[k]
            if chosen not in options:
                chosen = options[0]
        else:
            chosen = options[0]
        pre = self.last in options and chosen != self.last
        self.trace.append((chosen, options, pre))
        self.log.append((chosen, self.waiting[chosen]))
        del self.waiting[chosen]
        self.running = chosen
        self.last = chosen
        self.cond.notify_all()

    def arrive(self, tid, label):
        with self.cond:
            if self.running == tid:
                self.running = None
            self.waiting[tid] = label
            self._decide()
            while self.running != tid:
                if not self.cond.wait(timeout=30):
                    self.deadlock = True
                    return

    def finish(self, tid):
        with self.cond:
            self.finished.add(tid)
            self.waiting.pop(tid, None)
            if self.running == tid:
                self.running = None
            self._decide()
            self.cond.notify_all()


def next_prefix(trace, bound):
    """depth-first successor of an executed schedule; None when exhausted.  bound = max number of preemptive switches (None: unbounded)"""
    t = list(trace)
    while t:
        chosen, options, pre = t.pop()
        used = sum(1 for c, o, p in t if p)
        later = options[options.index(chosen) + 1:]
        prev = t[-1][0] if t else None
        for cand in later:
            is_pre = prev in options and cand != prev
            if bound is not None and used + int(is_pre) > bound:
                continue
            return [c for c, o, p in t] + [cand]
    return None


_tl = threading.local()
_gate = {"g": None, "lines": False}
_mon = {"installed": None}


def install_monitoring():
    """PY_START (and, on demand, LINE) events on the code objects of the two critical functions; returns a status string"""
    if _mon["installed"] is not None:
        return _mon["installed"]
    try:
        import saml2_tophat.sigver as sv
        codes = {sv.RSACrypto.get_signer.__code__: "get_signer", sv.RSASigner.sign.__code__: "sign"}
        mon = sys.monitoring
        tool = mon.PROFILER_ID
        mon.use_tool_id(tool, "verif-c15")

        def on_start(code, offset):
            g = _gate["g"]
            tid = getattr(_tl, "tid", None)
            if g is not None and tid is not None and code in codes:
                g.arrive(tid, codes[code])

        def on_line(code, line):
            g = _gate["g"]
            tid = getattr(_tl, "tid", None)
            if g is not None and tid is not None and _gate["lines"] and code in codes:
                g.arrive(tid, "%s:%d" % (codes[code], line))
        mon.register_callback(tool, mon.events.PY_START, on_start)
        mon.register_callback(tool, mon.events.LINE, on_line)
        for code in codes:
            mon.set_local_events(tool, code, mon.events.PY_START | mon.events.LINE)
        _mon["installed"] = "sys.monitoring PY_START+LINE on RSACrypto.get_signer and RSASigner.sign"
    except Exception as exc:
        _mon["installed"] = "unavailable: %r" % (exc,)
    return _mon["installed"]


def run_schedule(ctx, owners, prefix, viol, counters, lines=False):
    ex = Explorer(prefix, len(owners))
    _gate["g"] = ex
    _gate["lines"] = lines
    urls = {}
    errors = {}

    def work(tid, owner):
        _tl.tid = tid
        try:
            ex.arrive(tid, "start")
            msg = ctx.resp if owner == "idp" else (ctx.req2 if owner == "sp2" else ctx.req)
            urls[tid] = signed_url(ctx.ents[owner], msg, "rs-%d" % tid, "rsa-sha256", response=(owner == "idp"))
        except Exception as exc:
            errors[tid] = exc
        finally:
            _tl.tid = None
            ex.finish(tid)
    ths = [threading.Thread(target=work, args=(i, o)) for i, o in enumerate(owners)]
    for t in ths:
        t.start()
    for t in ths:
        t.join(90)
    _gate["g"] = None
    if ex.deadlock or any(t.is_alive() for t in ths) or errors:
        return ex, "deadlock=%s errors=%r" % (ex.deadlock, errors)
    desc = " ".join("%d:%s" % (t, l) for t, l in ex.log)
    for tid, owner in enumerate(owners):
        check_url(urls[tid], owner, viol, "interleaving [%s] (threads %s)" % (desc, owners), counters)
    return ex, None


def explore(ctx, owners, viol, counters, lines, bound, limit, rng=None):
    """enumerate schedules depth first; returns (set of executed interleavings, exhausted?)"""
    seen = set()
    prefix = []
    n = 0
    while prefix is not None and n < limit:
        ex, problem = run_schedule(ctx, owners, prefix, viol, counters, lines)
        if problem:
            return seen, False, problem
        seen.add(tuple(ex.log))
        n += 1
        prefix = next_prefix(ex.trace, bound)
        if len(viol) > 8:
            break
    return seen, prefix is None, None


def run_case(case, ctx):
    viol, counters, sigs = [], {}, []
    kind = case["kind"]
    extra = {}
    if kind == "inputs":
        run_inputs(case, ctx, viol, counters, sigs)
    elif kind == "histories":
        run_histories(case, ctx, viol, counters, sigs)
    elif kind == "histories-random":
        run_random_history(case, ctx, viol, counters, sigs)
    elif kind == "rollover":
        import os
        import shutil
        rng = random.Random("%s/%s" % (ctx.seed, case["id"]))
        kpath = os.path.join(ctx.scratch, "rollover-%d.key" % case["k"])
        cpath = os.path.join(ctx.scratch, "rollover-%d.crt" % case["k"])
        gens = rng.sample([4, 5, 6, 7, 8], 3)
        idpmd = fed.metadata_of(fed.idp_conf())
        ents = []
        for g, ki in enumerate(gens):
            shutil.copy(fed.key(ki)[0], kpath)
            shutil.copy(fed.key(ki)[1], cpath)
            cnf = fed.sp_conf(eid="https://rollover%d.example.org/md" % g, enc_keys=())
            cnf["key_file"], cnf["cert_file"] = kpath, cpath
            ent = fed.make_sp(cnf, [idpmd])
            ents.append((ent, ki))
            # every entity built so far signs again: the key is the one its files held when it was built
            for (e2, k2) in ents:
                rid, req = e2.create_authn_request(fed.SSO_REDIRECT)
                url = signed_url(e2, "%s" % req, "rs", rng.choice(sorted(ALGS)))
                counters["urls_checked"] = counters.get("urls_checked", 0) + 1
                ok = [i for i in range(12) if independent_verify(url, i)]
                if ok != [k2]:
                    viol.append({"key": "C15/url-signed-with-another-entitys-key",
                                 "what": "key roll-over at one path: entity built while the files held k%02d signs a URL that verifies under %s (files now hold k%02d)" % (
                                     k2, ["k%02d" % i for i in ok], ki), "detail": {"url": url[:500]}})
        sigs.append(["key-rollover", case["k"]])
    elif kind == "churn":
        # entities come and go in a long-lived process (re-initialisation, key roll-over): each generation has a key of its own, is used, dropped
        # and collected before the next one is built - whatever the process remembers about entities that no longer exist must not sign for new ones
        import gc
        rng = random.Random("%s/%s" % (ctx.seed, case["id"]))
        idpmd = fed.metadata_of(fed.idp_conf())
        alg = rng.choice(sorted(ALGS))
        keys = [4, 5, 6, 7, 8, 9, 10, 11]
        for g in range(case["generations"]):
            ki = keys[g % len(keys)]
            ents = [fed.make_sp(fed.sp_conf(eid="https://churn%d-%d.example.org/md" % (g, j), key_i=ki, enc_keys=()), [idpmd]) for j in range(case["width"])]
            for e2 in ents:
                rid, req = e2.create_authn_request(fed.SSO_REDIRECT)
                url = signed_url(e2, "%s" % req, "rs", alg)
                counters["urls_checked"] = counters.get("urls_checked", 0) + 1
                ok = [i for i in range(12) if independent_verify(url, i)]
                if ok != [ki]:
                    viol.append({"key": "C15/url-signed-with-another-entitys-key" if ok else "C15/signed-url-does-not-verify-under-signers-certificate",
                                 "what": "generation %d of entities (key k%02d; earlier generations used, dropped and collected): URL verifies under %s" % (
                                     g, ki, ["k%02d" % i for i in ok]), "detail": {"url": url[:500]}})
                    break
            del ents, e2
            gc.collect()
            counters["generations"] = counters.get("generations", 0) + 1
            if viol:
                break
        sigs.append(["churn", case["k"]])
    elif kind == "schedules":
        status = install_monitoring()
        extra["monitoring"] = status
        if status.startswith("unavailable"):
            return {"outcome": "HARNESS-ERROR", "error": "schedule control unavailable: " + status}
        owners = ["sp", "idp", "sp2"][:case["threads"]]
        seen, exhausted, problem = explore(ctx, owners, viol, counters, case.get("lines", False), case.get("bound"), case.get("limit", 100000))
        if problem:
            return {"outcome": "HARNESS-ERROR", "error": "schedule exploration: %s" % problem}
        counters["interleavings_executed"] = len(seen)
        counters["schedule_spaces_exhausted"] = int(exhausted)
        for e in seen:
            sigs.append(["schedule", case["threads"], case.get("lines", False), " ".join("%d%s" % (t, l[:1] if not case.get("lines") else l) for t, l in e)])
        extra["interleavings"] = sorted(" ".join("%d:%s" % (t, l) for t, l in e) for e in seen)[:40]
        extra["exhausted"] = exhausted
    elif kind in ("verify-threads", "verify-history"):
        from saml2_tophat.sigver import verify_redirect_signature
        rng = random.Random("%s/%s" % (ctx.seed, case["id"]))
        alg = rng.choice(sorted(ALGS))
        urls = {"sp": signed_url(ctx.ents["sp"], ctx.req, "rs-a", alg), "sp2": signed_url(ctx.ents["sp2"], ctx.req2, "rs-b", alg)}
        params = {o: dict((k_, up.unquote_plus(v_)) for k_, v_ in raw_params(u)) for o, u in urls.items()}
        verifier = ctx.ents["idp"]
        counters["urls_checked"] = 2
        wrong = []

        def verdict(owner_of_url, cert_owner):
            got = library_verify(verifier, params[owner_of_url], ENT_KEYS[cert_owner])
            counters["library_verdicts"] = counters.get("library_verdicts", 0) + 1
            if got != (owner_of_url == cert_owner):
                wrong.append((owner_of_url, cert_owner, got))
        if kind == "verify-threads":
            from vlib import interleave

            def loop(first, second):
                def run():
                    for _ in range(case["rounds"]):
                        verdict(first, first)
                        verdict(second, first)
                return run
            res, errs, stats = interleave.run_threads_regimes([loop("sp", "sp2"), loop("sp2", "sp"), loop("sp", "sp2")], "%s/%s" % (ctx.seed, case["id"]))
            counters["yields_injected"] = stats["yields_injected"]
            for o1, o2 in (("sp", "sp"), ("sp2", "sp2"), ("sp", "sp2"), ("sp2", "sp")):      # and when everything is quiet again
                verdict(o1, o2)
            where = "several threads verifying under two certificates at once"
        else:
            bad_certs = ["", "AAAA", fed.cert_body(ENT_KEYS["sp"])[:200], "not base64 at all !!", fed.cert_body(ENT_KEYS["sp"]).replace("A", "B", 3)]
            order = [("sp2", "sp2"), ("sp", "BAD"), ("sp", "BAD"), ("sp2", "BAD"), ("sp", "sp"), ("sp2", "BAD"), ("sp2", "BAD"), ("sp", "sp2")]
            rng.shuffle(order)
            for o1, o2 in [("sp2", "sp2")] + order:
                if o2 == "BAD":
                    bc = rng.choice(bad_certs)
                    for attempt in (1, 2):        # the same unreadable certificate twice in a row
                        try:
                            got = bool(verify_redirect_signature(dict(params[o1]), verifier.sec.sec_backend, bc))
                        except Exception:
                            got = False
                        counters["library_verdicts"] = counters.get("library_verdicts", 0) + 1
                        if got:
                            wrong.append((o1, "unreadable certificate %r (attempt %d)" % (bc[:20], attempt), got))
                else:
                    verdict(o1, o2)
            where = "verification history with unreadable certificates in between"
        if wrong:
            viol.append({"key": "C15/verification-verdict-wrong-" + ("under-concurrency" if kind == "verify-threads" else "after-unreadable-certificate"),
                         "what": "%s (alg %s): %d wrong verdict(s), e.g. URL of %s under the certificate of %s -> %s" % (where, alg, len(wrong), wrong[0][0], wrong[0][1], wrong[0][2])})
        sigs.append([kind, case["k"]])
    elif kind == "free":
        old = sys.getswitchinterval()
        sys.setswitchinterval(1e-6)
        try:
            owners = ["sp", "idp", "sp2", "sp"][:case["threads"]]
            res = []
            lock = threading.Lock()

            def work(owner, n):
                for i in range(n):
                    msg = ctx.resp if owner == "idp" else (ctx.req2 if owner == "sp2" else ctx.req)
                    u = signed_url(ctx.ents[owner], msg, "r%d" % i, "rsa-sha1", response=(owner == "idp"))
                    with lock:
                        res.append((owner, u))
            ths = [threading.Thread(target=work, args=(o, case["iters"])) for o in owners[:3]]
            for t in ths:
                t.start()
            for t in ths:
                t.join(300)
            for owner, u in res:
                if not check_url(u, owner, viol, "free-running threads", counters) and len(viol) > 5:
                    break
            sigs.append(["free-running", case["k"], len(res)])
        finally:
            sys.setswitchinterval(old)
    uniq = {}
    for v in viol:
        uniq.setdefault(v["key"] + v["what"][:60], v)
    return {"outcome": "violations" if viol else "held", "nontrivial": counters.get("urls_checked", 0) > 0, "violations": list(uniq.values())[:8],
            "counters": counters, "sigs": sigs, "evals": max(1, counters.get("histories", 0) + counters.get("interleavings_executed", 0) + (1 if kind in ("inputs", "free", "rollover", "churn", "verify-threads", "verify-history") else 0)),
            "obs": extra}


def finalize(cases, results, tier, extras):
    inc = []
    tot = {}
    inter = []
    for r in results:
        for k, v in r.get("counters", {}).items():
            tot[k] = tot.get(k, 0) + v
        inter.extend(r.get("obs", {}).get("interleavings", []) if isinstance(r.get("obs"), dict) else [])
    for need in ("urls_checked", "library_verdicts", "histories", "interleavings_executed"):
        if not tot.get(need):
            inc.append("monitor counter %s is zero" % need)
    return {"inconclusive": inc, "coverage": {"distinct_interleavings_executed": len(set(inter)), "interleavings": sorted(set(inter))[:120],
                                              "exhaustive": False, "exhaustive_part": "all histories of the step alphabet up to the stated depth; every interleaving of the entry-level critical steps of 2 threads (3 threads: thorough tier); line-level interleavings of 2 threads up to a preemption bound"}}
