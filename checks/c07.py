"""C07 - an IdP never releases attributes beyond what its policy allows.

Generated identities x policy shapes (default / per-SP entry; attribute_restrictions none,
name-only, regex lists; entity categories; fail_on_missing_requested) x SP metadata
declarations (required / optional attributes with and without value constraints,
satisfiable or not; entity categories), through Server.create_authn_response and
create_attribute_response.  The returned XML is read with our own code and every released
(attribute, value) is checked against an independent reference of the documented
semantics.  In every outcome: an error status or a filtered assertion.
"""
import importlib
import itertools
import random
import re
import xml.etree.ElementTree as ET

from vlib import env, fed, mdgen, gen, xmlkit as xk

PROPERTY = "C07"
LEVEL = "exploration"
RULE = ("one execution = one (identity, policy shape, SP declaration, entity categories, call) answered by the real IdP and read back with an "
        "independent XML reader; non-trivial = the IdP produced a response (Success with attributes, Success without, or an error status) and "
        "at least one narrowing rule applied to the case; distinct = (policy shape, declaration shape, category layout, identity shape, call, outcome)")
ASSUMPTIONS = ["entity-category RELEASE/ONLY_REQUIRED tables of the repository are read as data (they are the documented entitlement)",
               "when both entity categories and required/optional declarations exist only the category entitlement and the policy restrictions "
               "are asserted (the statement says the declarations bind 'when those apply')"]

SAML = "urn:oasis:names:tc:SAML:2.0:assertion"
SAMLP = "urn:oasis:names:tc:SAML:2.0:protocol"
B_POST = "urn:oasis:names:tc:SAML:2.0:bindings:HTTP-POST"

POLICIES = {
    "release-all": {"default": {"attribute_restrictions": None}},
    "names-only": {"default": {"attribute_restrictions": {"givenName": None, "mail": None, "eduPersonAffiliation": None}}},
    "regex": {"default": {"attribute_restrictions": {"mail": [r".*@example\.org$"], "eduPersonAffiliation": ["^(staff|member)$"], "givenName": None}}},
    "regex-unanchored": {"default": {"attribute_restrictions": {"eduPersonAffiliation": ["staff", "mem"], "mail": [r"ann@example\.org"], "uid": ["^a"]}}},
    "per-sp-overrides-default": {"default": {"attribute_restrictions": None},
                                 fed.SP_EID: {"attribute_restrictions": {"sn": None, "mail": [r"^a"]}}},
    "per-sp-other-sp": {"default": {"attribute_restrictions": {"givenName": None}},
                        "https://someone-else.example.org/md": {"attribute_restrictions": None}},
    # an empty table names no attribute: "release nothing", not "no restriction"
    "names-none": {"default": {"attribute_restrictions": {}}},
    "per-sp-names-none": {"default": {"attribute_restrictions": None}, fed.SP_EID: {"attribute_restrictions": {}}},
    "names-none+no-fail": {"default": {"attribute_restrictions": {}, "fail_on_missing_requested": False}},
    "ec-swamid": {"default": {"entity_categories": ["swamid"]}},
    "ec-edugain": {"default": {"entity_categories": ["edugain"]}},
    "ec-refeds+restr": {"default": {"entity_categories": ["refeds"], "attribute_restrictions": {"mail": [r".*@example\.org$"], "givenName": None, "sn": None}}},
    "ec-pvp2": {"default": {"entity_categories": ["at_egov_pvp2"]}},
    "no-fail-on-missing": {"default": {"attribute_restrictions": None, "fail_on_missing_requested": False}},
    # no release policy configured at all (neither for the idp nor for the aa service): what the SP declares still applies
    "none-configured": {"default": {}},
    "names-only-no-fail": {"default": {"attribute_restrictions": {"givenName": None}, "fail_on_missing_requested": False}},
    # an entry of its own for each SP of the multi-SP scenarios: privileged and restricted providers side by side on one Server
    "per-sp-mixed": {"default": {"attribute_restrictions": {"givenName": None}},
                     "https://sp-a.example.org/md": {"attribute_restrictions": None, "fail_on_missing_requested": False},
                     "https://sp-b.example.org/md": {"attribute_restrictions": {"mail": None}},
                     "https://sp-c.example.org/md": {"attribute_restrictions": {"givenName": None, "sn": None, "mail": [r".*@example\.org$"]}, "fail_on_missing_requested": False},
                     "https://sp-d.example.org/md": {"attribute_restrictions": {"eduPersonAffiliation": ["^member$"], "givenName": None}},
                     "https://sp-e.example.org/md": {"attribute_restrictions": {"sn": None}, "fail_on_missing_requested": False}},
}
# (name, required?, values)
DECLS = {
    "none": None,
    "req-givenName": [("givenName", True, [])],
    "req-givenName+missing-title": [("givenName", True, []), ("title", True, [])],
    "req-missing-only": [("title", True, [])],
    "opt-mail": [("mail", False, [])],
    "req-affiliation=staff": [("eduPersonAffiliation", True, ["staff"])],
    "req-affiliation=admin(unsatisfiable)": [("eduPersonAffiliation", True, ["admin"])],
    "opt-affiliation=member+req-sn": [("eduPersonAffiliation", False, ["member"]), ("sn", True, [])],
    "req-mail+opt-displayName": [("mail", True, []), ("displayName", None, [])],
    # an empty AttributeValue element next to a real one: the values "staff" and "" are declared, nothing else
    "req-affiliation=staff-or-empty": [("eduPersonAffiliation", True, ["staff", ""])],
    "opt-affiliation=empty-only": [("eduPersonAffiliation", False, [""]), ("givenName", True, [])],
    # the SP's metadata has a second SAML 2.0 SPSSODescriptor that declares no attribute consuming service at all
    "req-givenName|second-descriptor-without-declaration": [("givenName", True, [])],
    "req-affiliation=staff|second-descriptor-without-declaration": [("eduPersonAffiliation", True, ["staff"])],
    # ... or a second AttributeConsumingService that requests nothing
    "req-mail|second-service-without-requested-attributes": [("mail", True, [])],
    # one attribute declared twice (required by one RequestedAttribute, optional by another)
    "req-mail+opt-mail": [("mail", True, []), ("mail", False, [])],
    "req-affiliation=staff+opt-affiliation=member": [("eduPersonAffiliation", True, ["staff"]), ("eduPersonAffiliation", False, ["member"])],
}
CATS = {
    "none": [],
    "refeds-rs": ["http://refeds.org/category/research-and-scholarship"],
    "coco": ["http://www.geant.net/uri/dataprotection-code-of-conduct/v1"],
    "swamid-re+hei": ["http://www.swamid.se/category/research-and-education", "http://www.swamid.se/category/hei-service"],
    "swamid-re-only": ["http://www.swamid.se/category/research-and-education"],
    "pvp2": ["http://www.ref.gv.at/ns/names/agiz/pvp/egovtoken"],
    "unrelated": ["http://example.org/category/none"],
    # an SP (a proxy, say) that declares which categories it SUPPORTS as a releasing party and is a member of none - or of another one
    "supports-refeds-rs-only": [],
    "supports-coco+is-unrelated": ["http://example.org/category/none"],
    "supports-swamid+is-refeds-rs": ["http://refeds.org/category/research-and-scholarship"],
}
CAT_SUPPORT = {"supports-refeds-rs-only": ["http://refeds.org/category/research-and-scholarship"],
               "supports-coco+is-unrelated": ["http://www.geant.net/uri/dataprotection-code-of-conduct/v1", "http://refeds.org/category/research-and-scholarship"],
               "supports-swamid+is-refeds-rs": ["http://www.swamid.se/category/research-and-education", "http://www.swamid.se/category/hei-service"]}


def _to_map():
    from saml2_tophat.attributemaps import saml_uri
    return saml_uri.MAP["to"], saml_uri.MAP["fro"]


def base_identity(rng, shape):
    ident = {"givenName": ["Ann"], "sn": ["Müller"], "mail": ["ann@example.org", "ann@evil.example.com", "joann@example.org"], "displayName": ["Ann Müller"],
             "eduPersonAffiliation": ["staff", "member", "alum", "non-staff", "ex-member"], "eduPersonPrincipalName": ["ann@example.org"],
             "eduPersonScopedAffiliation": ["staff@example.org"], "eduPersonTargetedID": ["tid-1"], "cn": ["Ann M"], "o": ["Org"],
             "norEduPersonNIN": ["19700101-1234"], "uid": ["ann"], "employeeNumber": ["4711"]}
    if shape == "full":
        return ident
    if shape == "case-variants":
        out = {}
        for k, v in ident.items():
            out[rng.choice([k, k.lower(), k.upper()])] = v
        return out
    if shape == "sparse":
        keys = rng.sample(sorted(ident), 4)
        return {k: ident[k] for k in keys}
    if shape == "hostile-values":
        out = dict(ident)
        out["mail"] = ["x@example.org\n@evil", "ann@example.org", "ann@example.orgX"]
        out["eduPersonAffiliation"] = ["staff ", "staffX", "member"]
        out["givenName"] = [gen.value(rng) for _ in range(3)]
        return out
    if shape == "scalar-values":
        # single values handed over as such, not wrapped in a list
        out = {k: (v[0] if len(v) == 1 else list(v)) for k, v in ident.items()}
        out["eduPersonAffiliation"] = "staff-member"      # ("staff", "member", "taf" are substrings of it, not values)
        out["mail"] = "ann@example.org"
        return out
    if shape == "mixed-types":
        # a user directory hands over numbers, booleans and octets next to text (what is released is their text form)
        out = dict(ident)
        out["uid"] = ["ann", 1017, "a17"]
        out["employeeNumber"] = [4711, "4711x"]
        out["eduPersonAffiliation"] = ["staff", 7, True, "member", b"staff-octets", "alum"]
        out["mail"] = ["ann@example.org", 42, "ann@evil.example.com"]
        out["givenName"] = ["Ann", False]
        return out
    return ident


def gen_cases(tier, seed):
    rng = random.Random(seed)
    cases = []
    shapes = ["full", "case-variants", "sparse", "hostile-values", "mixed-types", "scalar-values"]
    for pol, decl, cat in itertools.product(sorted(POLICIES), sorted(DECLS), sorted(CATS)):
        ec = pol.startswith("ec-")
        if not ec and cat not in ("none", "unrelated"):
            continue
        for call in ("authn", "attribute"):
            for shape in shapes:
                if tier == "quick" and shape != "full" and rng.random() < 0.6:
                    continue
                if tier == "quick" and call == "attribute" and rng.random() < 0.5:
                    continue
                cid = "%s|%s|%s|%s|%s" % (pol, decl, cat, call, shape)
                cases.append({"id": cid, "sig": [pol, decl, cat, call, shape], "policy": pol, "decl": decl, "cat": cat, "call": call, "shape": shape})
                # the optional arguments of the two entry points select other code paths (queried attributes of an AttributeQuery,
                # encryption, PEFIM advice, signing, the request_response alias); the release rule is the same on all of them
                if shape == "full" or tier == "thorough":
                    for opt in CALL_OPTS[call]:
                        if tier == "quick" and rng.random() < 0.5:
                            continue
                        cases.append({"id": cid + "|" + opt, "sig": [pol, decl, cat, call, shape, opt], "policy": pol, "decl": decl, "cat": cat, "call": call,
                                      "shape": shape, "callopt": opt})
    for pol in SEQ_POLICIES:
        for k in range(3 if tier == "quick" else 20):
            cases.append({"id": "sequence|%s|%d" % (pol, k), "sig": ["sequence", pol, k], "kind": "sequence", "policy": pol, "k": k,
                          "len": 16 if tier == "quick" else 60})
    # the same Server answering several SPs from several threads at once, with yields injected inside the library
    for pol in ("per-sp-mixed", "ec-swamid", "regex"):
        for k in range(4 if tier == "quick" else 30):
            cases.append({"id": "threads|%s|%d" % (pol, k), "sig": ["threads", pol, k], "kind": "sequence", "own_worker": True, "all_envs": True, "threads": 3, "policy": pol, "k": k,
                          "len": 24 if tier == "quick" else 80})
    return cases


CALL_OPTS = {"authn": ["encrypted", "pefim", "signed", "alias", "name-id-given"],
             "attribute": ["query-names-uri", "query-names-basic", "query-values", "query-one-forbidden", "signed"]}


def call_kwargs(case, ident, rng):
    """extra keyword arguments for the entry point, per caller option"""
    from saml2_tophat import saml
    opt = case.get("callopt")
    to, fro = _to_map()
    kw = {}
    if opt == "encrypted":
        kw = {"encrypt_assertion": True}
    elif opt == "pefim":
        kw = {"pefim": True, "encrypted_advice_attributes": True, "encrypt_assertion": False, "sign_assertion": True}
    elif opt == "signed":
        kw = {"sign_assertion": True, "sign_response": True}
    elif opt == "name-id-given":
        kw = {"name_id": saml.NameID(format=saml.NAMEID_FORMAT_PERSISTENT, text="subject-7", sp_name_qualifier=fed.SP_EID)}
    elif opt and opt.startswith("query-"):
        names = sorted(ident)
        if opt == "query-one-forbidden":
            names = [rng.choice(names)]
        attrs = []
        for n in names:
            if opt == "query-names-basic":
                a = saml.Attribute(name=n, name_format=saml.NAME_FORMAT_BASIC)
            else:
                a = saml.Attribute(name=to.get(n, n), name_format=saml.NAME_FORMAT_URI, friendly_name=n)
            if opt == "query-values":
                a.attribute_value = [saml.AttributeValue(text=v) for v in ident[n]]
            attrs.append(a)
        kw = {"attributes": attrs}
    return kw


def opened(xml):
    """the response text with every EncryptedData opened with the SP's private key (harness-side, through the driver)"""
    for _ in range(4):
        if "EncryptedData" not in xml:
            break
        rc, err, out = xk.decrypt(xml, fed.key(2)[0])
        if rc != 0 or not out:
            return None
        xml = out if isinstance(out, str) else out.decode("utf-8")
    return xml


SEQ_SPS = [
    # (entity id, declaration, category layout)
    ("https://sp-a.example.org/md", [("displayName", True, []), ("eduPersonPrincipalName", True, []), ("mail", True, []), ("givenName", False, [])], "coco"),
    ("https://sp-b.example.org/md", [("mail", True, [])], "coco"),
    ("https://sp-c.example.org/md", None, "refeds-rs"),
    ("https://sp-d.example.org/md", [("givenName", True, []), ("eduPersonAffiliation", False, ["member"])], "none"),
    ("https://sp-e.example.org/md", [("sn", True, [])], "swamid-re+hei"),
]
SEQ_POLICIES = ["ec-edugain", "ec-swamid", "ec-refeds+restr", "names-only", "regex", "release-all", "no-fail-on-missing", "regex-unanchored", "per-sp-mixed"]


def setup_worker(ctx):
    ctx.fedcache = fed.Cache()


def run_sequence(case, ctx):
    """several SPs answered by ONE long-lived Server in a generated order: what one SP gets must not depend on who was answered before"""
    to, fro = _to_map()
    mds = []
    for eid, decl, cat in SEQ_SPS:
        requested = [(to[n], n, req, vals) for n, req, vals in decl] if decl is not None else None
        mds.append(mdgen.entity({"eid": eid, "entity_categories": CATS[cat], "entity_category_support": CAT_SUPPORT.get(cat),
                                 "sp": {"keys": [("signing", 1)], "acs": [(B_POST, eid.replace("/md", "/acs"), 1, True)], "requested": requested}}))
    policy = {}
    for who, spec in POLICIES[case["policy"]].items():
        policy[who] = dict({"lifetime": {"minutes": 15}}, **spec)
    idp = fed.make_idp(fed.idp_conf(policy=policy), mds)
    rng = random.Random("%s/%s" % (ctx.seed, case["id"]))
    viol, counters = [], {"sequence_steps": 0, "released_values_checked": 0, "unmet_requirement_cases": 0}
    order = []
    plan = []
    for step in range(case["len"]):
        k = rng.randrange(len(SEQ_SPS))
        plan.append((step, SEQ_SPS[k], base_identity(rng, rng.choice(["full", "sparse", "full"])), "u%d" % rng.randrange(3)))
    answers = {}

    def answer(item):
        step, (eid, decl, cat), ident, uid = item
        try:
            return "%s" % idp.create_authn_response(dict((a, list(v) if isinstance(v, list) else v) for a, v in ident.items()), "id-req-%d" % step, eid.replace("/md", "/acs"), eid,
                                                    userid=uid, authn=fed.AUTHN, sign_response=False, sign_assertion=False)
        except Exception:
            return None
    if case.get("threads"):
        from vlib import interleave
        n = case["threads"]

        def worker(i):
            def run():
                for item in plan[i::n]:
                    # (called once per injection regime: every answer is kept and judged, a later pass must not paint over an earlier one)
                    answers.setdefault(item[0], []).append(answer(item))
            return run
        res, errs, stats = interleave.run_threads_regimes([worker(i) for i in range(n)], "%s/%s" % (ctx.seed, case["id"]))
        counters["yields_injected"] = stats["yields_injected"]
        counters["threads_hung"] = stats["threads_hung"]
        for e in errs:
            if e is not None:
                counters["thread_errors"] = counters.get("thread_errors", 0) + 1
    todo = []
    for step, (eid, decl, cat), ident, uid in plan:
        if case.get("threads"):
            todo.extend((step, (eid, decl, cat), ident, uid, r_) for r_ in answers.get(step, []))
        else:
            todo.append((step, (eid, decl, cat), ident, uid, answer(plan[step])))
    for step, (eid, decl, cat), ident, uid, resp in todo:
        order.append(eid.split("//")[1].split(".")[0])
        if resp is None:
            counters["idp_raised"] = counters.get("idp_raised", 0) + 1
            continue
        # judge against the reference for THIS SP alone
        sub = {"policy": case["policy"], "decl": "__seq__", "cat": cat, "call": "authn", "shape": "seq"}
        DECLS["__seq__"] = decl
        r = judge(sub, ident, "%s" % resp, eid, prefix=("[one Server, %d threads at once] " % case["threads"]) if case.get("threads") else "[one Server answered %s] " % "->".join(order[-4:]))
        counters["sequence_steps"] += 1
        counters["released_values_checked"] += r["counters"].get("released_values_checked", 0)
        counters["unmet_requirement_cases"] += r["counters"].get("unmet_requirement_cases", 0)
        for v in r["violations"]:
            v = dict(v)
            v["key"] = v["key"] if "entitlement" not in v["key"] and "declaration" not in v["key"] else v["key"] + "-in-sequence"
            viol.append(v)
        if len(viol) > 4:
            break
    uniq = {}
    for v in viol:
        uniq.setdefault(v["key"], v)
    return {"outcome": "violations" if viol else "sequence-held", "nontrivial": counters["sequence_steps"] > 0, "violations": list(uniq.values()),
            "counters": counters, "evals": max(1, counters["sequence_steps"]), "sigs": [["threads" if case.get("threads") else "sequence", case["policy"], case["k"]]]}


def _declared(decl):
    """lower-case name -> set of declared values (empty set: any value).  An attribute declared more than once is declared with the union of
    the values, and with any value as soon as one of the declarations names none."""
    if decl is None:
        return None
    out = {}
    for n, _req, vals in decl:
        ln = n.lower()
        if ln in out and (not out[ln] or not vals):
            out[ln] = set()
        else:
            out.setdefault(ln, set()).update(vals)
    return out


def _idp(ctx, pol, decl, cat):
    to, fro = _to_map()

    def build():
        requested = None
        if DECLS[decl] is not None:
            requested = [(to[n], n, req, vals) for n, req, vals in DECLS[decl]]
        ent = {"eid": fed.SP_EID, "entity_categories": CATS[cat], "entity_category_support": CAT_SUPPORT.get(cat),
               "sp": {"keys": [("signing", 1), ("encryption", 2)], "acs": [(B_POST, fed.ACS_POST, 1, True)], "requested": requested}}
        if "second-service" in decl:
            ent["sp"]["empty_service"] = True
        if "second-descriptor" in decl:
            ent["sp_second"] = {"keys": [("signing", 1)], "acs": [(B_POST, fed.ACS_POST + "/second", 5, None)]}
        spmd = mdgen.entity(ent)
        policy = {}
        for who, spec in POLICIES[pol].items():
            policy[who] = dict({"lifetime": {"minutes": 15}}, **spec)
        idc = fed.idp_conf(policy=policy)
        idc["service"]["aa"] = {"endpoints": {"attribute_service": [("https://idp.example.org/aa", "urn:oasis:names:tc:SAML:2.0:bindings:SOAP")]},
                                "policy": policy}
        if pol == "none-configured":
            del idc["service"]["aa"]["policy"]
            del idc["service"]["idp"]["policy"]
        return fed.make_idp(idc, [spmd])
    return ctx.fedcache.get("idp", [pol, decl, cat], build)


def entitled(pol, cat, required_names, eid=fed.SP_EID):
    """lower-case names the SP's categories entitle it to, or None when the policy entry has no entity_categories"""
    spec = POLICIES[pol].get(eid) or POLICIES[pol]["default"]
    mods = spec.get("entity_categories")
    if mods is None and eid in POLICIES[pol]:
        mods = POLICIES[pol]["default"].get("entity_categories")
    if not mods:
        return None
    cats = set(CATS[cat])
    out = set()
    for m in mods:
        mod = importlib.import_module("saml2_tophat.entity_category.%s" % m)
        only = getattr(mod, "ONLY_REQUIRED", {})
        for key, attrs in mod.RELEASE.items():
            attrs = [a.lower() for a in attrs]
            if key == "":
                out.update(attrs)
                continue
            keys = key if isinstance(key, tuple) else (key,)
            if all(k in cats for k in keys):
                if only.get(key):
                    out.update(a for a in attrs if a in required_names)
                else:
                    out.update(attrs)
    return out


def restrictions(pol, eid=fed.SP_EID):
    """applicable attribute_restrictions: the per-SP entry's if it has the key, else the default's"""
    p = POLICIES[pol]
    if eid in p and "attribute_restrictions" in p[eid]:
        r = p[eid]["attribute_restrictions"]
    else:
        r = p["default"].get("attribute_restrictions")
    if r is None:
        return None
    return {k.lower(): ([re.compile(x) for x in v] if v else None) for k, v in r.items()}


def read_response(xml):
    root = ET.fromstring(xml.encode("utf-8") if isinstance(xml, str) else xml)
    st = root.find("{%s}Status/{%s}StatusCode" % (SAMLP, SAMLP))
    status = st.get("Value") if st is not None else None
    released = []
    to, fro = _to_map()
    for a in root.iter("{%s}Attribute" % SAML):
        name = a.get("FriendlyName") or fro.get(a.get("Name")) or a.get("Name")
        vals = ["".join(v.itertext()) for v in a.findall("{%s}AttributeValue" % SAML)]    # eduPersonTargetedID carries a NameID child
        released.append((name, a.get("Name"), vals))
    n_enc = len(list(root.iter("{%s}EncryptedAssertion" % SAML)))
    return status, released, n_enc


def run_case(case, ctx):
    if case.get("kind") == "sequence":
        return run_sequence(case, ctx)
    idp = _idp(ctx, case["policy"], case["decl"], case["cat"])
    rng = random.Random("%s/%s" % (ctx.seed, case["id"]))
    ident = base_identity(rng, case["shape"])
    kw = {"sign_response": False, "sign_assertion": False}
    kw.update(call_kwargs(case, ident, rng))
    try:
        if case["call"] == "authn":
            fn = idp.create_authn_request_response if case.get("callopt") == "alias" else idp.create_authn_response
            resp = fn(dict((k, list(v) if isinstance(v, list) else v) for k, v in ident.items()), "id-req-1", fed.ACS_POST, fed.SP_EID, userid="u1", authn=fed.AUTHN, **kw)
        else:
            resp = idp.create_attribute_response(dict((k, list(v) if isinstance(v, list) else v) for k, v in ident.items()), "id-req-1", fed.ACS_POST, fed.SP_EID, userid="u1", **kw)
        xml = "%s" % resp
        exc = None
    except Exception as e:
        xml, exc = None, e
    if xml is not None and "EncryptedData" in xml:
        clear = opened(xml)
        if clear is None:
            return {"outcome": "ciphertext-not-opened", "nontrivial": False, "violations": [], "counters": {"ciphertext_not_opened": 1}}
        xml = clear
    if xml is None:
        # raising is a refusal: nothing was released
        return {"outcome": "raised:" + type(exc).__name__, "nontrivial": False, "violations": [], "counters": {"idp_raised": 1},
                "obs": {"exception": repr(exc)[:200]}}
    return judge(case, ident, xml, fed.SP_EID)


def judge(case, ident, xml, eid, prefix=""):
    viol = []
    status, released, n_enc = read_response(xml)
    success = status == "urn:oasis:names:tc:SAML:2.0:status:Success"
    lident, held = {}, {}
    for k, v in ident.items():
        if isinstance(v, (str, bytes, int, bool)):
            v = [v]
        # (text form as the IdP writes it: booleans in lower case, octets decoded)
        texts = [x if isinstance(x, str) else (str(x).lower() if isinstance(x, bool) else (x.decode("utf-8") if isinstance(x, bytes) else str(x))) for x in v]
        lident.setdefault(k.lower(), set()).update(texts)
        for t in texts:
            held[(k.lower(), t)] = held.get((k.lower(), t), 0) + 1
    decl = DECLS[case["decl"]]
    required_names = set(n.lower() for n, req, vals in (decl or []) if req)
    ent = entitled(case["policy"], case["cat"], required_names, eid)
    restr = restrictions(case["policy"], eid)
    declared = _declared(decl)
    rules = []
    if ent is not None:
        rules.append("entity-categories")
    if restr is not None:
        rules.append("attribute-restrictions")
    if declared is not None and ent is None:
        rules.append("sp-declaration")
    desc = prefix + "policy=%s declaration=%s categories=%s call=%s%s identity=%s status=%s" % (
        case["policy"], case["decl"], case["cat"], case["call"], ("[%s]" % case["callopt"]) if case.get("callopt") else "", case["shape"], (status or "").split(":")[-1])
    if not success and released:
        viol.append({"key": "C07/error-response-carries-attributes", "what": desc + " released %r" % [r[0] for r in released]})
    n_rel = 0
    sent = {}
    for name, uri, vals in released:
        for v in vals:
            sent[((name or "").lower(), v)] = sent.get(((name or "").lower(), v), 0) + 1
    for (ln_, v_), n_ in sorted(sent.items()):
        if 0 < held.get((ln_, v_), 0) < n_:
            viol.append({"key": "C07/value-released-more-often-than-held", "what": desc + ": %s=%r is in the identity %d time(s) and in the assertion %d times" % (
                ln_, v_, held[(ln_, v_)], n_), "detail": {"released": [(r[0], r[2]) for r in released], "identity": ident}})
            break
    for name, uri, vals in released:
        ln = (name or "").lower()
        for v in vals:
            n_rel += 1
            why = None
            if ln not in lident or v not in lident[ln]:
                # whitespace handling: values are carried as given
                why = ("C07/released-value-not-in-identity", "value %r of %s is not part of the identity handed to the IdP" % (v, name))
            elif ent is not None and ln not in ent:
                why = ("C07/attribute-outside-entity-category-entitlement", "%s released although the SP's entity categories %s entitle it to %s" % (
                    name, CATS[case["cat"]], sorted(ent)))
            elif restr is not None and ln not in restr:
                why = ("C07/attribute-outside-attribute-restrictions", "%s released although attribute_restrictions name only %s" % (name, sorted(restr)))
            elif restr is not None and restr[ln] is not None and not any(p.match(v) for p in restr[ln]):
                why = ("C07/value-not-matching-configured-pattern", "%s=%r released although no configured pattern matches" % (name, v))
            elif declared is not None and ent is None and ln not in declared:
                why = ("C07/attribute-outside-sp-declaration", "%s released although the SP declares only %s" % (name, sorted(declared)))
            elif declared is not None and ent is None and declared[ln] and v not in declared[ln]:
                why = ("C07/value-outside-sp-declared-values", "%s=%r released although the SP declares the values %s" % (name, v, sorted(declared[ln])))
            if why:
                unmet = decl is not None and any(req and (n.lower() not in lident or (vals_ and not set(vals_) <= lident.get(n.lower(), set())))
                                                  for n, req, vals_ in decl)
                key = why[0]
                if unmet and key in ("C07/attribute-outside-sp-declaration", "C07/value-outside-sp-declared-values", "C07/attribute-outside-attribute-restrictions",
                                     "C07/value-not-matching-configured-pattern"):
                    key = "C07/unfiltered-identity-released-when-requirement-unmet"
                if ent is not None and not ent and key == "C07/attribute-outside-entity-category-entitlement":
                    key = "C07/empty-entity-category-entitlement-treated-as-no-restriction"
                viol.append({"key": key, "what": desc + ": " + why[1], "detail": {"released": [(r[0], r[2]) for r in released], "identity": ident}})
                break
        if viol:
            break
    outcome = ("success+%d-attrs" % len(released)) if success else "error-status"
    if success and not released:
        outcome = "success-no-attributes"
    return {"outcome": outcome if len(outcome) < 30 else outcome, "nontrivial": bool(rules), "violations": viol,
            "counters": {"released_values_checked": n_rel, "error_responses": int(not success), "rules:" + "+".join(rules or ["none"]): 1,
                         "unmet_requirement_cases": int(bool(decl) and any(req and (n.lower() not in lident or (vs and not set(vs) <= lident.get(n.lower(), set())))
                                                                           for n, req, vs in decl))},
            "obs": {"released": [(r[0], r[2]) for r in released][:8], "rules": rules}}


def finalize(cases, results, tier, extras):
    inc = []
    tot = {}
    for r in results:
        for k, v in r.get("counters", {}).items():
            tot[k] = tot.get(k, 0) + v
    if not tot.get("released_values_checked"):
        inc.append("no released value was ever checked")
    if not tot.get("unmet_requirement_cases"):
        inc.append("no case with an unmet SP requirement ran")
    return {"inconclusive": inc, "coverage": {"policy_shapes": sorted(POLICIES), "declarations": sorted(DECLS), "category_layouts": sorted(CATS)}}
