"""C11 - no XML entry point resolves entities, DTD content or external resources.

Entry points are discovered by introspection (every *_from_string of every schema
module, the generic constructors, everything in soap/pack that takes a text, the
metadata loaders, the protocol parse functions of client and server in every binding)
and fed a catalogue of hostile documents.  Monitors: sys.addaudithook (file opens,
sockets, urllib, subprocess), a parser-construction monitor installed before the package
is imported (vlib.parsermon), the returned objects (canary text) and the xmlsec driver
log (an entity-bearing document must never reach the tool).
"""
from vlib import env, parsermon
parsermon.install()          # before saml2_tophat / defusedxml are imported

import ast            # noqa: E402
import base64
import gc         # noqa: E402
import importlib      # noqa: E402
import os             # noqa: E402
import random         # noqa: E402
import zlib           # noqa: E402
import re             # noqa: E402
import collections    # noqa: E402

PROPERTY = "C11"
LEVEL = "exploration"
RULE = ("one execution = one hostile or malformed document given to one public parse entry point while the audit hook, the parser-"
        "construction monitor and the tool log are recording; non-trivial = an XML parser was actually constructed on the document "
        "inside the package (a saml2_tophat frame on the stack); distinct = (entry point, payload kind)")
ASSUMPTIONS = ["entry points are those reachable by introspection of the modules named in gen_cases; a parsing call site not behind any of "
               "them is reported as unreached (inconclusive), not as held",
               "CPython audit events 'open' and 'socket.*' are raised for every file/network access made from Python code"]

CANARY_TEXT = "CANARY-7f3a9c-SECRET-CONTENT"
ENTITY_KINDS = ("internal-entity", "external-file-entity", "external-http-entity", "parameter-entity", "billion-laughs",
                "utf16-internal-entity", "attr-entity")
OTHER_KINDS = ("external-dtd-only", "attlist-default", "xinclude", "xml-stylesheet-pi", "utf16-plain", "utf8-bom")


def canary_paths(scratch):
    c = os.path.join(scratch, "canary-secret.txt")
    d = os.path.join(scratch, "canary.dtd")
    if not os.path.exists(c):
        with open(c, "w") as f:
            f.write(CANARY_TEXT)
        with open(d, "w") as f:
            f.write('<!ENTITY dtdent "%s-DTD">' % CANARY_TEXT)
    return c, d


def _split_root(doc):
    """(prolog, root_start_tag, rest) of a document text"""
    s = doc
    i = 0
    while True:
        j = s.index("<", i)
        if s[j + 1] in "?!":
            i = s.index(">", j) + 1
            continue
        break
    k = j
    q = None
    while True:
        ch = s[k]
        if q:
            if ch == q:
                q = None
        elif ch in "\"'":
            q = ch
        elif ch == ">":
            break
        k += 1
    return s[:j], s[j:k + 1], s[k + 1:]


def is_entity_kind(k):
    return k.split("/")[0] in ENTITY_KINDS


TEXT_ENCODINGS = [None, "UTF-8", "ISO-8859-1", "US-ASCII", "UTF-16", "windows-1252"]


def hostile(doc, scratch, text_variants=False, rng=None, per_kind=2):
    """yield (kind, data) hostile variants of a valid document text.  data is bytes; with text_variants also the same documents as str
    (entry points that take text), with and without an XML declaration naming an encoding - what a str 'is encoded in' is whatever the
    declaration claims, and the parser path may depend on it.  Bytes in a declared single-byte encoding are always included."""
    for k, data in _hostile(doc, scratch):
        yield k, data
        if not is_entity_kind(k) or k.startswith("utf16"):
            continue
        txt = data.decode("utf-8")
        yield k + "/bytes:iso-8859-1", ('<?xml version="1.0" encoding="ISO-8859-1"?>' + txt).encode("latin-1", "replace")
        if text_variants:
            encs = TEXT_ENCODINGS if rng is None else rng.sample(TEXT_ENCODINGS, per_kind)
            for enc in encs:
                yield k + "/str:" + (enc or "no-declaration"), (('<?xml version="1.0" encoding="%s"?>' % enc) if enc else "") + txt


def _hostile(doc, scratch):
    c, d = canary_paths(scratch)
    prolog, stag, rest = _split_root(doc)
    selfclosing = stag.endswith("/>")
    name = stag[1:].split()[0].rstrip("/>")

    def with_ref(ref):
        if selfclosing:
            return stag[:-2] + ">" + ref + "</" + name + ">" + rest
        return stag + ref + rest

    yield "internal-entity", ('<!DOCTYPE r [<!ENTITY e "%s-INTERNAL">]>' % CANARY_TEXT + with_ref("&e;")).encode()
    yield "external-file-entity", ('<!DOCTYPE r [<!ENTITY e SYSTEM "file://%s">]>' % c + with_ref("&e;")).encode()
    yield "external-http-entity", ('<!DOCTYPE r [<!ENTITY e SYSTEM "http://127.0.0.1:9/canary.txt">]>' + with_ref("&e;")).encode()
    yield "parameter-entity", ('<!DOCTYPE r [<!ENTITY %% p SYSTEM "file://%s"> %%p;]>' % d + with_ref("&dtdent;")).encode()
    laughs = '<!DOCTYPE r [<!ENTITY a "%s"><!ENTITY b "&a;&a;&a;&a;&a;&a;&a;&a;"><!ENTITY c "&b;&b;&b;&b;&b;&b;&b;&b;"><!ENTITY d "&c;&c;&c;&c;&c;&c;&c;&c;">]>' % ("ha" * 20)
    yield "billion-laughs", (laughs + with_ref("&d;")).encode()
    yield "utf16-internal-entity", ('<?xml version="1.0" encoding="UTF-16"?><!DOCTYPE r [<!ENTITY e "%s-INTERNAL">]>' % CANARY_TEXT + with_ref("&e;")).encode("utf-16")
    # entity referenced from an attribute value
    astag = (stag[:-2] if selfclosing else stag[:-1]) + ' verifattr="&e;"' + ("/>" if selfclosing else ">")
    yield "attr-entity", ('<!DOCTYPE r [<!ENTITY e "%s-INTERNAL">]>' % CANARY_TEXT + astag + rest).encode()
    yield "external-dtd-only", ('<!DOCTYPE r SYSTEM "file://%s">' % d + stag + rest).encode()
    # DTD content that changes what the parser hands over without any entity: a default attribute value for the root element
    yield "attlist-default", ('<!DOCTYPE %s [<!ATTLIST %s verifdefault CDATA "%s-INTERNAL">]>' % (name, name, CANARY_TEXT) + stag + rest).encode()
    yield "xinclude", with_ref('<xi:include xmlns:xi="http://www.w3.org/2001/XInclude" href="file://%s" parse="text"/>' % c).encode()
    yield "xml-stylesheet-pi", ('<?xml-stylesheet type="text/xsl" href="file://%s"?>' % c + stag + rest).encode()
    yield "utf16-plain", ('<?xml version="1.0" encoding="UTF-16"?>' + stag + rest).encode("utf-16")
    yield "utf8-bom", b"\xef\xbb\xbf" + (stag + rest).encode()


def malformed(doc, rng, n):
    """truncations at structural boundaries and non-XML inputs; each must raise or give None"""
    b = doc.encode("utf-8") if isinstance(doc, str) else doc
    cuts = [i for i, ch in enumerate(b) if ch in b"<>\"= /"]
    picks = sorted(set(rng.sample(cuts, min(n, len(cuts))) + [1, len(b) - 1, len(b) // 2]))
    for i in picks:
        if 0 < i < len(b):
            yield "truncated@%d%%" % (100 * i // len(b)), b[:i]
    for k, junk in enumerate([b"", b" ", b"not xml at all", b"\x00\x01\x02\xff\xfe", b"{\"json\": true}", b"<", b"<a", b"<a><b></a></b>",
                              b"<?xml version='1.0'?>", b"<a/><b/>", b"\xff\xfe<\x00a\x00"]):
        yield "non-xml-%d" % k, junk


# ------------------------------------------------------------------ entry points

def discover():
    """list of (group, name) for every entry point; resolved again in the worker"""
    from vlib import schema
    eps = []
    for mod in schema.schema_modules():
        for name in sorted(vars(mod)):
            if name.endswith("_from_string") and callable(getattr(mod, name)):
                eps.append(("from_string", mod.__name__, name))
    import saml2_tophat.soap as soap
    for name in sorted(vars(soap)):
        if name.startswith("parse_soap_enveloped") and callable(getattr(soap, name)) and name != "parse_soap_enveloped_saml_thingy":
            eps.append(("soap", "saml2_tophat.soap", name))
    for name in ("parse_soap_enveloped_saml_thingy", "open_soap_envelope", "class_instances_from_soap_enveloped_saml_thingies"):
        eps.append(("soap", "saml2_tophat.soap", name))
    eps.append(("soap", "saml2_tophat.pack", "parse_soap_enveloped_saml"))
    eps.append(("generic", "saml2_tophat", "create_class_from_xml_string"))
    eps.append(("generic", "saml2_tophat", "extension_element_from_string"))
    return eps


def static_call_sites():
    """syntactic inventory of XML parsing call sites in the package (coverage measure, not the oracle)"""
    sites = []
    root = os.path.join(env.SRC, "saml2_tophat")
    names = {"fromstring", "XML", "parse", "iterparse", "parseString", "make_parser", "ParserCreate", "fromstringlist", "XMLParser", "DefusedXMLParser", "XMLPullParser"}
    for dp, dn, fns in os.walk(root):
        if "s2repoze" in dp:
            continue
        for fn in fns:
            if not fn.endswith(".py"):
                continue
            p = os.path.join(dp, fn)
            try:
                with open(p, encoding="utf-8") as fh:
                    tree = ast.parse(fh.read())
            except SyntaxError:
                continue
            for node in ast.walk(tree):
                if isinstance(node, ast.Call) and isinstance(node.func, ast.Attribute) and node.func.attr in names:
                    src = ast.unparse(node.func)
                    if any(x in src for x in ("ElementTree", "etree", "minidom", "sax", "expat", "defusedxml", "ET.")):
                        sites.append(("%s:%d" % (os.path.relpath(p, root), node.lineno), src))
    return sites


def gen_cases(tier, seed):
    env.assert_repo_is_source()
    eps = discover()
    cases = []
    # group the ~1100 *_from_string functions by module
    bymod = {}
    for g, m, n in eps:
        if g == "from_string":
            bymod.setdefault(m, []).append(n)
    for m, names in sorted(bymod.items()):
        chunk = 40
        for i in range(0, len(names), chunk):
            cases.append({"id": "from_string:%s:%d" % (m, i // chunk), "sig": ["from_string", m, i // chunk], "kind": "from_string",
                          "module": m, "names": names[i:i + chunk], "trunc": 4 if tier == "quick" else 60})
    cases.append({"id": "generic-and-soap", "sig": ["generic-and-soap"], "kind": "soap",
                  "eps": [[g, m, n] for g, m, n in eps if g in ("soap", "generic")], "trunc": 12 if tier == "quick" else 100000})
    for b in ("post", "redirect", "soap"):
        cases.append({"id": "protocol-%s" % b, "sig": ["protocol", b], "kind": "protocol", "binding": b, "trunc": 10 if tier == "quick" else 100000})
    cases.append({"id": "metadata", "sig": ["metadata"], "kind": "metadata", "trunc": 10 if tier == "quick" else 100000})
    cases.append({"id": "signed-with-doctype", "sig": ["signed-with-doctype"], "kind": "signed"})
    cases.append({"id": "encrypted-references", "sig": ["encrypted-references"], "kind": "encrypted-references", "all_envs": True})
    # hostile documents delivered by one thread while other threads of the same process handle ordinary traffic (SOAP requests, POST
    # responses, metadata loads) - yields injected inside the library
    for k in range(2 if tier == "quick" else 12):
        cases.append({"id": "threads-%d" % k, "sig": ["threads", k], "kind": "threads", "own_worker": True, "all_envs": True, "k": k, "rounds": 20 if tier == "quick" else 100})
    if tier == "thorough" and not os.environ.get("VERIF_C11_TRACED"):
        # the repository's own test suite (with the driver on its PATH, so that the signature tests run too) as one more workload for the
        # parser-construction monitor: whatever the tests drive, a parser built inside the package is the defused one
        cases.append({"id": "repo-test-suite-under-parser-monitor", "sig": ["repo-test-suite"], "kind": "suite"})
    if not os.environ.get("VERIF_C11_TRACED"):
        # the same signed and protocol cases once more in a child process under strace: the operating system's view of the whole process
        # tree, external signature tool included (audit hooks end at the interpreter)
        cases.append({"id": "os-level-trace", "sig": ["os-level-trace"], "kind": "strace",
                      "only": ["signed-with-doctype", "protocol-post", "encrypted-references"] if tier == "quick" else ["signed-with-doctype", "protocol-", "metadata", "generic-and-soap", "encrypted-references"]})
    return cases


class Obs(object):
    def __init__(self, ctx):
        self.ctx = ctx
        self.viol = []
        self.counters = {}
        self.sigs = []
        self.reached = set()
        # the operating system's view of the canary files: an open or read by any process, the external tool included
        from vlib import fswatch
        self.watch = fswatch.Watch(list(canary_paths(ctx.scratch))).__enter__()
        self.counters["os_level_canary_watch"] = int(self.watch.available)
        self.listener = None

    def listen(self):
        """a local TCP port nobody has a reason to talk to; returns its number.  Whoever connects is counted and sent away at once
        (a peer that is kept waiting would keep the external tool - and with it the library - waiting)."""
        import socket
        import threading
        if self.listener is None:
            s = socket.socket(socket.AF_INET, socket.SOCK_STREAM)
            s.bind(("127.0.0.1", 0))
            s.listen(16)
            s.settimeout(0.2)
            self.listener = s
            self._nconn = 0
            self._stop = False

            def serve():
                while not self._stop:
                    try:
                        c, _a = s.accept()
                    except socket.timeout:
                        continue
                    except OSError:
                        break
                    self._nconn += 1
                    try:
                        c.sendall(b"HTTP/1.0 404 Not Found\r\nContent-Length: 0\r\n\r\n")
                        c.close()
                    except OSError:
                        pass
            self._thread = threading.Thread(target=serve, daemon=True)
            self._thread.start()
        return self.listener.getsockname()[1]

    def connections(self):
        if self.listener is None:
            return 0
        n, self._nconn = self._nconn, 0
        return n

    def close(self):
        self.watch.__exit__()
        if self.listener is not None:
            self._stop = True
            self.listener.close()
            self.listener = None

    def hit(self, k, n=1):
        self.counters[k] = self.counters.get(k, 0) + n

    def call(self, epname, kind, fn, data, expect):
        """expect: 'raise' (entity declared), 'raise-or-none' (malformed), 'any' (no entity declared)"""
        out = self._call(epname, kind, fn, data, expect)
        if expect in ("raise", "raise-or-none"):
            # the same document again, immediately: a refusal must not have left anything behind that answers for it
            self._call(epname, kind + "/again", fn, data, expect)
        return out

    def _call(self, epname, kind, fn, data, expect):
        scratch = self.ctx.scratch
        self.ctx.mark()
        with parsermon.watch() as w:
            try:
                r = fn(data)
                out = ("value", r)
            except BaseException as exc:
                if isinstance(exc, (KeyboardInterrupt, SystemExit, MemoryError)):
                    raise
                out = ("raise", exc)
        self.hit("calls")
        inpkg = [p for p in w.parsers if p["site"]]
        for p in inpkg:
            self.reached.add(p["site"])
        if inpkg:
            self.sigs.append([epname, kind.split("@")[0].replace("/again", "")])
            self.hit("parser_constructions_in_package", len(inpkg))
        ctxs = "%s <- %s" % (epname, kind)
        # (1) no resource access caused by document content
        for name, detail in w.audit:
            if name == "open" and ("canary" in detail):
                self.viol.append({"key": "C11/file-read-because-of-document-content", "what": "%s: opened %s" % (ctxs, detail)})
            elif name.startswith("socket.") or name in ("urllib.Request", "http.client.connect", "ftplib.connect"):
                self.viol.append({"key": "C11/network-access-because-of-document-content", "what": "%s: %s %s" % (ctxs, name, detail)})
        for path, what in self.watch.events():
            self.viol.append({"key": "C11/file-read-because-of-document-content",
                              "what": "%s: %s of %s by a process of this tree (seen by the operating system, not by the interpreter: the external tool)" % (
                                  ctxs, what, os.path.basename(path))})
        nconn = self.connections()
        if nconn:
            self.viol.append({"key": "C11/network-access-because-of-document-content",
                              "what": "%s: %d connection(s) arrived at the local port named in the document" % (ctxs, nconn)})
        # (2) non-defused parser on inbound data
        for p in inpkg:
            if not p["defused"]:
                self.viol.append({"key": "C11/non-defused-parser-on-inbound-data",
                                  "what": "%s: %s constructed at saml2_tophat/%s without entity/external protection" % (ctxs, p["api"], p["site"])})
        # (3) canary text never surfaces
        if out[0] == "value" and out[1] is not None:
            try:
                txt = repr(out[1]) + str(out[1])
            except Exception:
                txt = repr(out[1])
            if CANARY_TEXT in txt or ("haha" * 30) in txt:
                self.viol.append({"key": "C11/entity-or-external-content-expanded", "what": "%s: result contains expanded content" % ctxs})
        # (4) verdict on the outcome
        if expect == "raise" and out[0] == "value" and out[1] is not None:
            self.viol.append({"key": "C11/entity-declaring-document-accepted",
                              "what": "%s: returned %s instead of refusing the document" % (ctxs, type(out[1]).__name__)})
        if expect == "raise-or-none" and out[0] == "value" and out[1] is not None and out[1] != "" and out[1] != b"":
            self.viol.append({"key": "C11/malformed-input-yields-object",
                              "what": "%s: returned %s for malformed input %r" % (ctxs, type(out[1]).__name__, data[:60])})
        # (5) the tool never sees an entity declaration
        for e in self.ctx.events():
            if b"<!ENTITY" in e.get("input", b"") or b"<!ENTITY" in e.get("xmldata", b""):
                self.viol.append({"key": "C11/entity-bearing-document-handed-to-tool", "what": "%s: tool %s got a document with an entity declaration" % (ctxs, e.get("cmd"))})
        self.hit("outcome:" + (("raise:" + type(out[1]).__name__) if out[0] == "raise" else ("none" if out[1] is None else "object")))
        return out


def _valid_doc_for(cls, rng):
    from vlib import schema
    inst = schema.make_instance(cls, rng, 1, 0.6, 0.0, {})
    return inst.to_string().decode("utf-8")


def run_case(case, ctx):
    import saml2_tophat
    from vlib import schema, fed
    o = Obs(ctx)
    rng = random.Random("%s/%s" % (ctx.seed, case["id"]))
    scratch = ctx.scratch
    kind = case["kind"]
    if kind == "from_string":
        mod = importlib.import_module(case["module"])
        by_fn = {}
        for cls in schema.element_classes(mod):
            by_fn[_fs_name(cls)] = cls
        for name in case["names"]:
            fn = getattr(mod, name)
            cls = by_fn.get(name)
            if cls is None:
                # find the class whose tag the function accepts: try all classes of the module
                cls = _class_for(mod, fn, rng)
            if cls is None:
                o.hit("entry_points_without_class")
                continue
            try:
                doc = _valid_doc_for(cls, rng)
            except Exception:
                o.hit("entry_points_unbuildable")
                continue
            ep = "%s.%s" % (case["module"].replace("saml2_tophat.", ""), name)
            base = o.call(ep, "valid", fn, doc, "any")
            if base[0] != "value" or base[1] is None:
                o.hit("valid_document_not_accepted")
            for k, data in hostile(doc, scratch, True, rng if ctx.tier == "quick" else None):
                o.call(ep, k, fn, data, "raise" if is_entity_kind(k) else "any")
            for k, data in malformed(doc, rng, case["trunc"]):
                o.call(ep, k, fn, data, "raise-or-none")
    elif kind == "soap":
        import saml2_tophat.soap as soap
        import saml2_tophat.pack as pack
        from saml2_tophat import samlp, saml
        sp, idp = fed.pair()
        rid, req = sp.create_authn_request(fed.SSO_REDIRECT)
        msgs = {"authn_request": "%s" % req, "response": fed.issue(idp, {"givenName": ["Ann"]}, sign_response=False)}
        for g, m, n in case["eps"]:
            mod = importlib.import_module(m)
            fn = getattr(mod, n)
            ep = "%s.%s" % (m.replace("saml2_tophat.", "") or "saml2_tophat", n)
            if n == "create_class_from_xml_string":
                for cls, doc in ((samlp.AuthnRequest, msgs["authn_request"]), (samlp.Response, msgs["response"])):
                    f = (lambda c: (lambda d: saml2_tophat.create_class_from_xml_string(c, d)))(cls)
                    _battery(o, ep + "[%s]" % cls.__name__, f, doc, scratch, rng, case["trunc"], text_variants=True)
                continue
            if n == "extension_element_from_string":
                _battery(o, ep, fn, msgs["authn_request"], scratch, rng, case["trunc"], text_variants=True)
                continue
            inner = msgs["response"] if "response" in n else msgs["authn_request"]
            envelope = pack.make_soap_enveloped_saml_thingy(inner)
            if not isinstance(envelope, str):
                envelope = envelope.decode("utf-8")
            if n == "parse_soap_enveloped_saml_thingy":
                f = lambda d: soap.parse_soap_enveloped_saml_thingy(d, ["{%s}AuthnRequest" % samlp.NAMESPACE])
            elif n == "class_instances_from_soap_enveloped_saml_thingies":
                f = lambda d: soap.class_instances_from_soap_enveloped_saml_thingies(d, [samlp, saml])
            elif n == "parse_soap_enveloped_saml":
                f = lambda d: pack.parse_soap_enveloped_saml(d, samlp.AuthnRequest)
            else:
                f = fn
            _battery(o, ep, f, envelope, scratch, rng, case["trunc"], inner_too=inner, text_variants=True)
    elif kind == "protocol":
        from saml2_tophat import BINDING_HTTP_POST, BINDING_HTTP_REDIRECT, BINDING_SOAP
        import saml2_tophat.pack as pack
        sp, idp = fed.pair(fed.sp_conf(want_response_signed=False), None)
        rid, req = sp.create_authn_request(fed.SSO_REDIRECT)
        reqxml = "%s" % req
        respxml = fed.issue(idp, {"givenName": ["Ann"]}, sign_response=False)
        b = case["binding"]

        def enc(data):
            if isinstance(data, str):
                data = data.encode("utf-8")
            if b == "post":
                return base64.b64encode(data).decode("ascii")
            if b == "redirect":
                return base64.b64encode(zlib.compress(data)[2:-4]).decode("ascii")
            return data

        binding = {"post": BINDING_HTTP_POST, "redirect": BINDING_HTTP_REDIRECT, "soap": BINDING_SOAP}[b]

        def wrap_soap(d):
            if b != "soap":
                return d
            s = d.decode("utf-8", "replace") if isinstance(d, bytes) else d
            return '<ns0:Envelope xmlns:ns0="http://schemas.xmlsoap.org/soap/envelope/"><ns0:Body>%s</ns0:Body></ns0:Envelope>' % s

        eps = []
        if b != "soap":
            eps.append(("client.parse_authn_request_response", lambda d: sp.parse_authn_request_response(enc(d), binding, {"id-req-1": "/"}), respxml))
            eps.append(("server.parse_authn_request", lambda d: idp.parse_authn_request(enc(d), binding), reqxml))

            def after_valid(d):
                """a good message of exactly the same length handled (and its result dropped) right before: whatever the entity remembers about
                texts it has seen must not stand in for reading this one"""
                data = d.encode("utf-8") if isinstance(d, str) else d
                v = respxml.encode("utf-8")
                n = max(len(data), len(v))
                # (white space after the document element changes neither what the good message is nor what is wrong with the other)
                e_hostile = enc(data + b" " * (n - len(data)))
                e_valid = enc(v + b" " * (n - len(v)))
                del data, v
                out = {"id-req-1": "/"}
                res, err, good = None, None, 0
                for _round in range(3):
                    r0 = sp.parse_authn_request_response(e_valid, binding, out)
                    good += r0 is not None
                    del r0
                    gc.collect()
                    # (nothing is allocated between the two calls that is not the library's own doing)
                    try:
                        res = sp.parse_authn_request_response(e_hostile, binding, out)
                    except Exception as e:
                        err = e
                        res = None
                    if res is not None:
                        break
                    gc.collect()
                o.counters["valid_same_length_predecessors"] = o.counters.get("valid_same_length_predecessors", 0) + good
                o.counters["rounds_after_a_valid_message"] = o.counters.get("rounds_after_a_valid_message", 0) + _round + 1
                if res is None and err is not None:
                    raise err
                return res
            eps.append(("client.parse_authn_request_response[after a valid message of the same length]", after_valid, respxml))
            eps.append(("Entity.unravel+response_from_string", lambda d: __import__("saml2_tophat.samlp", fromlist=["x"]).response_from_string(
                sp.unravel(enc(d), binding)), respxml))
        else:
            eps.append(("client.parse_authn_request_response[soap]", lambda d: sp.parse_authn_request_response(d, binding, {"id-req-1": "/"}), None))
            eps.append(("server.parse_logout_request[soap]", lambda d: idp.parse_logout_request(d, binding), None))
            eps.append(("server.parse_attribute_query[soap]", lambda d: idp.parse_attribute_query(d, binding), None))
            eps.append(("Entity.parse_soap_message", lambda d: sp.parse_soap_message(d), None))
        for ep, f, doc in eps:
            if doc is None:
                doc = wrap_soap(reqxml if "server" in ep or "soap_message" in ep else respxml)
                # for SOAP the hostile prolog must sit in front of the envelope
            _battery(o, "%s[%s]" % (ep, b), f, doc, scratch, rng, case["trunc"])
            if b == "soap":
                # hostile material inside the enveloped message as well
                for k, data in hostile(reqxml if "server" in ep or "soap_message" in ep else respxml, scratch):
                    if k.startswith("utf16") or k == "utf8-bom" or "/" in k:
                        continue
                    txt = data.decode("utf-8")
                    # a DOCTYPE cannot stand inside an element; move it in front of the envelope
                    if txt.startswith("<!DOCTYPE"):
                        end = txt.index("]>") + 2 if "[" in txt.split(">")[0] + ">" or "[<!" in txt[:200] else txt.index(">") + 1
                        doctype, body = txt[:end], txt[end:]
                        payload = doctype + wrap_soap(body)
                    elif txt.startswith("<?xml-stylesheet"):
                        end = txt.index("?>") + 2
                        payload = txt[:end] + wrap_soap(txt[end:])
                    else:
                        payload = wrap_soap(txt)
                    o.call("%s[%s]" % (ep, b), k + "/inner", f, payload, "raise" if is_entity_kind(k) else "any")
    elif kind == "metadata":
        from saml2_tophat import mdstore
        from saml2_tophat.attribute_converter import ac_factory
        attrc = ac_factory()
        mdxml = fed.metadata_of(fed.idp_conf())
        wrapped = '<md:EntitiesDescriptor xmlns:md="urn:oasis:names:tc:SAML:2.0:metadata" Name="fed">%s</md:EntitiesDescriptor>' % mdxml.split("?>")[-1]

        def load_mem(d):
            m = mdstore.InMemoryMetaData(attrc, d)
            m.parse(d)
            return m if len(m.entity) else None

        def load_file(d):
            p = os.path.join(scratch, "md-%d.xml" % rng.randrange(10 ** 9))
            with open(p, "wb") as f:
                f.write(d if isinstance(d, bytes) else d.encode("utf-8"))
            try:
                m = mdstore.MetaDataFile(attrc, p)
                m.load()
                return m if len(m.entity) else None
            finally:
                os.unlink(p)

        def load_store(d):
            ms = mdstore.MetadataStore(attrc, None)
            ms.imp([{"class": "saml2_tophat.mdstore.InMemoryMetaData", "metadata": [(d,)]}])
            return ms if len(ms.keys()) else None

        for ep, f in (("mdstore.InMemoryMetaData.parse", load_mem), ("mdstore.MetaDataFile.load", load_file), ("mdstore.MetadataStore.imp[inline]", load_store)):
            for doc, tag in ((mdxml, "entity"), (wrapped, "entities")):
                _battery(o, "%s[%s]" % (ep, tag), f, doc, scratch, rng, case["trunc"], text_variants=True)
        # scale: federation aggregates of many megabytes that declare entities - whatever a loader does differently for big input, it is
        # the same refusal
        one = mdxml.split("?>")[-1]
        eid = fed.IDP_EID

        def aggregate(nbytes, decl, ref):
            n = max(1, nbytes // (len(one) + 8))
            parts = [one.replace(eid, "https://e%06d.example.org/md" % i) for i in range(n - 1)]
            parts.append(one.replace(eid, "https://last.example.org/md").replace(fed.SSO_REDIRECT, ref))
            return ("%s<md:EntitiesDescriptor xmlns:md=\"urn:oasis:names:tc:SAML:2.0:metadata\" Name=\"big\">%s</md:EntitiesDescriptor>" % (decl, "".join(parts))).encode("utf-8")

        def load_dir(d):
            dd = os.path.join(scratch, "md-dir-%d" % rng.randrange(10 ** 9))
            os.mkdir(dd)
            with open(os.path.join(dd, "fed.xml"), "wb") as fh:
                fh.write(d)
            try:
                ms = mdstore.MetadataStore(attrc, None)
                ms.load("local", dd)
                return ms if len(ms.keys()) else None
            finally:
                import shutil as _sh
                _sh.rmtree(dd, ignore_errors=True)

        def load_classlist(d):
            pth = os.path.join(scratch, "md-big-%d.xml" % rng.randrange(10 ** 9))
            with open(pth, "wb") as fh:
                fh.write(d)
            try:
                ms = mdstore.MetadataStore(attrc, None)
                ms.imp([{"class": "saml2_tophat.mdstore.MetaDataFile", "metadata": [(pth,)]}])
                return ms if len(ms.keys()) else None
            finally:
                os.unlink(pth)
        sizes = (1 << 20, 20 << 20) if ctx.tier == "quick" else (1 << 20, 20 << 20, 70 << 20, 150 << 20)
        for nbytes in sizes:
            big = aggregate(nbytes, '<!DOCTYPE md [<!ENTITY e "https://evil.example.net/collect"><!ENTITY b "&e;&e;">]>', "&e;")
            for ep, f in (("mdstore.MetaDataFile.load", load_file), ("mdstore.MetadataStore.load[local directory]", load_dir), ("mdstore.MetadataStore.imp[file class list]", load_classlist)):
                o.call("%s[%d MiB]" % (ep, nbytes >> 20), "internal-entity/big", f, big, "raise")
            del big
    elif kind == "strace":
        return run_traced(case, ctx)
    elif kind == "suite":
        return run_suite(case, ctx)
    elif kind == "threads":
        return run_threads_case(case, ctx)
    elif kind == "encrypted-references":
        _encrypted_references(o, case, ctx)
    elif kind == "signed":
        # a validly signed response with a DOCTYPE (no entity), a PI and a comment in front: may be accepted, nothing may be fetched,
        # and this is what reaches the parse inside the signature check
        c, d = canary_paths(scratch)
        sp, idp = fed.pair()
        for sr, sa in ((True, False), (True, True)):
            xml = fed.issue(idp, {"givenName": ["Ann"]}, sign_response=sr, sign_assertion=sa)
            body = xml.split("?>", 1)[1] if xml.startswith("<?xml") else xml
            for k, pre in (("external-dtd-only", '<!DOCTYPE r SYSTEM "file://%s">' % d), ("xml-stylesheet-pi", '<?xml-stylesheet href="file://%s"?>' % c),
                           ("comment", "<!-- c -->"), ("internal-entity", '<!DOCTYPE r [<!ENTITY e "x">]>')):
                f = lambda data: sp.parse_authn_request_response(base64.b64encode(data).decode(), "urn:oasis:names:tc:SAML:2.0:bindings:HTTP-POST", {"id-req-1": "/"})
                o.call("client.parse_authn_request_response[signed]", k, f, (pre + body).encode("utf-8"), "raise" if is_entity_kind(k) else "any")
    o.close()
    uniq = {}
    for v in o.viol:
        uniq.setdefault(v["key"] + "|" + v["what"].split(" <- ")[0][-60:], v)
    return {"outcome": "violations" if o.viol else "held", "nontrivial": bool(o.sigs), "violations": list(uniq.values())[:15], "counters": o.counters,
            "sigs": o.sigs, "evals": o.counters.get("calls", 0), "obs": {"reached_sites": sorted(o.reached)}, "reached": sorted(o.reached)}


def _encrypted_references(o, case, ctx):
    """XML Encryption lets a document say that the cipher text (xenc:CipherReference) or the key (ds:RetrievalMethod) is to be fetched from
    a URI.  Decryption is the external tool's job, so this is where a file or a network resource named by an incoming message would be
    read without the interpreter seeing anything: oracle = inotify on the canary files + a listening local port."""
    from vlib import fed, xmlkit as xk
    c, _d = canary_paths(ctx.scratch)
    port = o.listen()
    sp, idp = fed.pair(fed.sp_conf(want_response_signed=False, want_assertions_signed=False), None)
    ident = {"givenName": ["Ann"], "mail": ["ann@example.org"]}
    plain = fed.issue(idp, ident, sign_response=False, sign_assertion=False)
    cert = fed.key(2)[1]
    docs = {"EncryptedAssertion": xk.encrypt_assertions(plain, cert)}
    d = xk.Doc(plain)
    nid = d.find(xk.SAML, "NameID")[0]
    pfx = d.prefix(nid)
    ed = xk.encrypt_fragment(d.standalone(nid), cert).decode("utf-8")
    docs["EncryptedID"] = d.replace(nid, "<%s:EncryptedID>%s</%s:EncryptedID>" % (pfx, ed, pfx)).text()
    # (saml:EncryptedAttribute is left out: response.decrypt_attributes() hands the tool wrapper an object where it wants text and ends in
    # a TypeError before any tool run, on every tree)
    post = "urn:oasis:names:tc:SAML:2.0:bindings:HTTP-POST"
    f = lambda data: sp.parse_authn_request_response(base64.b64encode(data).decode(), post, {"id-req-1": "/"})
    uris = {"file-uri": "file://" + c, "bare-path": c, "http-uri": "http://127.0.0.1:%d/canary.txt" % port}
    b64t = '<xenc:Transforms xmlns:xenc="%s"><ds:Transform xmlns:ds="%s" Algorithm="http://www.w3.org/2000/09/xmldsig#base64"/></xenc:Transforms>' % (xk.XENC, xk.DS)
    for cont, xml in sorted(docs.items()):
        base = o.call("client.parse_authn_request_response[%s]" % cont, "as-issued", f, xml.encode("utf-8"), "any")
        if base[0] != "value" or base[1] is None:
            o.hit("valid_document_not_accepted")
        else:
            o.hit("encrypted_documents_accepted_as_issued")
        cv = list(re.finditer(r"<xenc:CipherValue>[^<]*</xenc:CipherValue>", xml))
        ek = re.search(r"<ds:KeyInfo><xenc:EncryptedKey>.*?</xenc:EncryptedKey></ds:KeyInfo>", xml, re.S)
        kn = re.search(r"<ds:KeyInfo><ds:KeyName>[^<]*</ds:KeyName></ds:KeyInfo>", xml)
        if len(cv) != 2 or not ek or not kn:
            o.hit("harness_could_not_build_reference_documents")
            continue
        for uname, uri in sorted(uris.items()):
            variants = {
                "cipher-data-by-reference": xml[:cv[1].start()] + '<xenc:CipherReference URI="%s"/>' % uri + xml[cv[1].end():],
                "cipher-data-by-reference-with-transforms": xml[:cv[1].start()] + '<xenc:CipherReference URI="%s">%s</xenc:CipherReference>' % (uri, b64t) + xml[cv[1].end():],
                "encrypted-key-by-reference": xml[:cv[0].start()] + '<xenc:CipherReference URI="%s"/>' % uri + xml[cv[0].end():],
                "key-by-retrieval-method": xml[:ek.start()] + '<ds:KeyInfo><ds:RetrievalMethod URI="%s" Type="http://www.w3.org/2001/04/xmlenc#EncryptedKey"/></ds:KeyInfo>' % uri + xml[ek.end():],
                "key-encryption-key-by-retrieval-method": xml[:kn.start()] + '<ds:KeyInfo><ds:RetrievalMethod URI="%s" Type="http://www.w3.org/2000/09/xmldsig#rawX509Certificate"/></ds:KeyInfo>' % uri + xml[kn.end():],
            }
            for vname, text in sorted(variants.items()):
                o.hit("reference_documents")
                o._call("client.parse_authn_request_response[%s]" % cont, "%s:%s" % (vname, uname), f, text.encode("utf-8"), "any")
                if cont == "EncryptedAssertion" and vname in ("cipher-data-by-reference", "encrypted-key-by-reference", "key-by-retrieval-method"):
                    # the same element one layer down: it only comes to light when the outer EncryptedData (genuinely encrypted to this SP, and
                    # without any reference) has been decrypted - what a decryption pass produces is inbound content like what arrived
                    inner = re.search(r"<xenc:EncryptedData.*</xenc:EncryptedData>", text, re.S)
                    outer0 = re.search(r"<xenc:EncryptedData.*</xenc:EncryptedData>", xml, re.S)
                    if inner and outer0:
                        try:
                            wrapped_ed = xk.encrypt_fragment(inner.group(0), cert).decode("utf-8")
                        except Exception:
                            o.hit("harness_could_not_build_reference_documents")
                            continue
                        nested = xml[:outer0.start()] + wrapped_ed + xml[outer0.end():]
                        o.hit("reference_documents_one_layer_down")
                        o._call("client.parse_authn_request_response[%s]" % cont, "%s:%s:inside-cipher-text" % (vname, uname), f, nested.encode("utf-8"), "any")
        # the one use of ds:RetrievalMethod that SAML deployments do make: the EncryptedKey next to the EncryptedData, named by a
        # same-document reference.  Refusing external references must not refuse this.
        key_el = ek.group(0)[len("<ds:KeyInfo>"):-len("</ds:KeyInfo>")].replace("<xenc:EncryptedKey>", '<xenc:EncryptedKey xmlns:xenc="%s" xmlns:ds="%s" Id="peer-key-1">' % (xk.XENC, xk.DS), 1)
        peer = xml[:ek.start()] + '<ds:KeyInfo><ds:RetrievalMethod URI="#peer-key-1" Type="http://www.w3.org/2001/04/xmlenc#EncryptedKey"/></ds:KeyInfo>' + xml[ek.end():]
        peer = peer.replace("</xenc:EncryptedData>", "</xenc:EncryptedData>" + key_el, 1)
        r = o._call("client.parse_authn_request_response[%s]" % cont, "key-next-to-data-by-same-document-reference", f, peer.encode("utf-8"), "any")
        o.hit("same_document_key_reference_accepted" if (r[0] == "value" and r[1] is not None) else "same_document_key_reference_refused")


_SYSCALL = re.compile(r'^(\d+)\s+(openat|open|connect|execve)\((.*)$')


def run_traced(case, ctx):
    """Run some of this check's own cases in a child interpreter under `strace -f`; oracle over the system-call log of the whole tree:
    no open of a canary file by anyone, no connect() to an inet address, no program executed other than the interpreter and the driver."""
    import shutil
    import subprocess
    import sys
    st = shutil.which("strace")
    if not st:
        return {"outcome": "no-strace", "nontrivial": False, "violations": [], "counters": {"strace_unavailable": 1}}
    viol, counters, sigs = [], collections.Counter(), []
    for only in case["only"]:
        trace = os.path.join(ctx.scratch, "trace-%s.txt" % only.strip("-"))
        child_env = dict(os.environ, VERIF_C11_TRACED="1", VERIF_TMP=os.path.join(ctx.scratch, "traced"))
        os.makedirs(child_env["VERIF_TMP"], exist_ok=True)
        cmd = [st, "-f", "-qq", "-s", "300", "-e", "trace=openat,open,connect,execve", "-o", trace, sys.executable, "-W", "ignore", "-c",
               "import sys; from vlib import runner; sys.exit(runner.main('checks.c11', sys.argv[1:]))",
               "--tier", "quick", "--inproc", "--only", only, "--no-evidence"]
        try:
            p = subprocess.run(cmd, cwd=env.VERIF, env=child_env, stdout=subprocess.PIPE, stderr=subprocess.STDOUT, timeout=1500)
        except subprocess.TimeoutExpired:
            counters["traced_runs_timed_out"] += 1
            continue
        out = p.stdout.decode("utf-8", "replace")
        if not os.path.exists(trace) or "ptrace" in out and "not permitted" in out:
            counters["strace_unavailable"] += 1
            continue
        counters["traced_runs"] += 1
        if p.returncode == 1:
            # the child found what the in-process monitors find; they report it themselves in the ordinary cases
            counters["traced_child_reported_violation"] += 1
        progs = set()
        with open(trace, errors="replace") as f:
            for line in f:
                m = _SYSCALL.match(line)
                if not m:
                    continue
                pid, call, rest = m.groups()
                counters["syscalls_seen"] += 1
                if call in ("open", "openat"):
                    counters["opens_seen"] += 1
                    if "canary" in rest and "O_WRONLY" not in rest and "O_RDWR" not in rest and "O_CREAT" not in rest:
                        viol.append({"key": "C11/os-level-canary-opened", "what": "a process of the tree opened a canary file while hostile documents were being parsed: %s" % rest[:200],
                                     "detail": {"cases": only}})
                elif call == "connect":
                    counters["connects_seen"] += 1
                    if "AF_INET" in rest:
                        viol.append({"key": "C11/os-level-connect", "what": "a process of the tree connected to %s" % rest[:160], "detail": {"cases": only}})
                elif call == "execve" and rest.rstrip().endswith("= 0"):
                    prog = rest.split('"')[1] if '"' in rest else rest[:80]
                    progs.add(os.path.basename(prog))
        counters["programs_executed"] += len(progs)
        for prog in sorted(progs):
            if not (prog.startswith("python") or prog.startswith("xmlsec1") or prog == "private-xmlsec1"):
                viol.append({"key": "C11/os-level-other-program", "what": "program %r was executed while documents were being parsed" % prog, "detail": {"cases": only}})
        if counters["opens_seen"]:
            sigs.append(["os-level-trace", only])
        try:
            os.unlink(trace)
        except OSError:
            pass
    uniq = {}
    for v in viol:
        uniq.setdefault(v["key"] + v["what"][:120], v)
    return {"outcome": "violations" if viol else "held", "nontrivial": bool(sigs), "violations": list(uniq.values())[:10], "counters": dict(counters), "sigs": sigs,
            "evals": counters["traced_runs"]}


def run_threads_case(case, ctx):
    from vlib import interleave, fed
    from saml2_tophat import samlp, md, BINDING_SOAP, BINDING_HTTP_POST
    import saml2_tophat
    sp, idp = fed.pair()
    scratch = ctx.scratch
    rid, req = sp.create_authn_request(fed.SSO_POST, binding=BINDING_HTTP_POST)
    reqxml = "%s" % req
    from saml2_tophat.saml import NameID, NAMEID_FORMAT_PERSISTENT
    nid = NameID(format=NAMEID_FORMAT_PERSISTENT, text="subject-1", sp_name_qualifier=fed.SP_EID, name_qualifier=fed.IDP_EID)
    lid, lreq = sp.create_logout_request(fed.SLO_IDP + "/soap", fed.IDP_EID, name_id=nid, reason="user")
    body_ = "%s" % lreq
    body_ = body_[body_.index("?>") + 2:] if body_.startswith("<?xml") else body_
    soap_logout = '<ns0:Envelope xmlns:ns0="http://schemas.xmlsoap.org/soap/envelope/"><ns0:Body>%s</ns0:Body></ns0:Envelope>' % body_
    respxml = fed.issue(idp, {"givenName": ["Ann"]}, sign_response=True)
    mdxml = fed.metadata_of(fed.idp_conf())
    hostile_docs = [(k, dta) for k, dta in hostile(reqxml, scratch) if is_entity_kind(k)]
    hostile_md = [(k, dta) for k, dta in hostile(mdxml, scratch) if is_entity_kind(k)]
    seen = {"refused": 0, "accepted": []}

    def traffic_soap():
        for _ in range(case["rounds"]):
            try:
                idp.parse_logout_request(soap_logout, BINDING_SOAP)
            except Exception:
                pass

    def traffic_post():
        for _ in range(case["rounds"] // 2):
            fed.deliver(sp, respxml, {"id-req-1": "/"})

    def attacker():
        for _ in range(case["rounds"]):
            for k, dta in hostile_docs:
                for ep, f in (("samlp.authn_request_from_string", samlp.authn_request_from_string),
                              ("create_class_from_xml_string", lambda x: saml2_tophat.create_class_from_xml_string(samlp.AuthnRequest, x)),
                              ("server.parse_authn_request[post]", lambda x: idp.parse_authn_request(base64.b64encode(x).decode(), BINDING_HTTP_POST))):
                    try:
                        r = f(dta)
                        if r is not None:
                            seen["accepted"].append((ep, k))
                        else:
                            seen["refused"] += 1
                    except Exception:
                        seen["refused"] += 1
            for k, dta in hostile_md:
                try:
                    r = md.entity_descriptor_from_string(dta)
                    if r is not None:
                        seen["accepted"].append(("md.entity_descriptor_from_string", k))
                    else:
                        seen["refused"] += 1
                except Exception:
                    seen["refused"] += 1
    with parsermon.watch() as w:
        res, errs, stats = interleave.run_threads_regimes([traffic_soap, traffic_post, attacker, traffic_soap], "%s/%s" % (ctx.seed, case["id"]), timeout=900, regimes=((0.03, 0.0002), (0.15, 0.0005), (0.01, 0.004)))
    viol = []
    if seen["accepted"]:
        viol.append({"key": "C11/entity-declaring-document-accepted", "what": "while other threads handled SOAP and POST traffic, %d entity-declaring document(s) were parsed into "
                     "objects, e.g. %r" % (len(seen["accepted"]), seen["accepted"][:3])})
    bad = [e for e in w.parsers if e.get("site") and not e.get("defused")]
    if bad:
        viol.append({"key": "C11/non-defused-parser-on-inbound-data", "what": "under concurrency %d parser(s) without the entity guards were built inside the package, e.g. at %s via %s" % (
            len(bad), bad[0]["site"], bad[0]["api"])})
    return {"outcome": "violations" if viol else "held", "nontrivial": seen["refused"] > 0, "violations": viol,
            "counters": {"threads_hostile_refused": seen["refused"], "yields_injected": stats["yields_injected"], "parser_constructions_in_package": len([e for e in w.parsers if e.get("site")])},
            "sigs": [["threads", case["k"]]], "evals": seen["refused"] + len(seen["accepted"]), "reached": sorted(set(e["site"] for e in w.parsers if e.get("site")))}


def run_suite(case, ctx):
    import json
    import shutil
    import subprocess
    import sys
    copy = os.path.join(ctx.scratch, "repo-copy")
    shutil.rmtree(copy, ignore_errors=True)
    shutil.copytree(env.REPO, copy, ignore=shutil.ignore_patterns(".git", "*.pyc", "__pycache__"), symlinks=True)
    bindir = os.path.join(ctx.scratch, "suite-bin")
    os.makedirs(bindir, exist_ok=True)
    shutil.copy2(env.XMLSEC, os.path.join(bindir, "xmlsec1"))
    out = os.path.join(ctx.scratch, "suite-monitor.json")
    child_env = dict(os.environ, PATH=bindir + os.pathsep + os.environ.get("PATH", ""), PYTHONPATH=env.VERIF + os.pathsep + os.path.join(copy, "src"),
                     VERIF_SUITE_OUT=out, VERIF_C11_TRACED="1")
    child_env.pop("VERIF_XMLSEC_LOG", None)
    try:
        p = subprocess.run([sys.executable, "-W", "ignore", "-m", "pytest", "-q", "--timeout=900", "-p", "no:cacheprovider", "-p", "vlib.suite_plugin",
                            "--continue-on-collection-errors", "-o", "addopts=", "tests"], cwd=copy, env=child_env, stdout=subprocess.PIPE, stderr=subprocess.STDOUT,
                           timeout=3000)
        tail = p.stdout.decode("utf-8", "replace")[-600:]
    except subprocess.TimeoutExpired:
        shutil.rmtree(copy, ignore_errors=True)
        return {"outcome": "suite-timed-out", "nontrivial": False, "violations": [], "counters": {"suite_timed_out": 1}}
    shutil.rmtree(copy, ignore_errors=True)
    if not os.path.exists(out):
        return {"outcome": "suite-monitor-wrote-nothing", "nontrivial": False, "violations": [], "counters": {"suite_without_result": 1}, "obs": {"tail": tail}}
    with open(out) as f:
        res = json.load(f)
    viol, sigs, counters = [], [], collections.Counter()
    for c in res["constructions"]:
        counters["suite_parser_constructions_in_package"] += c["count"]
        sigs.append(["repo-test-suite", c["site"], c["api"], c["defused"]])
        if not c["defused"]:
            viol.append({"key": "C11/non-defused-parser-on-inbound-data", "what": "repository test suite as workload: %d parser(s) built at %s through %s without the defused "
                         "parser class" % (c["count"], c["site"], c["api"])})
    counters["suite_tests_collected"] = res.get("tests_collected") or 0
    return {"outcome": "violations" if viol else "held", "nontrivial": bool(sigs), "violations": viol[:10], "counters": dict(counters), "sigs": sigs,
            "evals": max(1, counters["suite_parser_constructions_in_package"]), "reached": sorted(set(c["site"] for c in res["constructions"])),
            "obs": {"pytest_tail": tail[-300:]}}


def _battery(o, ep, f, doc, scratch, rng, ntrunc, inner_too=None, text_variants=False):
    base = o.call(ep, "valid", f, doc, "any")
    if base[0] != "value":
        o.hit("valid_document_not_accepted")
    for k, data in hostile(doc, scratch, text_variants):
        o.call(ep, k, f, data, "raise" if is_entity_kind(k) else "any")
    for k, data in malformed(doc, rng, ntrunc):
        o.call(ep, k, f, data, "raise-or-none")


def _fs_name(cls):
    import re
    n = cls.__name__
    s = re.sub(r"(?<=[a-z0-9])(?=[A-Z])|(?<=[A-Z])(?=[A-Z][a-z])", "_", n).lower()
    return s + "_from_string"


def _class_for(mod, fn, rng):
    from vlib import schema
    for cls in schema.element_classes(mod):
        try:
            doc = cls().to_string()
            r = fn(doc)
            if r is not None and type(r) is cls:
                return cls
        except Exception:
            continue
    return None


def finalize(cases, results, tier, extras):
    reached = set()
    for r in results:
        for s in r.get("reached", []) or r.get("obs", {}).get("reached_sites", []):
            reached.add(s)
    sites = static_call_sites()
    present = sorted(set(s for s, src in sites))
    unreached = [s for s in present if s not in reached]
    inc = []
    if unreached:
        inc.append("XML parsing call sites present but never reached by a hostile payload: %s" % unreached)
    tot = sum(r.get("counters", {}).get("parser_constructions_in_package", 0) for r in results)
    if not tot:
        inc.append("the parser-construction monitor saw nothing")
    skipped = sum(r.get("counters", {}).get("entry_points_without_class", 0) for r in results)
    return {"inconclusive": inc, "coverage": {"parse_call_sites_present": present, "parse_call_sites_reached": sorted(reached),
                                              "entry_points_without_matching_class": skipped,
                                              "payload_kinds": list(ENTITY_KINDS) + list(OTHER_KINDS) + ["truncations", "non-xml"]}}
