"""C18 - name identifiers map to one principal, stably and without cross-SP linkage.

Reference-model monitoring of saml2_tophat.ident.IdentDB (dict- and shelve-backed):
after every operation of a history the implementation is compared with a small
dictionary model (live identifier -> user).  Histories: exhaustive to a bounded depth
over 2 users x 2 SPs, long random ones, hostile field contents, and the adversarial
class in which a user identifier equals a previously issued identifier text (the two
directions of IdentDB share one key space).
"""
import copy
import os
import random

from vlib import env, gen

PROPERTY = "C18"
LEVEL = "exploration"
RULE = ("a case is a family of operation histories on IdentDB replayed against a dictionary model with the invariants "
        "checked after every step; one execution = one history; non-trivial = the history issued at least one identifier "
        "and at least one lookup invariant was evaluated; distinct = distinct abstract histories (operation names with "
        "their abstract arguments)")
ASSUMPTIONS = ["identifier texts passed to the public store() are unique unless the case says otherwise",
               ]

USERS = ["alice", "bob"]
SPS = ["https://sp1.example.org/md", "https://sp2.example.org/md"]
# "" = no SP qualifier (random histories and the unqualified family); the last two contain / are contained in the first SP's identifier
SPS_WIDE = SPS + ["https://sp3.example.org/md", "", "https://sp1.example.org/md/portal", "https://sp1.example.org"]
NQ = "https://idp.example.org/md"


def _imports():
    from saml2_tophat import ident
    from saml2_tophat.saml import NameID, NAMEID_FORMAT_PERSISTENT, NAMEID_FORMAT_TRANSIENT
    from saml2_tophat.samlp import NameIDPolicy, NewID
    return ident, NameID, NAMEID_FORMAT_PERSISTENT, NAMEID_FORMAT_TRANSIENT, NameIDPolicy, NewID


class Model(object):
    """live: list of dicts {user, text, fields(tuple of 5), n}"""

    def __init__(self):
        self.live = []
        self.ever = set()

    def clone(self):
        m = Model()
        m.live = [dict(x) for x in self.live]
        m.ever = set(self.ever)
        return m

    def abstract(self):
        return tuple(sorted((x["user"], x["fields"][1] or "", x["fields"][2] or "", bool(x["fields"][3])) for x in self.live))


def fields_of(nid):
    return tuple(getattr(nid, a) or None for a in ("name_qualifier", "sp_name_qualifier", "format", "sp_provided_id", "text"))


class Violation(Exception):
    def __init__(self, key, what):
        Exception.__init__(self, what)
        self.key, self.what = key, what


class Harness(object):
    def __init__(self, db, counters, identdb=None):
        (self.ident, self.NameID, self.PERS, self.TRANS, self.NameIDPolicy, self.NewID) = _imports()
        self.db = identdb if identdb is not None else self.ident.IdentDB(db, name_qualifier=NQ)
        self.m = Model()
        self.c = counters
        self.trace = []

    def hit(self, k):
        self.c[k] = self.c.get(k, 0) + 1

    def snapshot(self):
        return dict((k, self.db.db[k]) for k in self.db.db.keys())

    # ---------------------------------------------------------------- ops
    def _issued(self, user, nid, must_be_fresh=True):
        f = fields_of(nid)
        if must_be_fresh and f[4] in self.m.ever:
            raise Violation("C18/identifier-not-fresh", "newly issued identifier text %r was issued before" % f[4])
        self.m.ever.add(f[4])
        self.m.live.append({"user": user, "text": f[4], "fields": f})

    def op(self, name, *args):
        """apply one operation to implementation and model; raises Violation"""
        self.trace.append((name,) + tuple(str(a) for a in args))
        before = self.snapshot()
        try:
            getattr(self, "op_" + name)(*args)
        except Violation:
            raise
        except Exception as exc:
            self.hit("op_raised:%s:%s" % (name, type(exc).__name__))
            if name == "remove_local" or isinstance(exc, NameError):
                # removing a user the store may or may not know has no reason to fail, and a NameError is never a refusal
                raise Violation("C18/operation-cannot-be-carried-out", "%s%r raised %r" % (name, args, exc))
            after = self.snapshot()
            if after != before:
                raise Violation("C18/failed-operation-changed-state",
                                "%s%r raised %s but changed the store" % (name, args, type(exc).__name__))
            return False
        self.check()
        return True

    def op_transient(self, u, sp):
        nid = self.db.transient_nameid(u, sp, NQ)
        if nid.format != self.TRANS or (nid.sp_name_qualifier or "") != sp:
            raise Violation("C18/wrong-identifier-shape", "transient for %s/%s came back as %r" % (u, sp, fields_of(nid)))
        self._issued(u, nid)

    def op_lookup(self, u, sp, fmt):
        """find_nameid with a filter (what Server does to reuse an identifier): exactly the live identifiers of that user with those fields"""
        got = sorted(fields_of(n) for n in self.db.find_nameid(u, sp_name_qualifier=sp, format=fmt))
        want = sorted(tuple(x["fields"]) for x in self.m.live if x["user"] == u and (x["fields"][1] or "") == sp and x["fields"][2] == fmt)
        self.hit("filtered_lookups")
        key = lambda t: tuple(v or "" for v in t)
        if sorted(got, key=key) != sorted(want, key=key):
            raise Violation("C18/filtered-lookup-disagrees", "find_nameid(%r, sp_name_qualifier=%r, format=%s): %r, issued and live with those fields: %r" % (
                u, sp, fmt.split(":")[-1], got, want))

    def op_persistent(self, u, sp, nq=NQ):
        have = [x for x in self.m.live if x["user"] == u and x["fields"][2] == self.PERS and (x["fields"][1] or "") == sp and (x["fields"][0] or "") == nq]
        nid = self.db.persistent_nameid(u, sp, nq)
        f = fields_of(nid)
        if not f[4] or f[2] != self.PERS and not have:
            # (what comes back is handed to a service provider as the user's identifier)
            raise Violation("C18/wrong-identifier-shape", "persistent identifier asked for %s at %r (name qualifier %r) came back as %r" % (u, sp, nq, f))
        if have:
            self.hit("persistent_stability_checked")
            if f[4] not in [x["text"] for x in have]:
                # a non-transient identifier of another format for the same (user, sp) is what match_local_id may legitimately pick
                others = [x for x in self.m.live if x["user"] == u and (x["fields"][1] or "") == sp and x["fields"][2] != self.TRANS]
                if f[4] not in [x["text"] for x in others]:
                    raise Violation("C18/persistent-not-stable", "persistent identifier for %s at %s changed: %r not among %r" % (
                        u, sp, f[4], [x["text"] for x in have]))
            return
        existing = [x for x in self.m.live if x["text"] == f[4]]
        if existing:
            x = existing[0]
            if x["user"] != u or (x["fields"][1] or "") != sp:
                raise Violation("C18/persistent-shared-across-users-or-sps",
                                "persistent identifier asked for %s at %s is the live identifier of %s at %s" % (u, sp, x["user"], x["fields"][1]))
            return
        if (f[1] or "") != sp:
            raise Violation("C18/wrong-identifier-shape", "persistent for %s/%s came back as %r" % (u, sp, f))
        self._issued(u, nid)

    def op_construct(self, u, sp, fmt):
        pol = self.NameIDPolicy(format=fmt, sp_name_qualifier=sp)
        nid = self.db.construct_nameid(u, None, sp, pol)
        self._issued(u, nid)

    def op_store(self, u, fields):
        nid = self.NameID(name_qualifier=fields[0], sp_name_qualifier=fields[1], format=fields[2], sp_provided_id=fields[3], text=fields[4])
        self.db.store(u, nid)
        self._issued(u, nid, must_be_fresh=False)

    def _nid_of(self, x):
        f = x["fields"]
        return self.NameID(name_qualifier=f[0], sp_name_qualifier=f[1], format=f[2], sp_provided_id=f[3], text=f[4])

    def op_remove_remote(self, k):
        x = self.m.live[k % len(self.m.live)]
        self.db.remove_remote(self._nid_of(x))
        self.m.live.remove(x)

    def _near_miss(self, x, how):
        f = list(x["fields"])
        if how == "no-name-qualifier":
            f[0] = None
        elif how == "other-sp-qualifier":
            f[1] = "https://someone-else.example.org/md"
        elif how == "other-sp-provided-id":
            f[3] = (f[3] or "") + "x"
        else:
            f[2] = self.TRANS if f[2] != self.TRANS else self.PERS
        return self.NameID(name_qualifier=f[0], sp_name_qualifier=f[1], format=f[2], sp_provided_id=f[3], text=f[4]), tuple(f)

    def op_remove_remote_nearmiss(self, k, how):
        """a NameID that has the text of a live identifier but differs in another field is not that identifier: the call may refuse (and
        must then leave everything as it was) or succeed without touching the identifier it does not name"""
        x = self.m.live[k % len(self.m.live)]
        nid, f = self._near_miss(x, how)
        if f == tuple(x["fields"]):
            return
        self.db.remove_remote(nid)

    def op_manage_nearmiss(self, k, how):
        x = self.m.live[k % len(self.m.live)]
        nid, f = self._near_miss(x, how)
        if f == tuple(x["fields"]):
            return
        self.db.handle_manage_name_id_request(nid, new_id=self.NewID(text="spid-near"))

    def op_remove_local(self, u):
        self.db.remove_local(u)
        self.m.live = [x for x in self.m.live if x["user"] != u]

    def op_manage(self, k, new):
        x = self.m.live[k % len(self.m.live)]
        nid = self._nid_of(x)
        if new:
            out = self.db.handle_manage_name_id_request(nid, new_id=self.NewID(text=new))
        else:
            out = self.db.handle_manage_name_id_request(nid, terminate="yes")
        f = fields_of(out)
        if f[4] != x["text"]:
            raise Violation("C18/manage-changed-identifier-text", "%r -> %r" % (x["text"], f[4]))
        x["fields"] = f

    def op_mapping(self, k, fmt, sp):
        x = self.m.live[k % len(self.m.live)]
        pol = self.NameIDPolicy(format=fmt, sp_name_qualifier=sp, allow_create="true")
        out = self.db.handle_name_id_mapping_request(self._nid_of(x), pol)
        f = fields_of(out)
        same = [y for y in self.m.live if y["text"] == f[4]]
        if same:
            if same[0]["user"] != x["user"]:
                raise Violation("C18/mapping-crossed-users", "mapping request for %s returned an identifier of %s" % (x["user"], same[0]["user"]))
            if f[2] != fmt or (f[1] or "") != sp:
                raise Violation("C18/mapping-wrong-identifier", "asked (%s,%s) got %r" % (fmt, sp, f))
        else:
            if f[2] != fmt or (f[1] or "") != sp:
                raise Violation("C18/mapping-wrong-identifier", "asked (%s,%s) got new %r" % (fmt, sp, f))
            self._issued(x["user"], out)

    # ---------------------------------------------------------- invariants
    def check(self):
        # I1: every live identifier resolves to its user and to no one else
        for x in self.m.live:
            got = self.db.find_local_id(self._nid_of(x))
            self.hit("resolve_checks")
            if got != x["user"]:
                raise Violation("C18/identifier-resolves-to-wrong-principal",
                                "identifier %r issued for %r resolves to %r" % (x["text"][:20], x["user"], got))
        # withdrawn identifiers resolve to nobody
        live_texts = set(x["text"] for x in self.m.live)
        for t in self.m.ever - live_texts:
            got = self.db.find_local_id(self.NameID(text=t))
            self.hit("withdrawn_checks")
            if got is not None:
                raise Violation("C18/withdrawn-identifier-still-resolves", "withdrawn %r resolves to %r" % (t[:20], got))
        # I2: forward direction agrees
        users = set(x["user"] for x in self.m.live) | set(USERS)
        for u in users:
            def k(t):
                return tuple(v or "" for v in t)
            want = sorted((x["fields"] for x in self.m.live if x["user"] == u), key=k)
            try:
                got = [fields_of(n) for n in self.db.find_nameid(u)]
            except Exception as exc:
                raise Violation("C18/find_nameid-raised", "%s: %r" % (u, exc))
            if any(not any(g) for g in got):
                # a user whose last identifier was withdrawn keeps an empty list entry that decodes to an
                # all-empty NameID; it names nobody and is not an issued identifier (recorded, not asserted)
                self.hit("phantom_empty_nameid_in_forward_list")
                got = [g for g in got if any(g)]
            got = sorted(got, key=k)
            self.hit("forward_checks")
            if [tuple(w) for w in want] != [tuple(g) for g in got]:
                raise Violation("C18/forward-map-disagrees", "identifiers of %r: model %r, implementation %r" % (u, want, got))


# -------------------------------------------------------------------- case kinds

def alphabet(h, sps=SPS):
    ops = []
    for u in USERS:
        for sp in sps:
            ops.append(("transient", u, sp))
            ops.append(("persistent", u, sp))
            ops.append(("construct", u, sp, h.PERS))
            if sp:
                ops.append(("lookup", u, sp, h.PERS))
        ops.append(("remove_local", u))
        if "" in sps:
            # no qualifier at all (an IdentDB as Server builds it has the empty name qualifier)
            ops.append(("persistent", u, "", ""))
    n = len(h.m.live)
    for k in range(n):
        ops.append(("remove_remote_nearmiss", k, ["no-name-qualifier", "other-sp-qualifier", "other-sp-provided-id", "other-format"][k % 4]))
        ops.append(("manage_nearmiss", k, ["other-sp-qualifier", "no-name-qualifier", "other-format", "other-sp-provided-id"][k % 4]))
        ops.append(("remove_remote", k))
        ops.append(("manage", k, "spid-1"))
        ops.append(("manage", k, ""))
        for sp in sps:
            ops.append(("mapping", k, h.PERS, sp))
    return ops


def explore(prefix, depth, counters, seen, viols, sigs, budget, sps=SPS, users=None):
    """DFS over histories extending `prefix` (list of op tuples) up to depth, replaying from scratch"""
    h = Harness({}, counters)
    try:
        for op in prefix:
            h.op(*op)
    except Violation as v:
        viols.append({"key": v.key, "what": v.what, "detail": {"history": h.trace}})
        return
    counters["histories"] = counters.get("histories", 0) + 1
    if h.m.ever:
        sigs.add(tuple(prefix))
    if len(prefix) >= depth or budget[0] <= 0:
        return
    st = (len(prefix), h.m.abstract(), tuple(sorted(len(t) for t in h.m.ever - set(x["text"] for x in h.m.live))))
    if st in seen:
        counters["pruned_states"] = counters.get("pruned_states", 0) + 1
        return
    seen.add(st)
    for op in alphabet(h, sps):
        if users is not None and op[0] in ("transient", "persistent", "construct", "remove_local") and op[1] not in users:
            continue
        budget[0] -= 1
        explore(prefix + [op], depth, counters, seen, viols, sigs, budget, sps, users)


def hostile_field(rng):
    alpha = [",", "=", " ", "%", "%20", "%2C", "+", "/", "\\", "\n", "\t", "'", '"', "é", "日本", "0=", "4=x", ",4=evil", " 4=evil", "&", ";", ":", "#", "?",
             # what URL quoting leaves as it is, and its neighbours
             "~", "~proj", "-", ".", "_", "!", "*", "(", ")", "$", "@", "|", "^", "`", "{", "}", "[", "]", "<", ">"]
    return "".join(rng.choice(alpha + [gen.word(rng, 1, 5)]) for _ in range(rng.randint(1, 5)))


def gen_cases(tier, seed):
    cases = []
    depth = 4 if tier == "quick" else 5
    h = Harness({}, {})
    first = alphabet(h)
    for i, op in enumerate(first):
        cases.append({"id": "exhaustive-d%d-first%02d" % (depth, i), "sig": ["exhaustive", depth, list(op)], "kind": "exhaustive",
                      "first": list(op), "depth": depth})
    # the same exploration over one user and the SP alphabet {sp1, sp2, unqualified}
    h2 = Harness({}, {})
    first2 = [op for op in alphabet(h2, [SPS[0], SPS[1], ""]) if op[1] == USERS[0]]
    for i, op in enumerate(first2):
        cases.append({"id": "exhaustive-unqualified-d%d-first%02d" % (depth, i), "sig": ["exhaustive-unqualified", depth, list(op)], "kind": "exhaustive",
                      "first": list(op), "depth": depth, "sps": [SPS[0], SPS[1], ""], "users": [USERS[0]]})
    nrand = 16 if tier == "quick" else 96
    for k in range(nrand):
        cases.append({"id": "random-%s-%d" % ("shelve" if k % 4 == 3 else "dict", k), "sig": ["random", k % 4 == 3, k], "kind": "random",
                      "backend": "shelve" if k % 4 == 3 else "dict", "len": 200 if tier == "quick" else 2000, "k": k})
    # the subject database as an IdP has it: configured by path (subject_data), opened by Server, closed and opened again by the next Server
    for k in range(4 if tier == "quick" else 24):
        cases.append({"id": "random-server-shelve-%d" % k, "sig": ["random-server-shelve", k], "kind": "random", "backend": "server-shelve",
                      "len": 120 if tier == "quick" else 1200, "k": k, "restart_every": [1, 7, 25, 60][k % 4]})
    for k in range(8 if tier == "quick" else 32):
        cases.append({"id": "codec-%d" % k, "sig": ["codec", k], "kind": "codec", "k": k, "n": 2000 if tier == "quick" else 20000})
    for k in range(4 if tier == "quick" else 16):
        cases.append({"id": "hostile-store-%d" % k, "sig": ["hostile-store", k], "kind": "hostile-store", "k": k})
    # Server level: the name identifier an IdP puts into its responses over a sequence of logins, for every shape of NameIDPolicy an SP may send
    for k in range(6 if tier == "quick" else 40):
        cases.append({"id": "server-logins-%d" % k, "sig": ["server-logins", k], "kind": "server-logins", "k": k, "len": 40 if tier == "quick" else 300,
                      "local_format": ["persistent", "persistent", "transient", "none", "no-policy-configured"][k % 5]})
    for k in range(4):
        cases.append({"id": "userid-equals-issued-text-%d" % k, "sig": ["userid-equals-issued-text", k], "kind": "adversarial-userid", "k": k})
    return cases


def run_case(case, ctx):
    counters, viols = {}, []
    sigs = set()
    kind = case["kind"]
    rng = random.Random("%s/%s" % (ctx.seed, case["id"]))
    if kind == "exhaustive":
        budget = [400000]
        explore([tuple(case["first"])], case["depth"], counters, set(), viols, sigs, budget, case.get("sps", SPS), case.get("users"))
        if budget[0] <= 0:
            counters["budget_exhausted"] = 1
    elif kind == "random":
        path = os.path.join(ctx.scratch, "identdb-%s" % case["id"]) if case["backend"] in ("shelve", "server-shelve") else {}
        srv = None

        def new_server():
            from vlib import fed
            idc = fed.idp_conf(subject_data=path)
            return fed.make_idp(idc, [fed.metadata_of(fed.sp_conf())])
        if case["backend"] == "server-shelve":
            srv = new_server()
            srv.ident.name_qualifier = NQ
            h = Harness(None, counters, identdb=srv.ident)
        else:
            h = Harness(path, counters)
        try:
            for i in range(case["len"]):
                if srv is not None and i and i % case["restart_every"] == 0:
                    # the IdP process ends and a new one starts on the same subject database
                    srv.close()
                    srv = new_server()
                    srv.ident.name_qualifier = NQ
                    h.db = srv.ident
                    counters["server_restarts"] = counters.get("server_restarts", 0) + 1
                    try:
                        h.check()
                    except Violation as v:
                        raise Violation(v.key, "after the IdP was closed and a new Server opened the same subject database (restart %d, %d operations): %s" % (
                            counters["server_restarts"], i, v.what))
                ops = alphabet(h, SPS_WIDE)
                # bias towards growth early, removal later
                op = rng.choice(ops)
                if len(h.m.live) > 12:
                    rem = [o for o in ops if o[0].startswith("remove")]
                    op = rng.choice(rem)
                h.op(*op)
            counters["histories"] = 1
            sigs.add(("random", case["backend"], case["k"]))
        except Violation as v:
            viols.append({"key": v.key, "what": v.what, "detail": {"history": h.trace[-12:]}})
        finally:
            h.db.close()
            if isinstance(path, str):
                for ext in ("", ".db", ".dat", ".dir", ".bak"):
                    try:
                        os.unlink(path + ext)
                    except OSError:
                        pass
    elif kind == "codec":
        ident, NameID = _imports()[:2]
        seen = {}
        seen_b = {}
        for i in range(case["n"]):
            f = tuple((hostile_field(rng) if rng.random() < 0.8 else None) for _ in range(5))
            nid = NameID(name_qualifier=f[0], sp_name_qualifier=f[1], format=f[2], sp_provided_id=f[3], text=f[4])
            c = ident.code(nid)
            back = fields_of(ident.decode(c))
            counters["codec_roundtrips"] = counters.get("codec_roundtrips", 0) + 1
            if back != tuple(x or None for x in f):
                viols.append({"key": "C18/code-not-reversible", "what": "decode(code(%r)) = %r (coded %r)" % (f, back, c)})
                break
            if " " in c:
                viols.append({"key": "C18/code-contains-list-separator", "what": "code(%r) = %r contains a blank" % (f, c)})
                break
            if c in seen and seen[c] != tuple(x or None for x in f):
                viols.append({"key": "C18/code-collision", "what": "%r and %r both code to %r" % (seen[c], f, c)})
                break
            seen[c] = tuple(x or None for x in f)
            # every form of the encoding that is used as a storage key (code_binary feeds the key of the IdP's session store)
            cb = ident.code_binary(nid)
            counters["binary_codes"] = counters.get("binary_codes", 0) + 1
            if cb in seen_b and seen_b[cb] != tuple(x or None for x in f):
                viols.append({"key": "C18/code-collision", "what": "code_binary: %r and %r both give %r" % (seen_b[cb], f, cb)})
                break
            seen_b[cb] = tuple(x or None for x in f)
            if i % 4 == 0:
                # a pair built to collide under any encoding that writes the fields as "<index>=<value>" joined by commas without quoting:
                # fields (.., j: y + ",k=" + z) versus (.., j: y, k: z)
                j, k = sorted(rng.sample(range(5), 2))
                y, z = gen.word(rng, 1, 4), gen.word(rng, 1, 4)
                g1 = [None] * 5
                g2 = [None] * 5
                g1[j] = y + ",%d=" % k + z
                g2[j], g2[k] = y, z
                pair = []
                for g in (g1, g2):
                    n2 = NameID(name_qualifier=g[0], sp_name_qualifier=g[1], format=g[2], sp_provided_id=g[3], text=g[4])
                    pair.append((ident.code(n2), ident.code_binary(n2)))
                counters["adversarial_pairs"] = counters.get("adversarial_pairs", 0) + 1
                if pair[0][0] == pair[1][0] or pair[0][1] == pair[1][1]:
                    viols.append({"key": "C18/code-collision", "what": "%r and %r: code %r / %r, code_binary %r / %r" % (g1, g2, pair[0][0], pair[1][0], pair[0][1], pair[1][1])})
                    break
        sigs.add(("codec", case["k"]))
        counters["histories"] = 1
    elif kind == "hostile-store":
        h = Harness({}, counters)
        try:
            for i in range(60):
                u = rng.choice(USERS + ["user %d" % rng.randint(0, 3), "ü,=%"])
                f = (hostile_field(rng), hostile_field(rng), rng.choice([h.PERS, h.TRANS, hostile_field(rng)]), None,
                     "t%d-" % i + hostile_field(rng))
                h.op("store", u, list(f))
                if h.m.live and rng.random() < 0.3:
                    h.op("remove_remote", rng.randrange(len(h.m.live)))
                if h.m.live and rng.random() < 0.3:
                    h.op("manage", rng.randrange(len(h.m.live)), hostile_field(rng))
            sigs.add(("hostile-store", case["k"]))
            counters["histories"] = 1
        except Violation as v:
            viols.append({"key": v.key, "what": v.what, "detail": {"history": h.trace[-6:]}})
    elif kind == "server-logins":
        run_server_logins(case, ctx, rng, counters, viols, sigs)
    elif kind == "adversarial-userid":
        # a principal whose local identifier equals an identifier text issued earlier to someone else
        h = Harness({}, counters)
        try:
            h.op(["persistent", "transient", "construct", "persistent"][case["k"]], *(("alice", SPS[0]) + ((h.PERS,) if case["k"] == 2 else ())))
            victim_text = h.m.live[0]["text"]
            h.op("persistent" if case["k"] % 2 == 0 else "transient", victim_text, SPS[1])
            sigs.add(("adversarial-userid", case["k"]))
            counters["histories"] = 1
        except Violation as v:
            key = v.key
            if key in ("C18/identifier-resolves-to-wrong-principal", "C18/forward-map-disagrees"):
                key = "C18/userid-equal-to-issued-identifier-text-corrupts-shared-keyspace"
            viols.append({"key": key, "what": v.what, "detail": {"history": h.trace}})
    return {"outcome": "violations" if viols else "held", "nontrivial": bool(sigs) and counters.get("resolve_checks", 0) + counters.get("codec_roundtrips", 0) > 0,
            "violations": viols[:5], "counters": counters, "sigs": [list(map(str, s)) for s in list(sigs)[:3000]],
            "evals": max(1, counters.get("histories", 0)), "obs": {"kind": kind}}


POLICY_SHAPES = ["absent", "empty", "allow-create-only", "format-persistent", "format-persistent+spnq", "format-transient", "format-unspecified",
                 "spnq-only",
                 # the requester asks for an identifier in ANOTHER provider's name space (allowed to the members of an affiliation only)
                 "format-persistent+other-sp-qualifier", "other-sp-qualifier-only"]


def run_server_logins(case, ctx, rng, counters, viols, sigs):
    """what a relying party sees: for one IdP, every login of user u at SP s that yields a persistent identifier yields the same one, whatever
    NameIDPolicy the request carried this time; different users / SPs never share one; every identifier handed out resolves to its user"""
    import xml.etree.ElementTree as ET
    from vlib import fed
    from saml2_tophat.samlp import NameIDPolicy
    from saml2_tophat.saml import NAMEID_FORMAT_PERSISTENT as PERS, NAMEID_FORMAT_TRANSIENT as TRANS, NameID
    UNSPEC = "urn:oasis:names:tc:SAML:1.1:nameid-format:unspecified"
    sps = [fed.SP_EID, "https://sp-b.example.org/md"]
    pol = copy.deepcopy(fed.DEFAULT_POLICY)
    lf = case["local_format"]
    if lf in ("none", "no-policy-configured"):
        del pol["default"]["nameid_format"]
    else:
        pol["default"]["nameid_format"] = PERS if lf == "persistent" else TRANS
    mds = [fed.metadata_of(fed.sp_conf(eid=e, endpoints={"assertion_consumer_service": [(e.replace("/md", "/acs"), fed.BINDING_HTTP_POST)]})) for e in sps]
    idc = fed.idp_conf(policy=pol)
    # (the same entity is an attribute authority too, with the same policy: attribute responses for a user go through the same store)
    idc["service"]["aa"] = {"endpoints": {"attribute_service": [("https://idp.example.org/aa/soap", "urn:oasis:names:tc:SAML:2.0:bindings:SOAP")]}, "policy": copy.deepcopy(pol)}
    if lf == "no-policy-configured":
        del idc["service"]["aa"]["policy"]
        del idc["service"]["idp"]["policy"]
    idp = fed.make_idp(idc, mds)
    persistent = {}      # (user, sp qualifier) -> text
    owner = {}           # text -> (user, sp qualifier)
    trace = []
    try:
        for i in range(case["len"]):
            u = rng.choice(USERS)
            sp = rng.choice(sps)
            shape = rng.choice(POLICY_SHAPES)
            nip = {"absent": None, "empty": NameIDPolicy(), "allow-create-only": NameIDPolicy(allow_create="true"),
                   "format-persistent": NameIDPolicy(format=PERS, allow_create="true"),
                   "format-persistent+spnq": NameIDPolicy(format=PERS, sp_name_qualifier=sp),
                   "format-transient": NameIDPolicy(format=TRANS), "format-unspecified": NameIDPolicy(format=UNSPEC, allow_create="true"),
                   "spnq-only": NameIDPolicy(sp_name_qualifier=sp),
                   "format-persistent+other-sp-qualifier": NameIDPolicy(format=PERS, sp_name_qualifier=[x for x in sps if x != sp][0]),
                   "other-sp-qualifier-only": NameIDPolicy(sp_name_qualifier=[x for x in sps if x != sp][0])}[shape]
            trace.append((u, sp.split("//")[1].split(".")[0], shape))
            if rng.random() < 0.3:
                # an attribute response for the same user in between (the caller names the user, not an identifier)
                try:
                    idp.create_attribute_response({"givenName": ["x"]}, "id-aq-%d" % i, sp.replace("/md", "/acs"), sp, userid=u)
                    counters["attribute_responses_in_between"] = counters.get("attribute_responses_in_between", 0) + 1
                    trace.append((u, sp.split("//")[1].split(".")[0], "attribute-response"))
                except Exception as exc:
                    counters["attribute_response_refused:" + type(exc).__name__] = counters.get("attribute_response_refused:" + type(exc).__name__, 0) + 1
            try:
                xml = "%s" % idp.create_authn_response({"givenName": ["x"]}, "id-%d" % i, sp.replace("/md", "/acs"), sp, userid=u,
                                                       name_id_policy=nip, authn=fed.AUTHN)
            except Exception as exc:
                counters["login_refused:%s:%s" % (shape, type(exc).__name__)] = counters.get("login_refused:%s:%s" % (shape, type(exc).__name__), 0) + 1
                continue
            root = ET.fromstring(xml.encode("utf-8"))
            nid = root.find(".//{urn:oasis:names:tc:SAML:2.0:assertion}Subject/{urn:oasis:names:tc:SAML:2.0:assertion}NameID")
            if nid is None:
                counters["login_without_nameid:" + shape] = counters.get("login_without_nameid:" + shape, 0) + 1
                continue
            fmt, text, snq = nid.get("Format"), nid.text, nid.get("SPNameQualifier") or ""
            counters["logins"] = counters.get("logins", 0) + 1
            sigs.add(("server-logins", lf, shape, fmt.split(":")[-1] if fmt else "-"))
            got = idp.ident.find_local_id(NameID(text=text, format=fmt, sp_name_qualifier=snq or None))
            counters["resolve_checks"] = counters.get("resolve_checks", 0) + 1
            if got != u:
                viols.append({"key": "C18/identifier-resolves-to-wrong-principal", "what": "login %d (%s at %s, NameIDPolicy %s): the identifier in the response resolves to %r" % (
                    i, u, sp, shape, got), "detail": {"history": trace[-10:]}})
                return
            if text in owner and owner[text] != (u, sp):
                viols.append({"key": "C18/persistent-shared-across-users-or-sps", "what": "login %d: %s at %s (NameIDPolicy %s) was given %r, the identifier of %r" % (
                    i, u, sp, shape, text[:16], owner[text]), "detail": {"history": trace[-10:]}})
                return
            if fmt == PERS:
                counters["persistent_logins"] = counters.get("persistent_logins", 0) + 1
                if (u, sp) in persistent:
                    counters["persistent_stability_checked"] = counters.get("persistent_stability_checked", 0) + 1
                    if persistent[(u, sp)] != text:
                        viols.append({"key": "C18/persistent-not-stable:server-login", "what": "login %d: %s at %s with NameIDPolicy %s (local nameid_format %s) was given persistent identifier "
                                      "%r; an earlier login gave %r" % (i, u, sp, shape, lf, text[:16], persistent[(u, sp)][:16]), "detail": {"history": trace[-10:]}})
                        return
                else:
                    persistent[(u, sp)] = text
                owner[text] = (u, sp)
            elif fmt == TRANS:
                if text in owner:
                    viols.append({"key": "C18/identifier-not-fresh", "what": "login %d: transient identifier %r was issued before" % (i, text[:16])})
                    return
                owner[text] = (u, sp)
        counters["histories"] = 1
    finally:
        idp.close()


def finalize(cases, results, tier, extras):
    tot = {}
    for r in results:
        for k, v in r.get("counters", {}).items():
            tot[k] = tot.get(k, 0) + v
    inc = []
    if not tot.get("resolve_checks"):
        inc.append("the resolve invariant was never evaluated")
    if not tot.get("persistent_stability_checked"):
        inc.append("persistent stability was never exercised")
    if tot.get("budget_exhausted"):
        inc.append("exhaustive exploration ran out of budget in %d shards" % tot["budget_exhausted"])
    ex = [r for r in results if str(r.get("id", "")).startswith("exhaustive")]
    return {"inconclusive": inc, "coverage": {"exhaustive": False, "exhaustive_part": "all histories up to depth %s over 2 users x 2 SPs (abstract-state pruned)" % (
        next((c["depth"] for c in cases if "depth" in c), "?")), "exhaustive_histories": sum(r.get("counters", {}).get("histories", 0) for r in ex)}}
