"""C16 - the metadata store serves exactly what valid, unexpired metadata declares.

Generated federation document sets (1..3 sources; entities with any mix of roles,
endpoints, indexes, key descriptors with use signing/encryption/none, entity categories,
requested attributes, validUntil past/future/absent on entities and on the enclosing
EntitiesDescriptor, duplicates across sources) are loaded into a MetadataStore under the
virtual clock; every lookup is compared with a dictionary model built from the generator's
own description.  Signed documents (valid, tampered, wrong certificate, unsigned) are
loaded through the loader that has a security context (MetaDataExtern, HTTP object
replaced by an in-process stub).  Configurations are round-tripped through
metadata.entity_descriptor.
"""
import itertools
import os
import random
import re

from vlib import env, fed, mdgen, clock, xmlkit as xk, monitors

PROPERTY = "C16"
LEVEL = "exploration"
RULE = ("one execution = one lookup (service helper, certs, entity_categories, attribute_requirement, with_descriptor, membership) on a store "
        "loaded from one generated document set, compared with the model; or one signed-document load; or one configuration round trip; "
        "non-trivial = the store answered from at least one loaded entity or refused with the exception the model expects; distinct = (document-"
        "set shape, query kind, entity situation, binding)")
ASSUMPTIONS = ["expiry is evaluated at load time (the store has no refresh step); validUntil exactly equal to now is not generated",
               "for an entity present in several sources the declaration of any one loaded source is accepted",
               "an entity that is present but lacks the queried role may be reported as unknown or as lacking the binding"]

POST = "urn:oasis:names:tc:SAML:2.0:bindings:HTTP-POST"
REDIR = "urn:oasis:names:tc:SAML:2.0:bindings:HTTP-Redirect"
SOAP = "urn:oasis:names:tc:SAML:2.0:bindings:SOAP"
ART = "urn:oasis:names:tc:SAML:2.0:bindings:HTTP-Artifact"
BINDINGS = [POST, REDIR, SOAP, ART]
T0 = 1700000000
POOL = ["https://e%d.example.org/md" % i for i in range(6)]
CATS = ["http://refeds.org/category/research-and-scholarship", "http://www.geant.net/uri/dataprotection-code-of-conduct/v1", "http://example.org/cat/x"]


def gen_entity(rng, eid, tag):
    d = {"eid": eid, "valid_until": rng.choice([None, None, "past", "future"])}
    roles = rng.choice([("idp",), ("sp",), ("idp", "sp"), ("aa",), ("sp", "aa"), ("idp", "sp", "aa")])

    def keys():
        ks = []
        for _ in range(rng.randint(0, 3)):
            ks.append((rng.choice(["signing", "encryption", None]), rng.randrange(12)))
        return ks

    def eps(prefix, with_index=False, lo=0):
        out = []
        for i in range(rng.randint(lo, 4)):
            b = rng.choice(BINDINGS)
            loc = "%s/%s/%s/%s%d" % (eid.rsplit("/", 1)[0], tag, prefix, b.rsplit(":", 1)[-1].lower(), i)
            out.append((b, loc, i, (i == 0) if rng.random() < 0.5 else None) if with_index else (b, loc))
        return out
    if "idp" in roles:
        d["idp"] = {"keys": keys(), "sso": eps("sso", lo=1), "slo": eps("idp-slo")}     # (the schema wants at least one SSO / ACS / AttributeService)
    if "sp" in roles:
        req = None
        if rng.random() < 0.6:
            req = [("urn:oid:2.5.4.42", "givenName", rng.choice([True, False, None]), []), ("urn:oid:0.9.2342.19200300.100.1.3", "mail", rng.choice([True, False]), [])][:rng.randint(1, 2)]
        d["sp"] = {"keys": keys(), "acs": eps("acs", True, lo=1), "slo": eps("sp-slo"), "requested": req}
    if "aa" in roles:
        d["aa"] = {"keys": keys(), "attribute_service": eps("aa", lo=1)}
    if rng.random() < 0.4:
        d["entity_categories"] = rng.sample(CATS, rng.randint(1, 2))
    if rng.random() < 0.25:
        d["valueless_entity_attribute"] = "urn:example:verif:flag"
    if rng.random() < 0.4:
        d["split_category_attributes"] = True
    if rng.random() < 0.25:
        d["unknown_extension"] = True
    if rng.random() < 0.2:
        d["empty_value_entity_attribute"] = "urn:example:verif:blank"
    if rng.random() < 0.3:
        d["proto_list"] = rng.choice(["urn:oasis:names:tc:SAML:1.1:protocol urn:oasis:names:tc:SAML:2.0:protocol", "urn:oasis:names:tc:SAML:2.0:protocol&#9;urn:oasis:names:tc:SAML:1.1:protocol",
                                      "urn:oasis:names:tc:SAML:1.1:protocol&#10;urn:oasis:names:tc:SAML:2.0:protocol", "urn:oasis:names:tc:SAML:1.1:protocol  urn:oasis:names:tc:SAML:2.0:protocol",
                                      " urn:oasis:names:tc:SAML:2.0:protocol "])
    if rng.random() < 0.3:
        # the categories the entity honours as a releasing party - another attribute, another claim
        d["entity_category_support"] = rng.sample(CATS, rng.randint(1, 2))
    # a sibling role descriptor of the same entity for SAML 1.x only (its own endpoints, key and requested attributes): none of it is a SAML 2.0
    # declaration of the entity
    if rng.random() < 0.3 and ("idp" in roles or "sp" in roles):
        base = "%s/%s/legacy" % (eid.rsplit("/", 1)[0], tag)
        d["saml11"] = {"first": rng.random() < 0.5}
        if "idp" in roles:
            d["saml11"]["idp"] = {"keys": [("signing", 11)], "sso": [(REDIR, base + "/sso"), (POST, base + "/sso-post")], "slo": [(REDIR, base + "/slo")]}
        if "sp" in roles:
            d["saml11"]["sp"] = {"keys": [("signing", 11), ("encryption", 11)], "acs": [(POST, base + "/acs", 1, True), (ART, base + "/acs-art", 2, None)],
                                 "slo": [(POST, base + "/slo")], "requested": [("urn:oid:2.5.4.4", "sn", True, [])]}
    # the same declarations in another legal spelling (xs:boolean "1"/"0", typed attribute values)
    if rng.random() < 0.35:
        d["lexical"] = {"bool": rng.choice(["digits", "digits", "padded"]), "ecat_type": rng.choice([None, "xs:string", "xs:anyURI"])}
    return d


def gen_docset(rng):
    sources = []
    for s in range(rng.randint(1, 3)):
        ids = rng.sample(POOL[:5], rng.randint(1, 4))
        ents = [gen_entity(rng, e, "s%d" % s) for e in ids]
        wrap = rng.random() < 0.6 or len(ents) > 1
        src = {"entities": ents, "wrapped": wrap, "valid_until": rng.choice([None, None, "future", "past"]) if wrap else None}
        if wrap and len(ents) >= 2 and rng.random() < 0.4:
            # an aggregate of aggregates: the entities from this position on sit in an EntitiesDescriptor of their own inside the document
            src["nested"] = {"from": rng.randint(1, len(ents) - 1), "valid_until": rng.choice([None, None, "future", "past"])}
        sources.append(src)
    return sources


PAST_SPELLINGS = ["Z", ".1Z", ".123Z", ".1234567Z", ".123456789Z", "", "+00:00", "+01:00", "-05:00", ".5+02:00"]
JUST_PAST_SPELLINGS = ["Z", "+01:00", "+02:00", "+14:00", "+05:30", "-01:00", "-12:00", ".5+03:00", ""]
FUTURE_SPELLINGS = ["Z", ".1Z", ".123Z", ".1234567Z", ".123456789Z", ""]     # (SAML wants UTC; what a zone offset on a future instant does is not asserted)


def vu(x, who="", offsets=True):
    """validUntil text: the instant one day ago / thirty days ahead, in one of the legal xs:dateTime spellings (chosen by the owner's name)"""
    if x is None:
        return None
    import zlib
    t = T0 - 86400 if x == "past" else T0 + 86400 * 30
    sp = (PAST_SPELLINGS if x == "past" else FUTURE_SPELLINGS)
    if x == "past" and zlib.crc32(("just/%s" % who).encode()) % 3 == 0:
        # expired only just (half an hour ago), written in zones far from UTC: an offset read with the wrong sign, or not at all, moves the
        # instant by hours
        t = T0 - 1800
        sp = JUST_PAST_SPELLINGS
    if not offsets:
        # an entity inside an aggregate: a spelling the library's schema validation refuses would take the whole aggregate with it
        sp = [k for k in sp if "+" not in k and "-" not in k]
    sp = sp[zlib.crc32(("%s/%s" % (who, x)).encode()) % len(sp)]
    m = __import__("re").match(r"^(\.\d+)?(Z|[+-]\d\d:\d\d)?$", sp)
    frac, zone = m.group(1) or "", m.group(2) or ""
    if zone and zone != "Z":
        sign = 1 if zone[0] == "+" else -1
        t += sign * (int(zone[1:3]) * 3600 + int(zone[4:6]) * 60)      # same instant, written in that zone
    return clock.iso(t, z=False) + frac + zone


def render(source, offsets=True):
    ents = []
    for e in source["entities"]:
        e2 = dict(e)
        e2["valid_until"] = vu(e["valid_until"], e["eid"], offsets=offsets and not source["wrapped"])
        ents.append(e2)
    if source["wrapped"]:
        nested = []
        if source.get("nested"):
            k = source["nested"]["from"]
            nested = [mdgen.entities(ents[k:], valid_until=vu(source["nested"]["valid_until"], "nested:" + ents[k]["eid"], offsets=False), name="verif-inner")]
            ents = ents[:k]
        return mdgen.entities(ents, valid_until=vu(source["valid_until"], "doc:" + ents[0]["eid"] if ents else "doc", offsets=offsets), nested=nested)
    return mdgen.entity(ents[0])


def gen_cases(tier, seed):
    cases = []
    n = 40 if tier == "quick" else 2400
    for k in range(n):
        cases.append({"id": "docset-%d" % k, "sig": ["docset", k], "kind": "docset", "k": k})
    for k in range(16 if tier == "quick" else 400):
        cases.append({"id": "reload-%d" % k, "sig": ["reload", k], "kind": "reload", "k": k})
    for k in range(12 if tier == "quick" else 600):
        cases.append({"id": "mixed-%d" % k, "sig": ["mixed", k], "kind": "mixed", "k": k})
    # the orders that matter most, whatever the seed: a source that was told not to look at validUntil, then each other kind of source with
    # something expired in it (the document, or one entity)
    for k2, (later, where) in enumerate(itertools.product(("remote", "local", "inline"), ("document", "entity"))):
        cases.append({"id": "mixed-planned-%s-%s" % (later, where), "sig": ["mixed-planned", later, where], "kind": "mixed", "k": 1000 + k2,
                      "plan": [("remote-novalidity", "future", None), (later, "past" if where == "document" else None, "past" if where == "entity" else None)]})
    for variant in ("valid", "valid-whole-document-reference", "tampered", "wrong-cert", "unsigned-with-cert", "signed-no-cert", "wrapped-root", "wrapped-root-signature-moved", "wrapped-root-genuine-in-extensions") + WRAP_MORE:
        for wrapped in (0, 1):
            cases.append({"id": "signed-%s-%s" % (variant, "entities" if wrapped else "entity"), "sig": ["signed", variant, wrapped], "kind": "signed",
                          "variant": variant, "wrapped": wrapped})
            # every way a source and its verification certificate can be configured
            for form in CONFIG_FORMS[1:]:
                cases.append({"id": "signed-%s-%s-%s" % (variant, "entities" if wrapped else "entity", form), "sig": ["signed", variant, wrapped, form],
                              "kind": "signed", "variant": variant, "wrapped": wrapped, "form": form})
    # validUntil of a stand-alone descriptor: every (how long ago / ahead) x (spelling, zones far from UTC included) - expired is never served
    for ago in (1800, 7200, 86400, 40 * 3600, 10 ** 7):
        for zone in ("Z", "", "+00:00", "+01:00", "+02:00", "+05:30", "+14:00", "-00:30", "-01:00", "-12:00", ".5+03:00", ".25Z"):
            cases.append({"id": "validuntil-expired-%ds-ago-%s" % (ago, zone or "no-zone"), "sig": ["validuntil", "past", ago, zone], "kind": "validuntil", "ago": ago, "zone": zone})
    for ahead in (1800, 86400 * 30):
        for zone in ("Z", "", ".25Z"):
            cases.append({"id": "validuntil-in-%ds-%s" % (ahead, zone or "no-zone"), "sig": ["validuntil", "future", ahead, zone], "kind": "validuntil", "ago": -ahead, "zone": zone})
    for k in range(16 if tier == "quick" else 300):
        cases.append({"id": "roundtrip-%d" % k, "sig": ["roundtrip", k], "kind": "roundtrip", "k": k})
    return cases


def new_store():
    from saml2_tophat import mdstore
    from saml2_tophat.attribute_converter import ac_factory
    from saml2_tophat.config import Config
    cnf = Config().load({"entityid": "https://loader.example.org/md", "xmlsec_binary": env.XMLSEC, "key_file": fed.key(1)[0], "cert_file": fed.key(1)[1]})
    return mdstore.MetadataStore(ac_factory(), cnf)


def decl_services(e, role, service):
    """list of (binding, location, index) the description declares"""
    r = e.get(role)
    if not r:
        return None
    key = {"single_sign_on_service": "sso", "single_logout_service": "slo", "assertion_consumer_service": "acs", "attribute_service": "attribute_service"}[service]
    out = []
    for ent in r.get(key, []):
        out.append((ent[0], ent[1], str(ent[2]) if len(ent) > 2 else None))
    return out


def run_docset(case, ctx, viol, counters, sigs):
    rng = random.Random("%s/%s" % (ctx.seed, case["id"]))
    clock.install()
    clock.set_now(T0)
    sources = gen_docset(rng)
    store = new_store()
    for si, src in enumerate(sources):
        xml = render(src)
        try:
            store.imp([{"class": "saml2_tophat.mdstore.InMemoryMetaData", "metadata": [(xml,)]}])
        except Exception as exc:
            counters["load_raised:" + type(exc).__name__] = counters.get("load_raised:" + type(exc).__name__, 0) + 1
    compare(case, store, sources, viol, counters, sigs)
    clock.set_now(None)


def run_reload(case, ctx, viol, counters, sigs):
    """a long-lived store whose source file is replaced and loaded again: lookups made before must not survive the refresh"""
    import os
    rng = random.Random("%s/%s" % (ctx.seed, case["id"]))
    clock.install()
    clock.set_now(T0)
    # every way a running process refreshes a file source: the same load() call again, the class-style loader spec through imp(), a directory
    how = ["load-local-file", "imp-classlist-file", "load-local-directory", "imp-local-file"][case["k"] % 4]
    base = os.path.join(ctx.scratch, "reload-%s" % case["k"])
    path = base + ".xml"
    if how == "load-local-directory":
        os.makedirs(base + ".d", exist_ok=True)
        path = os.path.join(base + ".d", "federation.xml")
    store = new_store()
    generations = []
    for g in range(3):
        ids = rng.sample(POOL[:5], rng.randint(1, 4))
        src = {"entities": [gen_entity(rng, e, "g%d" % g) for e in ids], "wrapped": True, "valid_until": rng.choice([None, "future"])}
        for e in src["entities"]:
            if e["valid_until"] == "past":
                e["valid_until"] = None
        generations.append(src)
    for g, src in enumerate(generations):
        with open(path, "w") as f:
            f.write(render(src))
        try:
            if how == "load-local-file":
                store.load("local", path)
            elif how == "imp-classlist-file":
                store.imp([{"class": "saml2_tophat.mdstore.MetaDataFile", "metadata": [(path,)]}])
            elif how == "imp-local-file":
                store.imp({"local": [path]})
            else:
                store.load("local", os.path.dirname(path))
        except Exception as exc:
            counters["load_raised:" + type(exc).__name__] = counters.get("load_raised:" + type(exc).__name__, 0) + 1
            continue
        counters["refresh:" + how] = counters.get("refresh:" + how, 0) + 1
        before = len(viol)
        compare(dict(case, id="%s/generation-%d" % (case["id"], g)), store, [src], viol, counters, sigs, tag="reload")
        if len(viol) > before:
            for v in viol[before:]:
                if g > 0:
                    v["key"] = "C16/stale-answer-after-metadata-reload"
            break
        counters["reloads"] = counters.get("reloads", 0) + (1 if g else 0)
    os.unlink(path)
    if how == "load-local-directory":
        os.rmdir(os.path.dirname(path))
    clock.set_now(None)


def run_mixed(case, ctx, viol, counters, sigs):
    """sources of different loader kinds with per-source options (check_validity, node_name) in a generated order: an option given for one
    source must not leak into the others"""
    import os
    rng = random.Random("%s/%s" % (ctx.seed, case["id"]))
    clock.install()
    clock.set_now(T0)
    store = new_store()
    sources = []
    served_model = []
    plan = case.get("plan")
    n = len(plan) if plan else rng.randint(2, 4)
    for si in range(n):
        ids = rng.sample(POOL[:5], rng.randint(1, 3))
        src = {"entities": [gen_entity(rng, e, "m%d" % si) for e in ids], "wrapped": True, "valid_until": rng.choice([None, "future", "past"])}
        kind = rng.choice(["remote", "remote-novalidity", "local", "inline"])
        if plan:
            kind, src["valid_until"], ent_vu = plan[si]
            for e_ in src["entities"]:
                e_["valid_until"] = None
            if ent_vu:
                src["entities"][0]["valid_until"] = ent_vu
        xml = render(src, offsets=kind != "remote-novalidity")     # (a source loaded without validity checks still goes through schema validation)
        try:
            if kind.startswith("remote"):
                store.http = StubHTTP(xml)
                kw = {"url": "https://md%d.example.org/fed.xml" % si}
                if kind == "remote-novalidity":
                    kw["check_validity"] = False
                store.load("remote", **kw)
            elif kind == "local":
                path = os.path.join(ctx.scratch, "mixed-%s-%d.xml" % (case["k"], si))
                with open(path, "w") as f:
                    f.write(xml)
                store.load("local", path)
                os.unlink(path)
            else:
                store.load("inline", xml)
        except Exception as exc:
            counters["load_raised:" + type(exc).__name__] = counters.get("load_raised:" + type(exc).__name__, 0) + 1
        if kind == "remote-novalidity":
            # this source alone was told not to look at validUntil: model it as if nothing in it could expire
            src = {"entities": [dict(e, valid_until=None) for e in src["entities"]], "wrapped": True, "valid_until": None}
        sources.append(src)
        counters["mixed_sources:" + kind] = counters.get("mixed_sources:" + kind, 0) + 1
    compare(case, store, sources, viol, counters, sigs, tag="mixed-loaders")
    clock.set_now(None)


def compare(case, store, sources, viol, counters, sigs, tag=None):
    from saml2_tophat import mdstore
    # model: per entity id the list of admissible declarations (one per loaded source that may serve it)
    model = {}
    for si, src in enumerate(sources):
        if src["wrapped"] and src["valid_until"] == "past":
            continue
        seen_here = set()
        for ei, e in enumerate(src["entities"]):
            if e["valid_until"] == "past" or e["eid"] in seen_here:
                continue
            if src.get("nested") and ei >= src["nested"]["from"] and src["nested"]["valid_until"] == "past":
                continue        # (inside an inner aggregate whose own validUntil has passed)
            seen_here.add(e["eid"])
            if not (e.get("idp") or e.get("sp") or e.get("aa")):
                continue
            model.setdefault(e["eid"], []).append(e)
    expired_only = set()
    for src in sources:
        for e in src["entities"]:
            if e["eid"] not in model:
                expired_only.add(e["eid"])
    shape = tag or ("%d-sources" % len(sources))

    def bad(key, what):
        viol.append({"key": key, "what": "%s: %s" % (case["id"], what), "detail": {"sources": sources}})

    def hit(k):
        counters[k] = counters.get(k, 0) + 1

    # membership
    keys = set(store.keys())
    hit("membership_checks")
    if keys != set(model):
        extra = keys - set(model)
        if extra & expired_only:
            bad("C16/expired-entity-or-document-served", "store serves %r whose validUntil (entity or enclosing document) has passed" % sorted(extra & expired_only))
        elif extra:
            bad("C16/entity-served-that-no-document-declares", "%r" % sorted(extra))
        else:
            bad("C16/declared-entity-not-served", "missing %r" % sorted(set(model) - keys))
    queries = [("idp", "single_sign_on_service", lambda eid, b: store.single_sign_on_service(eid, b)),
               ("sp", "assertion_consumer_service", lambda eid, b: store.assertion_consumer_service(eid, b)),
               ("idp", "single_logout_service", lambda eid, b: store.single_logout_service(eid, b, "idpsso")),
               ("sp", "single_logout_service", lambda eid, b: store.single_logout_service(eid, b, "spsso")),
               ("aa", "attribute_service", lambda eid, b: store.attribute_service(eid, b))]
    for eid in POOL:
        decls = model.get(eid, [])
        for role, service, fn in queries:
            for b in BINDINGS:
                hit("service_lookups")
                try:
                    res = fn(eid, b)
                    got = ("value", sorted((s["binding"], s["location"], s.get("index")) for s in res))
                except mdstore.UnknownSystemEntity:
                    got = ("raise", "UnknownSystemEntity")
                except mdstore.UnsupportedBinding:
                    got = ("raise", "UnsupportedBinding")
                except Exception as exc:
                    got = ("raise", type(exc).__name__)
                per_src = []
                for e in decls:
                    ds = decl_services(e, role, service)
                    per_src.append(None if ds is None else sorted(x for x in ds if x[0] == b))
                admissible_values = [p for p in per_src if p]
                sit = "absent" if not decls else ("no-role" if all(p is None for p in per_src) else ("no-binding" if not admissible_values else "declared"))
                sigs.add((shape, role + "/" + service, sit, b.rsplit(":", 1)[-1]))
                what = "%s %s/%s %s -> %r; declarations per loaded source: %r" % (eid, role, service, b.rsplit(":", 1)[-1], got, per_src)
                if sit == "declared":
                    if got[0] != "value" or got[1] not in admissible_values:
                        key = "C16/lookup-differs-from-declaration"
                        if got[0] == "value":
                            others = [x for e2 in model for d2 in model[e2] if e2 != eid for x in (decl_services(d2, role, service) or [])]
                            if any(g in others and all(g not in a for a in admissible_values) for g in got[1]):
                                key = "C16/endpoint-of-another-entity-served"
                            elif any(all(g not in a for a in admissible_values) for g in got[1]):
                                key = "C16/endpoint-of-another-role-or-binding-served"
                        bad(key, what)
                elif sit == "absent":
                    if got != ("raise", "UnknownSystemEntity"):
                        key = "C16/unknown-entity-not-reported-as-unknown"
                        if got[0] == "value" and eid in expired_only:
                            key = "C16/expired-entity-or-document-served"
                        bad(key, what)
                elif sit == "no-binding":
                    if got != ("raise", "UnsupportedBinding"):
                        bad("C16/known-entity-lacking-binding-not-reported-as-such", what)
                else:
                    if got[0] != "raise":
                        bad("C16/endpoint-of-another-role-or-binding-served", what)
        # certificates by use
        for role, descr in (("idp", "idpsso"), ("sp", "spsso"), ("aa", "attribute_authority")):
            for use in ("signing", "encryption"):
                hit("cert_lookups")
                try:
                    got = sorted(monitors.cert_name(fed_pem(c)) for c in store.certs(eid, descr, use))
                    gotx = ("value", got)
                except Exception as exc:
                    gotx = ("raise", type(exc).__name__)
                adm = []
                for e in decls:
                    r = e.get(role)
                    if r is None:
                        adm.append(None)
                    else:
                        adm.append(sorted(set("k%02d" % k for u, k in r.get("keys", []) if u in (use, None))))
                what = "%s certs(%s, %s) -> %r; declarations per loaded source %r" % (eid, descr, use, gotx, adm)
                vals = [a for a in adm if a is not None]
                if vals:
                    if gotx[0] == "value":
                        if gotx[1] not in vals:
                            key = "C16/certificate-of-other-use-or-entity-served"
                            bad(key, what)
                    elif not any(a is None for a in adm):
                        bad("C16/certs-lookup-raised-for-declared-role", what)
                elif gotx[0] == "value" and gotx[1]:
                    bad("C16/certificate-of-other-use-or-entity-served", what)
        # entity categories and attribute requirements
        if decls:
            hit("category_lookups")
            try:
                got = sorted(store.entity_categories(eid))
            except Exception as exc:
                got = "raise:" + type(exc).__name__
            adm = [sorted(e.get("entity_categories", [])) for e in decls]
            if got not in adm:
                bad("C16/entity-categories-differ", "%s -> %r, declared %r" % (eid, got, adm))
            try:
                got = sorted(store.supported_entity_categories(eid))
            except Exception as exc:
                got = "raise:" + type(exc).__name__
            adm = [sorted(e.get("entity_category_support") or []) for e in decls]
            if got not in adm:
                bad("C16/entity-categories-differ", "%s supported_entity_categories -> %r, declared %r" % (eid, got, adm))
            # all entity attributes by name
            hit("entity_attribute_lookups")
            try:
                ea = store.entity_attributes(eid)
                got = dict((k, sorted(v)) for k, v in ea.items() if v)
            except Exception as exc:
                got = "raise:" + type(exc).__name__
            adm = []
            for e in decls:
                want = {}
                if e.get("entity_categories"):
                    want["http://macedir.org/entity-category"] = sorted(e["entity_categories"])
                if e.get("entity_category_support"):
                    want["http://macedir.org/entity-category-support"] = sorted(e["entity_category_support"])
                if e.get("empty_value_entity_attribute"):
                    want[e["empty_value_entity_attribute"]] = [""]        # (declared with one value, the empty one)
                adm.append(want)
            if got not in adm:
                bad("C16/entity-attributes-differ", "%s entity_attributes -> %r, declared %r" % (eid, got, adm))
            hit("requirement_lookups")
            try:
                ar = store.attribute_requirement(eid)
                got = None if ar is None else (sorted(a["name"] for a in ar["required"]), sorted(a["name"] for a in ar["optional"]))
            except Exception as exc:
                got = "raise:" + type(exc).__name__
            adm = []
            for e in decls:
                sp = e.get("sp")
                if not sp:
                    adm.append(None)
                else:
                    req = sp.get("requested")
                    if req is None:
                        adm.append(None)      # no AttributeConsumingService declared
                        adm.append(([], []))
                    else:
                        adm.append((sorted(n for n, f, r, v in req if r is True), sorted(n for n, f, r, v in req if r is not True)))
            if got not in adm:
                bad("C16/attribute-requirement-differs", "%s -> %r, declared %r" % (eid, got, adm))
    # the store's listing helpers: who has which role
    for fn, role in (("identity_providers", "idp"), ("service_providers", "sp"), ("attribute_authorities", "aa")):
        hit("provider_listing_checks")
        try:
            got = set(getattr(store, fn)())
        except Exception as exc:
            bad("C16/provider-listing-differs", "%s() raised %r" % (fn, exc))
            continue
        must = set(e for e, ds in model.items() if all(d.get(role) for d in ds))
        may = set(e for e, ds in model.items() if any(d.get(role) for d in ds))
        if not (must <= got <= may):
            bad("C16/provider-listing-differs", "%s() -> %r, model must %r may %r" % (fn, sorted(got), sorted(must), sorted(may)))
    # bindings(): what service() says, through the helper of that name; and the categories as one loaded source reports them
    for eid, ds in sorted(model.items()):
        for typ, role, svc, key in (("idpsso_descriptor", "idp", "single_sign_on_service", "sso"), ("spsso_descriptor", "sp", "assertion_consumer_service", "acs")):
            if not all(d.get(role) for d in ds):
                continue
            hit("bindings_helper_checks")
            try:
                got = store.bindings(eid, typ, svc)
            except Exception as exc:
                got = "raise:" + type(exc).__name__
            want = [sorted(set(x[0] for x in d[role].get(key, []))) for d in ds]
            gotb = sorted(got.keys()) if isinstance(got, dict) else got
            if gotb not in want:
                bad("C16/bindings-helper-differs", "bindings(%s, %s, %s) -> %r, declared bindings %r" % (eid, typ, svc, gotb, want))
        if len(ds) == 1:
            for src in store.metadata.values():
                if eid in src:
                    hit("source_category_lookups")
                    try:
                        got = sorted(src.entity_categories(eid))
                    except Exception as exc:
                        got = "raise:" + type(exc).__name__
                    if got != sorted(ds[0].get("entity_categories", [])):
                        bad("C16/entity-categories-differ", "%s as reported by its source -> %r, declared %r" % (eid, got, sorted(ds[0].get("entity_categories", []))))
    for descr, role in (("idpsso", "idp"), ("spsso", "sp"), ("attribute_authority", "aa")):
        hit("with_descriptor_checks")
        got = set(store.with_descriptor(descr).keys())
        must = set(e for e, ds in model.items() if all(d.get(role) for d in ds))
        may = set(e for e, ds in model.items() if any(d.get(role) for d in ds))
        if not (must <= got <= may):
            bad("C16/with_descriptor-differs", "%s -> %r, model must %r may %r" % (descr, sorted(got), sorted(must), sorted(may)))


def fed_pem(cert_text):
    return "".join(cert_text.split())


CONFIG_FORMS = ["load-remote", "imp-dict-remote", "imp-classlist-extern", "imp-classlist-extern-after-plain-source", "imp-classlist-extern-before-plain-source",
                "imp-classlist-extern-after-other-signed-source", "imp-classlist-file", "direct-extern", "direct-file"]


class StubHTTP(object):
    def __init__(self, text):
        self.text = text

    def send(self, url, *a, **kw):
        class R(object):
            status_code = 200
        r = R()
        r.text = self.text
        r.content = self.text.encode("utf-8") if isinstance(self.text, str) else self.text
        return r


def run_signed(case, ctx, viol, counters, sigs):
    from saml2_tophat import mdstore
    variant, wrapped = case["variant"], case["wrapped"]
    e1 = {"eid": POOL[0], "idp": {"keys": [("signing", 0)], "sso": [(REDIR, "https://e0.example.org/sso")]}}
    e2 = {"eid": POOL[1], "sp": {"keys": [("signing", 3)], "acs": [(POST, "https://e1.example.org/acs", 0, True)]}}
    if wrapped:
        doc = mdgen.entities([e1, e2], ident="md-doc-1")
        ns_local, node_name = (mdgen.MD, "EntitiesDescriptor"), None
    else:
        doc = mdgen.entity(e1).replace("<md:EntityDescriptor ", '<md:EntityDescriptor ID="md-doc-1" ', 1)
        ns_local, node_name = (mdgen.MD, "EntityDescriptor"), "%s:%s" % (mdgen.MD, "EntityDescriptor")
    signer, cert = 9, fed.key(9)[1]
    text = doc
    if variant != "unsigned-with-cert":
        text = xk.sign_element(doc, ns_local[0], ns_local[1], "md-doc-1", fed.key(signer)[0], "rsa-sha256", fed.cert_body(signer),
                               ref_uri="" if variant == "valid-whole-document-reference" else None)      # URI="" = the whole document, common in federation aggregates
    if variant == "tampered":
        text = text.replace("https://e0.example.org/sso", "https://attacker.example.net/sso")
    if variant == "wrapped-root":
        # evil root carrying a copy of the genuine signature; the genuine, signed document hides inside Extensions
        d = xk.Doc(text)
        sig = d.root.child(xk.DS, "Signature")
        genuine = d.standalone(d.root)
        evil = xk.Doc(doc.replace("https://e0.example.org/sso", "https://attacker.example.net/sso").replace('ID="md-doc-1"', 'ID="md-doc-evil"'))
        ext = '<md:Extensions xmlns:md="%s">%s</md:Extensions>' % (mdgen.MD, genuine.decode("utf-8"))
        text = evil.prepend_child(evil.root, d.outer(sig).decode("utf-8") + ext).text()
    if variant in ("wrapped-root-signature-moved", "wrapped-root-genuine-in-extensions") + WRAP_MORE:
        # an outsider's root element around the genuine, validly signed document; the only Signature the tool will look at is the genuine one
        d = xk.Doc(text)
        sig = d.root.child(xk.DS, "Signature")
        sigb = d.outer(sig).decode("utf-8")
        evil_e = mdgen.entity({"eid": "https://attacker.example.net/md", "idp": {"keys": [("signing", 9)], "sso": [(REDIR, "https://attacker.example.net/sso")]}})
        evil_e = evil_e[evil_e.index("?>") + 2:] if evil_e.startswith("<?xml") else evil_e
        if variant == "wrapped-root-signature-moved":
            inner = d.remove(sig)
            genuine_wo = inner.standalone(inner.root).decode("utf-8")
            text = '<md:EntitiesDescriptor xmlns:md="%s" ID="md-doc-evil" Name="evil">%s%s%s</md:EntitiesDescriptor>' % (mdgen.MD, sigb, evil_e, genuine_wo)
        elif variant == "wrapped-root-genuine-in-extensions":
            genuine = d.standalone(d.root).decode("utf-8")
            bogus = re.sub(r"(<[^>]*SignatureValue[^>]*>)[^<]*(</)", r"\1AAAA\2", sigb)
            text = '<md:EntitiesDescriptor xmlns:md="%s" ID="md-doc-evil" Name="evil"><md:Extensions>%s</md:Extensions>%s%s</md:EntitiesDescriptor>' % (mdgen.MD, genuine, evil_e, bogus)
        else:
            # the outsider's root carries a worthless Signature child of its own whose single Reference is what a genuine root signature would
            # have (the root's ID, or the whole document); where it stands among the children and whether the root has an ID varies
            _, ref, order, rootid = variant.split(":")
            genuine = d.standalone(d.root).decode("utf-8")
            rid = {"own-id": "md-doc-evil", "no-id": None, "genuine-id": "md-doc-1"}[rootid]
            uri = {"ref-root": "#%s" % (rid or "md-doc-evil"), "ref-document": "", "ref-genuine": "#md-doc-1"}[ref]
            bogus = re.sub(r"(<[^>]*SignatureValue[^>]*>)[^<]*(</)", r"\1AAAA\2", sigb)
            bogus = re.sub(r'URI="#[^"]*"|URI=""', 'URI="%s"' % uri, bogus, count=1)
            ext = "<md:Extensions>%s</md:Extensions>" % genuine
            kids = {"extensions-first": ext + bogus + evil_e, "signature-first": bogus + ext + evil_e, "signature-last": ext + evil_e + bogus}[order]
            text = '<md:EntitiesDescriptor xmlns:md="%s"%s Name="evil">%s</md:EntitiesDescriptor>' % (mdgen.MD, ' ID="%s"' % rid if rid else "", kids)
        ns_local, node_name = (mdgen.MD, "EntitiesDescriptor"), None
    use_cert = fed.key(4)[1] if variant == "wrong-cert" else (None if variant == "signed-no-cert" else cert)
    store = new_store()
    url = "https://md.example.org/federation.xml"
    kw = {"url": url}
    if use_cert:
        kw["cert"] = use_cert
    if node_name:
        kw["node_name"] = node_name
    form = case.get("form", "load-remote")
    plain = mdgen.entity({"eid": "https://plain-source.example.org/md", "idp": {"keys": [("signing", 5)], "sso": [(REDIR, "https://plain-source.example.org/sso")]}})
    other_signed = xk.sign_element(mdgen.entities([{"eid": "https://other-source.example.org/md", "idp": {"keys": [("signing", 6)], "sso": [(REDIR, "https://other-source.example.org/sso")]}}], ident="md-doc-2"),
                                   mdgen.MD, "EntitiesDescriptor", "md-doc-2", fed.key(8)[0], "rsa-sha256", fed.cert_body(8)) if "other-signed" in form else None

    class Router(object):
        def send(self_, u, *a, **k2):
            return StubHTTP({url: text, "https://md.example.org/plain.xml": plain, "https://md.example.org/other.xml": other_signed}[u]).send(u)
    store.http = Router()
    tup = (url, use_cert) if use_cert else (url,)
    EXT = "saml2_tophat.mdstore.MetaDataExtern"
    import os as _os
    fpath = _os.path.join(ctx.scratch, "c16-signed-%s.xml" % abs(hash(case["id"])))
    ctx.mark()
    try:
        if form == "load-remote":
            store.load("remote", **kw)
        elif form == "imp-dict-remote":
            store.imp({"remote": [dict(kw)]})
        elif form == "imp-classlist-extern":
            store.imp([{"class": EXT, "metadata": [tup]}])
        elif form == "imp-classlist-extern-after-plain-source":
            store.imp([{"class": EXT, "metadata": [("https://md.example.org/plain.xml",), tup]}])
        elif form == "imp-classlist-extern-before-plain-source":
            store.imp([{"class": EXT, "metadata": [tup, ("https://md.example.org/plain.xml",)]}])
        elif form == "imp-classlist-extern-after-other-signed-source":
            store.imp([{"class": EXT, "metadata": [("https://md.example.org/other.xml", fed.key(8)[1]), tup]}])
        elif form in ("imp-classlist-file", "direct-file"):
            with open(fpath, "w") as fh:
                fh.write(text)
            if form == "imp-classlist-file":
                store.imp([{"class": "saml2_tophat.mdstore.MetaDataFile", "metadata": [(fpath, use_cert) if use_cert else (fpath,)]}])
            else:
                md_ = mdstore.MetaDataFile(store.attrc, fpath, cert=use_cert, **({"node_name": node_name} if node_name else {}))
                md_.security = store.security
                md_.load()
                store.metadata[fpath] = md_
        elif form == "direct-extern":
            md_ = mdstore.MetaDataExtern(store.attrc, url, store.security, use_cert, store.http, **({"node_name": node_name} if node_name else {}))
            md_.load()
            store.metadata[url] = md_
        exc = None
    except Exception as e:
        exc = e
    finally:
        if _os.path.exists(fpath):
            _os.unlink(fpath)
    evs = [e for e in ctx.events() if not e.get("case", "").startswith("harness:")]
    served = sorted(store.keys())
    counters["signed_loads"] = counters.get("signed_loads", 0) + 1
    genuine_ok = [e for e in evs if monitors.genuine_ok(e)]
    sso = None
    if POOL[0] in served:
        try:
            sso = [s["location"] for s in store.single_sign_on_service(POOL[0], REDIR)]
        except Exception:
            sso = None
    what = "signed metadata variant=%s root=%s configured as %s: load %s, served %r, sso %r, verify events %r" % (
        variant, ns_local[1], form, "raised %s" % type(exc).__name__ if exc else "ok", served, sso, [monitors.slim(e) for e in evs][:3])
    sigs.add(("signed", variant, ns_local[1], form))
    # entities of the document under test (other sources of the same configuration may legitimately be served)
    served = [e for e in served if e in (POOL[0], POOL[1])]
    # the accept direction is asserted where the form can express what is needed (a node name for a single EntityDescriptor root, a
    # security context for file sources)
    can_serve = form in ("load-remote", "imp-dict-remote", "direct-extern", "direct-file") or (wrapped and "extern" in form)
    if variant in ("tampered", "wrong-cert"):
        if served:
            viol.append({"key": "C16/entities-served-from-metadata-whose-signature-does-not-verify", "what": what})
    elif variant in ("valid", "valid-whole-document-reference") and not can_serve:
        counters["observation:valid-signed-%s-via-%s" % ("served" if served else "not-served", form)] = 1
    elif variant in ("valid", "valid-whole-document-reference"):
        if not served or exc is not None:
            viol.append({"key": "C16/validly-signed-metadata-not-served", "what": what + " %r" % (exc,)})
        elif not genuine_ok:
            viol.append({"key": "C16/signed-metadata-served-without-genuine-verification", "what": what})
    elif variant.startswith("wrapped-root-"):
        all_served = sorted(store.keys())
        if "https://attacker.example.net/md" in all_served:
            viol.append({"key": "C16/entities-served-that-the-verified-signature-does-not-cover",
                         "what": what + "; the document's root is an outsider's element around the genuine signed one, and the outsider's entity is served: %r" % all_served})
    elif variant == "wrapped-root":
        counters["observation:wrapped-metadata-%s" % ("served" if served else "refused")] = 1
        if served and sso and "attacker" in sso[0]:
            counters["observation:wrapped-metadata-attacker-endpoint-served"] = 1
    else:
        if not served:
            counters["observation:%s-not-served" % variant] = 1


WRAP_MORE = tuple("wrapped-root-own-signature:x:%s:%s:%s" % (ref, order, rootid) for ref in ("ref-root", "ref-document", "ref-genuine")
                  for order in ("extensions-first", "signature-first", "signature-last") for rootid in ("own-id", "no-id", "genuine-id")
                  if not (ref == "ref-genuine" and rootid == "genuine-id"))
WRAP_MORE = tuple(v.replace("wrapped-root-own-signature:x:", "wrapped-root-own-signature:") for v in WRAP_MORE)


def run_roundtrip(case, ctx, viol, counters, sigs):
    rng = random.Random("%s/%s" % (ctx.seed, case["id"]))
    from saml2_tophat import BINDING_HTTP_POST, BINDING_HTTP_REDIRECT, BINDING_SOAP
    host = "https://rt%d.example.org" % case["k"]
    bl = [BINDING_HTTP_POST, BINDING_HTTP_REDIRECT, BINDING_SOAP]
    if case["k"] % 2 == 0:
        acs = [("%s/acs/%d" % (host, i), rng.choice(bl[:2])) for i in range(rng.randint(1, 4))]
        slo = [("%s/slo/%d" % (host, i), rng.choice(bl)) for i in range(rng.randint(0, 3))]
        ki = rng.randrange(12)
        eks = tuple(rng.sample(range(12), rng.randint(0, 2)))
        cnf = fed.sp_conf(eid=host + "/md", key_i=ki, enc_keys=eks, endpoints={"assertion_consumer_service": acs, "single_logout_service": slo})
        role, svc = "spsso", "assertion_consumer_service"
        want = {"assertion_consumer_service": acs, "single_logout_service": slo}
    else:
        sso = [("%s/sso/%d" % (host, i), rng.choice(bl[:2])) for i in range(rng.randint(1, 3))]
        slo = [("%s/slo/%d" % (host, i), rng.choice(bl)) for i in range(rng.randint(0, 3))]
        ki = rng.randrange(12)
        eks = ()
        cnf = fed.idp_conf(eid=host + "/md", key_i=ki, endpoints={"single_sign_on_service": sso, "single_logout_service": slo})
        role = "idpsso"
        want = {"single_sign_on_service": sso, "single_logout_service": slo}
    # key material in every arrangement a configuration allows: further signing certificates (roll-over), the encryption pair being the signing
    # pair again, both
    extra_sign = []
    arrangement = ["plain", "additional-signing-cert", "encryption-pair-is-signing-pair", "both"][case["k"] // 2 % 4]
    if arrangement in ("additional-signing-cert", "both"):
        extra_sign = [(ki + 5) % 12]
        cnf["additional_cert_files"] = [fed.key(extra_sign[0])[1]]
    if arrangement in ("encryption-pair-is-signing-pair", "both"):
        eks = (ki,)
        cnf["encryption_keypairs"] = [{"key_file": fed.key(ki)[0], "cert_file": fed.key(ki)[1]}]
    # the certificate file as administrators leave it: with a blank line at the end, with the text dump `openssl x509 -text` puts in front,
    # with CRLF line ends - the same certificate
    shape = ["as-is", "trailing-blank-line", "leading-text", "crlf"][(case["k"] // 2 + case["k"] // 8) % 4]
    if shape != "as-is":
        pem = open(cnf["cert_file"]).read()
        if shape == "trailing-blank-line":
            pem = pem.rstrip("\n") + "\n\n"
        elif shape == "leading-text":
            pem = "Certificate:\n    Data:\n        Version: 3 (0x2)\n    Signature Algorithm: sha256WithRSAEncryption\n" + pem
        else:
            pem = pem.replace("\r\n", "\n").replace("\n", "\r\n")
        path = os.path.join(ctx.scratch, "rt-cert-%d-%s.pem" % (case["k"], shape))
        with open(path, "w", newline="") as f:
            f.write(pem)
        cnf["cert_file"] = path
    arrangement = arrangement + "/certificate-file-" + shape
    try:
        xml = fed.metadata_of(cnf)
    except Exception as exc:
        viol.append({"key": "C16/generated-metadata-does-not-load-back-to-configured-keys",
                     "what": "%s (%s): generating the metadata raised %r" % (host, arrangement, exc)})
        return
    store = new_store()
    store.imp([{"class": "saml2_tophat.mdstore.InMemoryMetaData", "metadata": [(xml,)]}])
    eid = host + "/md"
    for service, eps in want.items():
        for b in bl:
            counters["roundtrip_lookups"] = counters.get("roundtrip_lookups", 0) + 1
            exp = sorted(l for l, bb in eps if bb == b)
            try:
                got = sorted(s["location"] for s in store.service(eid, role + "_descriptor", service, b))
            except Exception as exc:
                got = "raise:" + type(exc).__name__
            if exp:
                if got != exp:
                    viol.append({"key": "C16/generated-metadata-does-not-load-back-to-configured-endpoints",
                                 "what": "%s %s %s: configured %r, served %r" % (eid, service, b.rsplit(":", 1)[-1], exp, got)})
            elif not isinstance(got, str) and got:
                viol.append({"key": "C16/generated-metadata-does-not-load-back-to-configured-endpoints", "what": "%s %s %s: nothing configured, served %r" % (eid, service, b, got)})
    signing = sorted(set(monitors.cert_name(fed_pem(c)) for c in store.certs(eid, role, "signing")))
    if "k%02d" % ki not in signing:
        viol.append({"key": "C16/generated-metadata-does-not-load-back-to-configured-keys", "what": "%s: signing certs served %r, configured k%02d" % (eid, signing, ki)})
    enc = sorted(set(monitors.cert_name(fed_pem(c)) for c in store.certs(eid, role, "encryption")))
    for k in eks:
        if "k%02d" % k not in enc:
            viol.append({"key": "C16/generated-metadata-does-not-load-back-to-configured-keys", "what": "%s: encryption certs served %r, configured k%02d" % (eid, enc, k)})
    # ... and nothing beyond what the configuration declares for that use
    want_sign = sorted(set("k%02d" % k for k in [ki] + extra_sign))
    if signing != want_sign:
        viol.append({"key": "C16/generated-metadata-does-not-load-back-to-configured-keys",
                     "what": "%s (%s): signing certs served %r, configured %r" % (eid, arrangement, signing, want_sign)})
    if eks and enc != sorted(set("k%02d" % k for k in eks)):
        viol.append({"key": "C16/generated-metadata-does-not-load-back-to-configured-keys",
                     "what": "%s (%s): encryption certs served %r, configured %r" % (eid, arrangement, enc, sorted(set("k%02d" % k for k in eks)))})
    sigs.add(("roundtrip", role, arrangement))


def run_validuntil(case, ctx, viol, counters, sigs):
    import re as _re
    clock.install()
    clock.set_now(T0)
    t = T0 - case["ago"]
    m = _re.match(r"^(\.\d+)?(Z|[+-]\d\d:\d\d)?$", case["zone"])
    frac, zone = m.group(1) or "", m.group(2) or ""
    if zone and zone != "Z":
        sign = 1 if zone[0] == "+" else -1
        t += sign * (int(zone[1:3]) * 3600 + int(zone[4:6]) * 60)      # the same instant, written in that zone
    text = clock.iso(t, z=False) + frac + zone
    eid = "https://vu.example.org/md"
    doc = mdgen.entity({"eid": eid, "valid_until": text, "idp": {"keys": [("signing", 3)], "sso": [(REDIR, "https://vu.example.org/sso")]}})
    for how in ("imp-inline", "load-inline", "file"):
        store = new_store()
        try:
            if how == "imp-inline":
                store.imp([{"class": "saml2_tophat.mdstore.InMemoryMetaData", "metadata": [(doc,)]}])
            elif how == "load-inline":
                store.load("inline", doc)
            else:
                path = os.path.join(ctx.scratch, "vu-%s.xml" % abs(hash(case["id"])))
                with open(path, "w") as f:
                    f.write(doc)
                store.load("local", path)
        except Exception as exc:
            counters["load_raised:" + type(exc).__name__] = counters.get("load_raised:" + type(exc).__name__, 0) + 1
        counters["validity_lookups"] = counters.get("validity_lookups", 0) + 1
        sigs.add(("validuntil", how, case["ago"] > 0, case["zone"]))
        try:
            served = eid in store.keys() and bool(store.single_sign_on_service(eid, REDIR))
        except Exception:
            served = False
        if case["ago"] > 0 and served:
            viol.append({"key": "C16/expired-entity-served", "what": "stand-alone descriptor with validUntil=%r (%d s ago at the virtual now) loaded via %s is served" % (
                text, case["ago"], how)})
        elif case["ago"] < 0 and not served:
            viol.append({"key": "C16/declared-entity-not-served", "what": "stand-alone descriptor with validUntil=%r (%d s ahead) loaded via %s is not served" % (
                text, -case["ago"], how)})
    clock.set_now(None)


def run_case(case, ctx):
    viol, counters, sigs = [], {}, set()
    if case["kind"] == "docset":
        run_docset(case, ctx, viol, counters, sigs)
    elif case["kind"] == "reload":
        run_reload(case, ctx, viol, counters, sigs)
    elif case["kind"] == "mixed":
        run_mixed(case, ctx, viol, counters, sigs)
    elif case["kind"] == "signed":
        run_signed(case, ctx, viol, counters, sigs)
    elif case["kind"] == "validuntil":
        run_validuntil(case, ctx, viol, counters, sigs)
    else:
        run_roundtrip(case, ctx, viol, counters, sigs)
    uniq = {}
    for v in viol:
        uniq.setdefault(v["key"], v)
    n = sum(v for k, v in counters.items() if k.endswith("_lookups") or k.endswith("_checks") or k == "signed_loads")
    return {"outcome": "violations" if viol else "held", "nontrivial": n > 0, "violations": list(uniq.values())[:8], "counters": counters,
            "sigs": [list(s) for s in sigs], "evals": max(1, n), "obs": {"kind": case["kind"]}}


def finalize(cases, results, tier, extras):
    tot = {}
    for r in results:
        for k, v in r.get("counters", {}).items():
            tot[k] = tot.get(k, 0) + v
    inc = []
    for need in ("service_lookups", "cert_lookups", "signed_loads", "roundtrip_lookups", "reloads"):
        if not tot.get(need):
            inc.append("counter %s is zero" % need)
    return {"inconclusive": inc, "coverage": {"observations": {k: v for k, v in tot.items() if k.startswith("observation:") or k.startswith("load_raised")}}}
