"""C08 - what the IdP asserts is what the SP reads, for any content.

IdP and SP are configured from each other's generated metadata.  For generated
identities (XML-special characters, quotes, look-alike markup, multi-byte text, padding,
long and many values), NameID formats, authentication contexts, lifetimes, bindings
(POST / Redirect / SOAP, through Entity.apply_binding and independent readers) and every
sign_response x sign_assertion x encrypt_assertion x algorithm setting, the response built
by Server.create_authn_response must be accepted by Saml2Client.parse_authn_request_response
and the application must read exactly what was asserted.
"""
import base64
import html.parser
import itertools
import os
import random
import urllib.parse as up
import xml.etree.ElementTree as ET

from vlib import env, fed, gen, clock, xmlkit as xk

PROPERTY = "C08"
LEVEL = "exploration"
RULE = ("one execution = one complete flow: SP makes a request, IdP builds the response with one option setting, the response is transported "
        "with one binding and parsed by the SP; non-trivial = the SP accepted the response or refused it after decoding (every flow is expected to "
        "be accepted); distinct = (identity class, NameID format, binding, sign_response, sign_assertion, encrypt, algorithm)")
ASSUMPTIONS = ["values contain no carriage return and no control characters other than tab/newline (XML line-end normalisation and XML 1.0 "
               "character range are outside the property)",
               "libxmlsec1 driver as in C01"]

from saml2_tophat import BINDING_HTTP_POST, BINDING_HTTP_REDIRECT, BINDING_SOAP  # noqa: E402
from saml2_tophat.saml import NAMEID_FORMAT_PERSISTENT, NAMEID_FORMAT_TRANSIENT, NAMEID_FORMAT_EMAILADDRESS  # noqa: E402

SAML = "urn:oasis:names:tc:SAML:2.0:assertion"
ALGS = {
    "default": (None, None),
    "rsa-sha1": ("http://www.w3.org/2000/09/xmldsig#rsa-sha1", "http://www.w3.org/2000/09/xmldsig#sha1"),
    "rsa-sha224": ("http://www.w3.org/2001/04/xmldsig-more#rsa-sha224", "http://www.w3.org/2001/04/xmldsig-more#sha224"),
    "rsa-sha256": ("http://www.w3.org/2001/04/xmldsig-more#rsa-sha256", "http://www.w3.org/2001/04/xmlenc#sha256"),
    "rsa-sha384": ("http://www.w3.org/2001/04/xmldsig-more#rsa-sha384", "http://www.w3.org/2001/04/xmldsig-more#sha384"),
    "rsa-sha512": ("http://www.w3.org/2001/04/xmldsig-more#rsa-sha512", "http://www.w3.org/2001/04/xmlenc#sha512"),
}
CLASSREFS = ["urn:oasis:names:tc:SAML:2.0:ac:classes:InternetProtocolPassword", "urn:oasis:names:tc:SAML:2.0:ac:classes:PasswordProtectedTransport",
             "urn:oasis:names:tc:SAML:2.0:ac:classes:unspecified", "https://refeds.org/profile/mfa"]
IDENT_CLASSES = ["plain", "xml-special", "lookalike-markup", "multibyte", "padded", "long", "many-values", "mixed", "repeated-values", "typed-lookalikes", "scale", "line-endings", "structured-lookalikes"]


def identity_for(cls, rng):
    names = gen.ATTRS
    if cls == "plain":
        return gen.identity(rng, hostile=False)
    if cls == "xml-special":
        return {n: ["a<b>&c\"d'e" + gen.word(rng, 1, 3), "&amp;&lt;]]>" + gen.word(rng, 1, 3)] for n in rng.sample(names, 3)}
    if cls == "lookalike-markup":
        return {"displayName": ['</ns1:AttributeValue><ns1:AttributeValue>injected', '<saml:Attribute Name="admin"/>', "<!-- c -->", "<![CDATA[x]]>", "<?pi x?>"],
                "mail": ['x"/><ns1:Attribute Name="urn:oid:2.5.4.42"><ns1:AttributeValue>evil</ns1:AttributeValue></ns1:Attribute>'],
                "givenName": ["&#x3C;b&#x3E;", "&lt;script&gt;", "%3Cx%3E"],
                # start tags that look like the message's own, namespace declarations and all
                "sn": ['<samlp:Response xmlns:samlp="urn:oasis:names:tc:SAML:2.0:protocol" ID="x">', '<saml:Assertion xmlns:saml="urn:oasis:names:tc:SAML:2.0:assertion">',
                       'xmlns:xs="http://www.w3.org/2001/XMLSchema"', '<ds:Signature xmlns:ds="http://www.w3.org/2000/09/xmldsig#"/>',
                       '<?xml version="1.0" encoding="UTF-8"?>', "<ns0:Envelope xmlns:ns0=\"http://schemas.xmlsoap.org/soap/envelope/\"><ns0:Body>"]}
    if cls == "multibyte":
        return {n: [rng.choice(gen.UNICODE[:6]) + gen.word(rng, 1, 4), "𝔘𝔫𝔦𝔠𝔬𝔡𝔢 " + gen.word(rng, 1, 3)] for n in rng.sample(names, 3)}
    if cls == "padded":
        return {"givenName": ["  lead", "trail  ", " both ", "in  ner", "tab\tin", "line\nbreak", "\n\nwrapped\n"], "sn": [" x "]}
    if cls == "line-endings":
        # every way a line can end, inside a value (the ends of a value are trimmed by the SP)
        return {"displayName": ["a\rb", "a\r\nb", "a\n\rb", "x\r\r\ny", "l1\nl2\r\nl3\rl4"], "sn": ["tab\tand\rcr"], "givenName": ["end\r", "\rstart", "plain"]}
    if cls == "long":
        return {"displayName": [gen.word(rng, 3000, 6000)], "mail": [gen.word(rng, 200, 300) + "@example.org"]}
    if cls == "many-values":
        return {"eduPersonEntitlement": ["urn:x:%d:%s" % (i, gen.word(rng, 2, 6)) for i in range(60)], "uid": ["u"]}
    if cls == "repeated-values":
        # the same value more than once in one attribute, the same value list under two attributes, one value shared by two attributes
        w = gen.word(rng, 3, 6)
        return {"eduPersonAffiliation": ["member", "staff", "member"], "eduPersonEntitlement": ["urn:x:a", "urn:x:a", "urn:x:a", "urn:x:b"],
                "givenName": [w], "displayName": [w], "sn": [w, w]}
    if cls == "scale":
        # every attribute of the map at once, one of them with very many values, one very long value
        ident = {n: ["%s-%s" % (n, gen.word(rng, 2, 6))] for n in names}
        ident["eduPersonEntitlement"] = ["urn:x:%04d:%s" % (i, gen.word(rng, 2, 6)) for i in range(1500)]
        ident["displayName"] = [gen.word(rng, 150000, 200000)]
        return ident
    if cls == "structured-lookalikes":
        # values in the shapes the package's own helpers give to structured identifiers (eptid: <idp>!<sp>!<opaque>; scoped; coded NameIDs)
        return {"eduPersonTargetedID": ["https://idp.example.org/md!https://sp.example.org/md!5620aeb1c9d0", "a!b!c"],
                "eduPersonPrincipalName": ["ann@example.org", "a!b!c"], "uid": ["1=https%3A//idp.example.org/md,2=persistent,4=abc", "x!y"],
                "eduPersonScopedAffiliation": ["staff@example.org", "member@!!"]}
    if cls == "typed-lookalikes":
        # text that looks like another type or like nothing: carried as the text it is
        return {"uid": ["0"], "givenName": ["true", "false", "None", "null"], "sn": ["1.0", "1e3", "-0", "007"], "mail": ["2024-01-01T00:00:00Z"],
                "displayName": ["urn:oasis:names:tc:SAML:2.0:nameid-format:transient"]}
    ident = gen.identity(rng, hostile=True, lo=3, hi=8)
    for k in list(ident):
        ident[k] = [v.replace("\x00", "").replace("\x7f", "") for v in ident[k]]
    return ident


def gen_cases(tier, seed):
    rng = random.Random(seed)
    cases = []
    combos = list(itertools.product((0, 1), (0, 1), (0, 1)))     # sign_response, sign_assertion, encrypt
    algs = sorted(ALGS)
    for icls in IDENT_CLASSES:
        for (sr, sa, enc) in combos:
            for binding in ("post", "redirect", "soap"):
                alg_list = algs if tier == "thorough" else ["default", rng.choice(algs[1:])]
                for alg in alg_list:
                    if not (sr or sa) and alg != "default":
                        continue
                    if tier == "quick" and binding != "post" and rng.random() < 0.6:
                        continue
                    nfmt = rng.choice(["persistent", "transient", "email", "given", "given-astral"])
                    cid = "%s-r%d-a%d-e%d-%s-%s-%s" % (icls, sr, sa, enc, binding, alg, nfmt)
                    skew = rng.choice([0, 0, 180, 3600])
                    extra = rng.choice([None, None, "locality-ip", "locality-ipv6", "locality-dns", "instant"])
                    cases.append({"id": cid, "sig": [icls, nfmt, binding, sr, sa, enc, alg, skew > 0, extra], "icls": icls, "sr": sr, "sa": sa, "enc": enc, "binding": binding,
                                  "alg": alg, "nfmt": nfmt, "classref": rng.choice(CLASSREFS), "snooa": rng.choice([None, 3600, 86400 * 3]),
                                  "lifetime": rng.choice([5, 15, 600]), "skew": skew, "authn_extra": extra})
    # the attributes in an encrypted advice assertion (pefim), with and without the assertion around it encrypted as well
    for icls in IDENT_CLASSES[:4] if tier == "quick" else IDENT_CLASSES:
        for (sr, sa, enc) in combos:
            nfmt = rng.choice(["persistent", "transient", "given", "given-astral"])
            cases.append({"id": "%s-r%d-a%d-e%d-post-default-%s-pefim" % (icls, sr, sa, enc, nfmt), "sig": [icls, nfmt, "post", sr, sa, enc, "default", False, "pefim"],
                          "icls": icls, "sr": sr, "sa": sa, "enc": enc, "binding": "post", "alg": "default", "nfmt": nfmt, "classref": CLASSREFS[0], "snooa": None,
                          "lifetime": 15, "skew": 0, "authn_extra": None, "pefim": 1})
    # entities configured with a site-specific attribute map directory
    for icls in ("plain", "multibyte", "repeated-values"):
        for (sr, sa, enc) in combos:
            cases.append({"id": "%s-r%d-a%d-e%d-post-default-persistent-site-maps" % (icls, sr, sa, enc), "sig": [icls, "persistent", "post", sr, sa, enc, "default", False, "site-maps"],
                          "icls": icls, "sr": sr, "sa": sa, "enc": enc, "binding": "post", "alg": "default", "nfmt": "persistent", "classref": CLASSREFS[0], "snooa": None,
                          "lifetime": 15, "skew": 0, "authn_extra": None, "site_maps": 1})
    for (sr, sa, enc) in combos:
        cases.append({"id": "deferred-r%d-a%d-e%d" % (sr, sa, enc), "sig": ["deferred", sr, sa, enc], "kind": "interleaved", "mode": "deferred",
                      "sr": sr, "sa": sa, "enc": enc, "users": 4})
        if tier == "thorough" or (sr, sa, enc) in ((0, 0, 0), (1, 1, 0), (1, 0, 1)):
            cases.append({"id": "threads-r%d-a%d-e%d" % (sr, sa, enc), "sig": ["threads", sr, sa, enc], "kind": "interleaved", "mode": "threads",
                          "sr": sr, "sa": sa, "enc": enc, "users": 3, "iters": 12 if tier == "quick" else 80})
    return cases


def setup_worker(ctx):
    ctx.fedcache = fed.Cache()


def _check_identity(resp_obj, ident, desc, viol, key_suffix=""):
    got = fed.identity_of(resp_obj)
    want_ava = {k: sorted(x.strip() for x in v) for k, v in ident.items()}
    if got.get("ava") != want_ava:
        diff = {k: (want_ava.get(k), (got.get("ava") or {}).get(k)) for k in set(want_ava) | set(got.get("ava") or {}) if want_ava.get(k) != (got.get("ava") or {}).get(k)}
        viol.append({"key": "C08/attributes-read-differ-from-asserted" + key_suffix, "what": desc + ": " + repr(diff)[:500]})
        return False
    return True


def run_interleaved(case, ctx):
    """one long-lived IdP builds several responses before any of them is serialised / from several threads at once: each subject must still
    read its own identity"""
    import sys
    import threading
    sp, idp = _pair(ctx, case["sr"], case["sa"], 15)
    rng = random.Random("%s/%s" % (ctx.seed, case["id"]))
    names = ["givenName", "sn", "mail", "eduPersonAffiliation"]
    idents = [{n: ["%s-of-user%d-%s" % (n, u, gen.word(rng, 3, 5))] for n in names} for u in range(case["users"])]
    viol, counters = [], {"flows": 0}
    kw = dict(sign_response=bool(case["sr"]), sign_assertion=bool(case["sa"]), encrypt_assertion=bool(case["enc"]))
    desc0 = "sign_response=%d sign_assertion=%d encrypt=%d" % (case["sr"], case["sa"], case["enc"])
    if case["mode"] == "deferred":
        rids, objs = [], []
        for u, ident in enumerate(idents):
            rid, _req = sp.create_authn_request(fed.SSO_REDIRECT)
            rids.append(rid)
            objs.append(idp.create_authn_response(dict((k, list(v)) for k, v in ident.items()), rid, fed.ACS_POST, fed.SP_EID, userid="user%d" % u,
                                                  authn=fed.AUTHN, **kw))
        order = list(range(len(objs)))
        rng.shuffle(order)
        for u in order:
            xml = "%s" % objs[u]                      # serialised only now, after the others were built
            try:
                r = sp.parse_authn_request_response(fed.b64(xml), BINDING_HTTP_POST, {rids[u]: "/"})
            except Exception as exc:
                viol.append({"key": "C08/own-response-not-accepted", "what": desc0 + " deferred serialisation, user %d: %r" % (u, exc)})
                continue
            counters["flows"] += 1
            _check_identity(r, idents[u], desc0 + " [response built before %d others were built, serialised afterwards] user %d" % (len(objs) - 1, u), viol,
                            "-when-responses-are-built-before-serialised")
    else:
        old = sys.getswitchinterval()
        sys.setswitchinterval(1e-6)
        lock = threading.Lock()
        results = []

        def work(u):
            for i in range(case["iters"]):
                try:
                    rid, _req = sp.create_authn_request(fed.SSO_REDIRECT)
                    resp = idp.create_authn_response(dict((k, list(v)) for k, v in idents[u].items()), rid, fed.ACS_POST, fed.SP_EID, userid="user%d" % u,
                                                     authn=fed.AUTHN, **kw)
                    xml = "%s" % resp
                    r = sp.parse_authn_request_response(fed.b64(xml), BINDING_HTTP_POST, {rid: "/"})
                    with lock:
                        results.append((u, r, None))
                except Exception as exc:
                    with lock:
                        results.append((u, None, exc))
        try:
            ths = [threading.Thread(target=work, args=(u,)) for u in range(case["users"])]
            for t in ths:
                t.start()
            for t in ths:
                t.join(600)
        finally:
            sys.setswitchinterval(old)
        for u, r, exc in results:
            counters["flows"] += 1
            if r is None:
                viol.append({"key": "C08/own-response-not-accepted-under-concurrency", "what": desc0 + " thread of user %d: %r" % (u, exc)})
            else:
                _check_identity(r, idents[u], desc0 + " [%d threads on one IdP] user %d" % (case["users"], u), viol, "-under-concurrency")
            if len(viol) > 4:
                break
    uniq = {}
    for v in viol:
        uniq.setdefault(v["key"], v)
    return {"outcome": "violations" if viol else "accepted", "nontrivial": counters["flows"] > 0, "violations": list(uniq.values()), "counters": counters,
            "evals": max(1, counters["flows"]), "sigs": [["interleaved", case["mode"], case["sr"], case["sa"], case["enc"]]]}


SITE_MAPS = os.path.join(env.VERIF, "fixtures", "attributemaps-site")


def _pair(ctx, sr, sa, lifetime, skew=0, site_maps=False):
    def build():
        # accepted_time_diff widens what the SP accepts; it must not change what the application reads
        top = {"accepted_time_diff": skew} if skew else {}
        if site_maps:
            # the documented way to give an entity its own attribute maps (top level, as in the package's example configurations)
            top["attribute_map_dir"] = SITE_MAPS
        spc = fed.sp_conf(want_response_signed=bool(sr), want_assertions_signed=bool(sa), top=top or None)
        policy = {"default": {"lifetime": {"minutes": lifetime}, "attribute_restrictions": None,
                              "name_form": "urn:oasis:names:tc:SAML:2.0:attrname-format:uri", "nameid_format": NAMEID_FORMAT_PERSISTENT}}
        idc = fed.idp_conf(policy=policy, domain="example.org", top=({"attribute_map_dir": SITE_MAPS} if site_maps else None))
        return fed.make_sp(spc, [fed.metadata_of(idc)]), fed.make_idp(idc, [fed.metadata_of(spc)])
    return ctx.fedcache.get("pair", [sr, sa, lifetime, skew, site_maps], build)


class _Form(html.parser.HTMLParser):
    def __init__(self):
        html.parser.HTMLParser.__init__(self, convert_charrefs=True)
        self.fields = {}

    def handle_starttag(self, tag, attrs):
        d = dict(attrs)
        if tag == "input" and d.get("name"):
            self.fields[d["name"]] = d.get("value")
    handle_startendtag = handle_starttag


def run_case(case, ctx):
    from saml2_tophat.saml import NameID
    from saml2_tophat.samlp import NameIDPolicy
    if case.get("kind") == "interleaved":
        return run_interleaved(case, ctx)
    sp, idp = _pair(ctx, case["sr"], case["sa"], case["lifetime"], case.get("skew", 0), bool(case.get("site_maps")))
    rng = random.Random("%s/%s" % (ctx.seed, case["id"]))
    ident = identity_for(case["icls"], rng)
    if case.get("site_maps"):
        # attributes only the site's map knows, and one whose wire name the site defines itself
        ident = dict(ident, staffId=["S-4711"], costCentre=["cc-%s" % gen.word(rng, 2, 4), "cc-2"], mail=["ann@site.example.org"])
    binding = {"post": BINDING_HTTP_POST, "redirect": BINDING_HTTP_REDIRECT, "soap": BINDING_SOAP}[case["binding"]]
    dest = {"post": fed.ACS_POST, "redirect": fed.ACS_REDIRECT, "soap": fed.ACS_POST}[case["binding"]]
    rid, req = sp.create_authn_request(fed.SSO_REDIRECT)
    kw = {}
    given_nid = None
    if case["nfmt"] in ("given", "given-astral"):
        text = "ann<&>\"q\"@example.org" if case["nfmt"] == "given" else "user-\U0001F600-\U0001D518\U00020000-\u00e9@example.org"     # (outside the BMP)
        given_nid = NameID(format=NAMEID_FORMAT_EMAILADDRESS, text=text, sp_name_qualifier=fed.SP_EID)
        kw["name_id"] = given_nid
    else:
        fmt = {"persistent": NAMEID_FORMAT_PERSISTENT, "transient": NAMEID_FORMAT_TRANSIENT, "email": NAMEID_FORMAT_EMAILADDRESS}[case["nfmt"]]
        kw["name_id_policy"] = NameIDPolicy(format=fmt, allow_create="true")
    sign_alg, digest_alg = ALGS[case["alg"]]
    if sign_alg:
        kw["sign_alg"], kw["digest_alg"] = sign_alg, digest_alg
    t_issue = clock.now()
    if case["snooa"]:
        kw["session_not_on_or_after"] = clock.iso(t_issue + case["snooa"])
    if case.get("pefim"):
        kw["pefim"] = True
    authn = {"class_ref": case["classref"], "authn_auth": "https://idp.example.org/authn"}
    # the optional pieces of authentication information an application may hand over as well
    extra = case.get("authn_extra")
    if extra == "locality-ip":
        authn["subject_locality"] = "192.0.2.7"
    elif extra == "locality-ipv6":
        authn["subject_locality"] = "2001:db8::7"
    elif extra == "locality-dns":
        authn["subject_locality"] = "client7.campus.example.org"
    elif extra == "instant":
        authn["authn_instant"] = 1580608922        # 2020-02-02T02:02:02Z (the library takes seconds since the epoch)
    try:
        resp = idp.create_authn_response(dict((k, list(v)) for k, v in ident.items()), rid, dest, fed.SP_EID, userid="user-%s" % case["icls"], authn=authn,
                                         sign_response=bool(case["sr"]), sign_assertion=bool(case["sa"]), encrypt_assertion=bool(case["enc"]), **kw)
        xml = "%s" % resp
    except Exception as exc:
        # "every response the provider builds": a refusal to build is counted, not a violation (DESIGN.md C17)
        return {"outcome": "idp-raised:" + type(exc).__name__, "nontrivial": False, "violations": [], "counters": {"idp_raised": 1}, "obs": {"exc": repr(exc)[:200]}}
    viol = []
    desc = "identity=%s nameid=%s binding=%s sign_response=%d sign_assertion=%d encrypt=%d alg=%s accepted_time_diff=%d" % (
        case["icls"], case["nfmt"], case["binding"], case["sr"], case["sa"], case["enc"], case["alg"], case.get("skew", 0))
    if case.get("authn_extra"):
        desc += " authn-info=%s" % case["authn_extra"]
    if case.get("pefim"):
        desc += " pefim (attributes in an encrypted advice assertion)"
    # structure of the plaintext message: exactly the asked attributes and values, nothing else
    if not case["enc"] and not case.get("pefim"):
        root = ET.fromstring(xml.encode("utf-8"))
        asts = list(root.iter("{%s}AttributeStatement" % SAML))
        attrs = list(root.iter("{%s}Attribute" % SAML))
        vals = list(root.iter("{%s}AttributeValue" % SAML))
        want_attrs = len([k for k, v in ident.items() if v])
        want_vals = sum(len(v) for v in ident.values())
        extra = [c.tag for a in asts for c in a if c.tag != "{%s}Attribute" % SAML] + [c.tag for a in attrs for c in a if c.tag != "{%s}AttributeValue" % SAML] + \
                [c.tag for a in attrs for v in a if v.tag == "{%s}AttributeValue" % SAML for c in v
                 # (eduPersonTargetedID is the one attribute whose values are documented to travel as a NameID element inside the value)
                 if not (c.tag == "{%s}NameID" % SAML and len(v) == 1 and (a.get("FriendlyName") == "eduPersonTargetedID" or a.get("Name", "").endswith("1.3.6.1.4.1.5923.1.1.1.10")))]
        if len(asts) != 1 or len(attrs) != want_attrs or len(vals) != want_vals or extra:
            viol.append({"key": "C08/attribute-content-changed-message-structure",
                         "what": desc + ": %d statements, %d attributes (asked %d), %d values (asked %d), foreign elements %r" % (
                             len(asts), len(attrs), want_attrs, len(vals), want_vals, extra[:4]), "detail": {"identity": ident}})
    # transport
    info = idp.apply_binding(binding, xml, dest, "relay", response=True)
    if case["binding"] == "post":
        f = _Form()
        f.feed(info["data"])
        payload = f.fields.get("SAMLResponse")
    elif case["binding"] == "redirect":
        q = dict(up.parse_qsl(up.urlsplit(dict(info["headers"])["Location"]).query))
        payload = q.get("SAMLResponse")
    else:
        payload = info["data"]
    try:
        r = sp.parse_authn_request_response(payload, binding, {rid: "/came/from"})
        exc = None
    except Exception as e:
        r, exc = None, e
    if r is None:
        key = "C08/own-response-not-accepted"
        if case["binding"] == "soap" and (case["sr"] or case["sa"]) and type(exc).__name__ == "SignatureError":
            # mechanism check: did unwrapping the SOAP body re-serialise the signed message with other namespace prefixes?
            try:
                back = sp.unravel(payload, binding, "authn_response")
                q1 = [xk.Doc(xml).qname(n) for n in xk.Doc(xml).root.iter()]
                d2 = xk.Doc(back)
                q2 = [d2.qname(n) for n in d2.root.iter()]
                if q1 != q2:
                    key = "C08/soap-unwrapping-reserialises-signed-message-with-other-prefixes"
            except Exception:
                pass
        viol.append({"key": key, "what": desc + ": %r" % (exc,), "detail": {"identity": ident, "xml": xml[:4000]}})
        return {"outcome": "rejected:" + (type(exc).__name__ if exc is not None else "None"), "nontrivial": True, "violations": viol, "counters": {"flows": 1}}
    got = fed.identity_of(r)
    want_ava = {k: sorted(x.strip() for x in v) for k, v in ident.items()}
    if got.get("ava") != want_ava:
        diff = {k: (want_ava.get(k), (got.get("ava") or {}).get(k)) for k in set(want_ava) | set(got.get("ava") or {}) if want_ava.get(k) != (got.get("ava") or {}).get(k)}
        viol.append({"key": "C08/attributes-read-differ-from-asserted", "what": desc + ": " + repr(diff)[:600], "detail": {"identity": ident}})
    nid = got.get("name_id") or {}
    if given_nid is not None:
        if nid.get("text") != given_nid.text or nid.get("format") != given_nid.format:
            viol.append({"key": "C08/name-id-read-differs-from-asserted", "what": desc + ": %r" % (nid,)})
    else:
        fmt = {"persistent": NAMEID_FORMAT_PERSISTENT, "transient": NAMEID_FORMAT_TRANSIENT, "email": NAMEID_FORMAT_EMAILADDRESS}[case["nfmt"]]
        if nid.get("format") != fmt or not nid.get("text"):
            viol.append({"key": "C08/name-id-format-differs-from-requested", "what": desc + ": %r" % (nid,)})
        elif case["nfmt"] == "email" and not nid["text"].endswith("@example.org"):
            viol.append({"key": "C08/name-id-read-differs-from-asserted", "what": desc + ": %r" % (nid,)})
    if got.get("in_response_to") != rid:
        viol.append({"key": "C08/in-response-to-differs", "what": desc + ": %r != %r" % (got.get("in_response_to"), rid)})
    if got.get("issuer") != fed.IDP_EID:
        viol.append({"key": "C08/issuer-differs", "what": desc + ": %r" % got.get("issuer")})
    ai = got.get("authn_info") or []
    if not ai or ai[0][0] != case["classref"]:
        viol.append({"key": "C08/authn-context-differs", "what": desc + ": %r, asked %r" % (ai, case["classref"])})
    if case.get("authn_extra") == "instant":
        try:
            seen = r.assertion.authn_statement[0].authn_instant
        except Exception as exc:
            seen = "ERR %r" % (exc,)
        if seen != "2020-02-02T02:02:02Z":
            viol.append({"key": "C08/authn-instant-differs", "what": desc + ": AuthnInstant %r, asked 2020-02-02T02:02:02Z" % (seen,)})
    sess = got.get("session") if isinstance(got.get("session"), dict) else {}
    nooa = sess.get("not_on_or_after")
    if case["snooa"]:
        want_t = int(t_issue) + case["snooa"]
        if not isinstance(nooa, (int, float)) or abs(nooa - want_t) > 2:
            viol.append({"key": "C08/session-expiry-differs", "what": desc + ": session not_on_or_after %r, asked %r" % (nooa, want_t)})
    else:
        want_t = int(t_issue) + case["lifetime"] * 60
        if not isinstance(nooa, (int, float)) or abs(nooa - want_t) > 5:
            viol.append({"key": "C08/session-expiry-differs", "what": desc + ": not_on_or_after %r, policy lifetime gives %r" % (nooa, want_t)})
    if case["binding"] != "soap" and sess.get("came_from") != "/came/from":     # (back-channel responses have no browser state)
        viol.append({"key": "C08/came-from-differs", "what": desc + ": %r" % sess.get("came_from")})
    return {"outcome": "accepted", "nontrivial": True, "violations": viol, "counters": {"flows": 1, "values_compared": sum(len(v) for v in ident.values())},
            "obs": {"ava_keys": sorted(want_ava)}}


def finalize(cases, results, tier, extras):
    inc = []
    if not any(r.get("outcome") == "accepted" for r in results):
        inc.append("no flow was accepted")
    raised = sum(r.get("counters", {}).get("idp_raised", 0) for r in results)
    if results and raised > 0.05 * len(results):
        # (an input the harness hands over in a form the IdP does not take - once an AuthnInstant given as text - silently removes a whole
        #  slice of the workload)
        inc.append("the IdP refused to build %d of %d responses - the workload is not what it is meant to be" % (raised, len(results)))
    return {"inconclusive": inc, "coverage": {"idp_refused_to_build": raised}}
