"""C05 - responses are accepted only if addressed to this SP and solicited.

Full cross product of the quantifier on an IdP-made response whose addressing fields are
rewritten: Response InResponseTo x bearer InResponseTo x Destination x audience layout x
Recipient x allow_unsolicited x conversation info x destination pattern (thorough: also
re-signed for an SP that requires a response signature).
Oracle: acceptance implies every addressing rule of the property; the fully conforming
cells must be accepted.
"""
import itertools

from vlib import env, fed, xmlkit as xk

PROPERTY = "C05"
LEVEL = "exploration"
RULE = ("one execution = one cell of {InResponseTo} x {bearer InResponseTo} x {Destination} x {audience layout} x {Recipient} x allow_unsolicited x "
        "conversation info x destination pattern delivered over HTTP-POST; non-trivial = the response got past parsing to the addressing "
        "checks (accepted or refused); distinct = the cell tuple (+ signed)")
ASSUMPTIONS = ["HTTP-POST stands for 'a browser binding'", "the destination pattern used is ^https://sp\\.example\\.org/ (own host)"]

OWN_ACS = fed.ACS_POST
FOREIGN = "https://other-sp.example.net/acs/post"
PATTERN = r"^https://sp\.example\.org/"
PATTERN_ONLY = "https://sp.example.org/not-an-endpoint"   # matches the pattern but is no registered endpoint

IRT = ("match", "unknown", "absent")
SCD = ("match", "different", "absent", "nodata-then-different", "match-then-different",
       # a confirmation whose data names no request in front of / between others
       "no-irt-then-different", "no-irt-then-match-then-different", "different-then-no-irt")
DEST = ("own", "foreign", "absent", "pattern-only", "own-plus-suffix", "own-prefix", "own-other-case", "own-with-query", "empty", "own-percent-encoded")
AUD = ("none", "one-naming", "one-foreign", "two-both-naming", "two-one-foreign", "two-foreign-first", "empty-restriction", "naming-among-several-audiences",
       # one restriction names the SP, another one lists no usable audience at all / a near miss of the entity identifier
       "two-naming+blank-audience", "two-blank-audience-first", "three-naming+whitespace-audience+naming", "two-naming+restriction-without-audience",
       "two-naming+near-miss-slash", "two-near-miss-case-first")
AUD_EXTRA = AUD[8:]
RECIP = ("own", "foreign", "entityid", "as-destination")      # as-destination: whatever the Destination attribute says (own endpoint when there is none)


def gen_cases(tier, seed):
    cases = []
    for irt, scd, dest, aud, rec, unsol, conv, pat in itertools.product(IRT, SCD, DEST, AUD, RECIP, (0, 1), (0, 1), (0, 1)):
        if tier == "quick":
            # quick: every pair of dimensions still occurs, via a deterministic thinning
            h = hash((irt, scd, dest, aud, rec, unsol, conv, pat, seed)) % 7
            conforming = irt == "match" and scd == "match" and dest in ("own", "absent") and aud in ("none", "one-naming", "two-both-naming") and rec in ("own", "entityid")
            if h and not conforming and not (aud.startswith("two") or aud == "one-foreign"):
                continue
            if aud in AUD_EXTRA and h % 3 and (dest != "own" or rec != "own" or irt != "match"):
                continue
        for signed in ((0, 1) if tier == "thorough" else (0,)):
            cid = "irt:%s-scd:%s-dest:%s-aud:%s-rec:%s-u%d-c%d-p%d-%s" % (irt, scd, dest, aud, rec, unsol, conv, pat, "s" if signed else "p")
            cases.append({"id": cid, "sig": [irt, scd, dest, aud, rec, unsol, conv, pat, signed], "irt": irt, "scd": scd, "dest": dest, "aud": aud,
                          "rec": rec, "unsol": unsol, "conv": conv, "pat": pat, "signed": signed, "arrive": "post", "eps": "both"})
    # what the application stored for the outstanding request (any value, also a falsy one) and assertions that arrive encrypted
    for came, enc, irt, scd, unsol in itertools.product(("", "/came/from", 0), (0, 1), IRT, SCD, (0, 1)):
        cid = "stored:%r-enc%d-irt:%s-scd:%s-u%d" % (came, enc, irt, scd, unsol)
        cases.append({"id": cid, "sig": ["stored", repr(came), enc, irt, scd, unsol], "irt": irt, "scd": scd, "dest": "own", "aud": "one-naming", "rec": "own",
                      "unsol": unsol, "conv": 0, "pat": 0, "signed": 0, "arrive": "post", "eps": "both", "came": came, "enc": enc})
    # the binding the response arrives over and the endpoints the SP has for it
    # (artifact: the message an artifact was resolved to, handed in under the artifact binding - a browser binding for which this SP has no endpoint)
    for arrive, eps in (("redirect", "both"), ("redirect", "post-only"), ("post", "post-only"), ("artifact", "both")):
        for irt, dest, aud, unsol, pat in itertools.product(("match", "unknown"), DEST, ("one-naming", "one-foreign"), (0, 1), (0, 1)):
            cid = "arrive:%s-eps:%s-irt:%s-dest:%s-aud:%s-u%d-p%d" % (arrive, eps, irt, dest, aud, unsol, pat)
            cases.append({"id": cid, "sig": [arrive, eps, irt, dest, aud, unsol, pat], "irt": irt, "scd": "match", "dest": dest, "aud": aud, "rec": "own",
                          "unsol": unsol, "conv": 0, "pat": pat, "signed": 0, "arrive": arrive, "eps": eps})
    # the response arrives in a SOAP envelope at the SP's ECP endpoint (PAOS) and is handled by the helper the package's own SP plugin uses
    for irt, scd, aud, unsol in itertools.product(IRT, ("match", "different", "absent"), ("one-naming", "one-foreign"), (0, 1)):
        cid = "arrive:ecp-irt:%s-scd:%s-aud:%s-u%d" % (irt, scd, aud, unsol)
        cases.append({"id": cid, "sig": ["ecp", irt, scd, aud, unsol], "irt": irt, "scd": scd, "dest": "own", "aud": aud, "rec": "own",
                      "unsol": unsol, "conv": 0, "pat": 0, "signed": 0, "arrive": "ecp", "eps": "both"})
    # an SP with a clock allowance, confirmations whose window closed inside it
    for irt, scd, unsol in itertools.product(("match", "unknown"), SCD, (0, 1)):
        for lapsed in (60, 3):
            cid = "lapsed%d-irt:%s-scd:%s-u%d" % (lapsed, irt, scd, unsol)
            cases.append({"id": cid, "sig": ["lapsed-within-allowance", lapsed, irt, scd, unsol], "irt": irt, "scd": scd, "dest": "own", "aud": "one-naming", "rec": "own",
                          "unsol": unsol, "conv": 0, "pat": 0, "signed": 0, "arrive": "post", "eps": "both", "skew": 180, "lapsed": lapsed})
    # an assertion carried as advice inside the (well addressed) main assertion: what it contributes to the identity is subject to its own
    # audience restrictions and bearer confirmations like that of any other assertion of the response
    # (enc 2: only the advice assertion is encrypted, Advice/EncryptedAssertion as in PEFIM)
    for aud, scd, unsol, signed, enc, nst in itertools.product(AUD, ("match", "different"), (0, 1), (0, 1), (0, 1, 2), (1, 2)):
        if tier == "quick" and aud in AUD_EXTRA and (unsol or enc == 1):
            continue
        if tier == "quick" and nst == 2 and (signed or aud in AUD_EXTRA[2:]):
            continue
        # (nst: the advice assertion says what it says in one AttributeStatement, or spread over two)
        cid = "advice-aud:%s-scd:%s-u%d-%s-%s%s" % (aud, scd, unsol, "s" if signed else "p", ("plain", "enc", "advice-enc")[enc], "-two-statements" if nst == 2 else "")
        cases.append({"id": cid, "sig": ["advice", aud, scd, unsol, signed, enc], "irt": "match", "scd": "match", "dest": "own", "aud": "one-naming", "rec": "own",
                      "unsol": unsol, "conv": 0, "pat": 0, "signed": signed, "arrive": "post", "eps": "both", "enc": enc % 2,
                      "advice": {"aud": aud, "scd": scd, "enc": enc == 2, "statements": nst}})
    return cases


def setup_worker(ctx):
    ctx.fedcache = fed.Cache()


def _pair(ctx, unsol, pat, signed, eps="both", skew=0):
    def build():
        from saml2_tophat import BINDING_HTTP_POST
        extra = {"allow_unsolicited": bool(unsol), "want_response_signed": bool(signed)}
        if skew:
            extra["top"] = {"accepted_time_diff": skew}
        if pat:
            extra["valid_destination_regex"] = PATTERN
        if eps == "post-only":
            extra["endpoints"] = {"assertion_consumer_service": [(fed.ACS_POST, BINDING_HTTP_POST)]}
        spc = fed.sp_conf(**extra)
        idc = fed.idp_conf()
        return fed.make_sp(spc, [fed.metadata_of(idc)]), fed.make_idp(idc, [fed.metadata_of(fed.sp_conf(**dict(extra, endpoints=None)) if eps == "post-only" else spc)])
    return ctx.fedcache.get("pair", [unsol, pat, signed, eps, skew], build)


def _aud_xml(doc, layout):
    p = doc.prefix(doc.find(xk.SAML, "Conditions")[0])

    def ar(*auds):
        return "<%s:AudienceRestriction>%s</%s:AudienceRestriction>" % (p, "".join("<%s:Audience>%s</%s:Audience>" % (p, a, p) for a in auds), p)
    me, other, third = fed.SP_EID, "https://other-sp.example.net/md", "https://third.example.net/md"
    return {"none": "", "one-naming": ar(me), "one-foreign": ar(other), "two-both-naming": ar(me) + ar(me, other),
            "two-one-foreign": ar(me) + ar(other), "two-foreign-first": ar(other) + ar(me), "empty-restriction": ar(),
            "naming-among-several-audiences": ar(other, me, third),
            "two-naming+blank-audience": ar(me) + ar(""), "two-blank-audience-first": ar("") + ar(me),
            "three-naming+whitespace-audience+naming": ar(me) + ar(" \n ") + ar(me), "two-naming+restriction-without-audience": ar(me) + ar(),
            "two-naming+near-miss-slash": ar(me) + ar(me + "/"), "two-near-miss-case-first": ar(me.upper()) + ar(me)}[layout]


def _add_advice(d, adv):
    """copy of the main assertion (other ID, other attribute) with its own audience layout / bearer InResponseTo, put into saml:Advice"""
    main = d.find(xk.SAML, "Assertion")[0]
    p = d.prefix(main)
    inner = xk.Doc(d.standalone(main))
    inner = inner.set_attr(inner.root, "ID", "id-advice-assertion")
    while inner.find(xk.SAML, "AudienceRestriction"):
        inner = inner.remove(inner.find(xk.SAML, "AudienceRestriction")[0])
    axml = _aud_xml(inner, adv["aud"])
    if axml:
        inner = inner.append_child(inner.find(xk.SAML, "Conditions")[0], axml)
    scd = inner.find(xk.SAML, "SubjectConfirmationData")[0]
    inner = inner.set_attr(scd, "InResponseTo", {"match": "id-req-1", "different": "id-other-request"}[adv["scd"]])
    txt = inner.text()
    if txt.startswith("<?xml"):
        txt = txt[txt.index("?>") + 2:]
    assert "Ann" in txt
    txt = txt.replace("Ann", "Mallory").replace("givenName", "sn").replace("2.5.4.42", "2.5.4.4")
    if adv.get("statements", 1) == 2:
        t2 = xk.Doc(txt)
        ast = t2.find(xk.SAML, "AttributeStatement")[0]
        second = t2.outer(ast).decode("utf-8").replace("Mallory", "Dr Mallory").replace('"sn"', '"title"').replace("2.5.4.4", "2.5.4.12")
        txt = t2.insert_after(ast, second).text()
        if txt.startswith("<?xml"):
            txt = txt[txt.index("?>") + 2:]
    cond = d.find(xk.SAML, "Conditions")[0]
    if adv.get("enc"):
        ed = xk.encrypt_fragment(txt, fed.key(2)[1])
        txt = "<%s:EncryptedAssertion>%s</%s:EncryptedAssertion>" % (p, ed.decode("utf-8") if isinstance(ed, bytes) else ed, p)
    return d.insert_after(cond, "<%s:Advice>%s</%s:Advice>" % (p, txt, p))


def time_util_instant(t):
    import time as _time
    return _time.strftime("%Y-%m-%dT%H:%M:%SZ", _time.gmtime(t))


def _deliver(sp, xml, outstanding, binding, **kw):
    import base64
    import zlib
    from saml2_tophat import BINDING_HTTP_POST
    if binding == "ecp":
        from saml2_tophat import ecp as ecp_mod
        body = xml[xml.index("?>") + 2:] if xml.startswith("<?xml") else xml
        envelope = '<ns0:Envelope xmlns:ns0="http://schemas.xmlsoap.org/soap/envelope/"><ns0:Body>%s</ns0:Body></ns0:Envelope>' % body
        try:
            return ecp_mod.handle_ecp_authn_response(sp, envelope, outstanding)[0], None
        except Exception as exc:
            return None, exc
    data = xml.encode("utf-8")
    from saml2_tophat import BINDING_HTTP_ARTIFACT as _ART
    enc = base64.b64encode(data).decode() if binding in (BINDING_HTTP_POST, _ART) else base64.b64encode(zlib.compress(data)[2:-4]).decode()
    try:
        return sp.parse_authn_request_response(enc, binding, outstanding, **kw), None
    except Exception as exc:
        return None, exc


def run_case(case, ctx):
    from saml2_tophat import BINDING_HTTP_POST, BINDING_HTTP_REDIRECT
    arrive, eps = case.get("arrive", "post"), case.get("eps", "both")
    sp, idp = _pair(ctx, case["unsol"], case["pat"], case["signed"], eps, case.get("skew", 0))
    from saml2_tophat import BINDING_HTTP_ARTIFACT
    binding = {"post": BINDING_HTTP_POST, "redirect": BINDING_HTTP_REDIRECT, "artifact": BINDING_HTTP_ARTIFACT, "ecp": "ecp"}[arrive]
    own_for_binding = ([fed.ACS_POST] if arrive in ("post", "ecp") else ([fed.ACS_REDIRECT] if (eps == "both" and arrive == "redirect") else []))
    own_acs = own_for_binding[0] if own_for_binding else fed.ACS_POST      # what an honest IdP would have addressed
    xml = fed.issue(idp, {"givenName": ["Ann"]}, in_response_to="id-req-1", destination=own_acs, sign_response=False)
    d = xk.Doc(xml)
    d = d.set_attr(d.root, "InResponseTo", {"match": "id-req-1", "unknown": "id-never-sent", "absent": None}[case["irt"]])
    d = d.set_attr(d.root, "Destination", {"own": own_acs, "foreign": FOREIGN, "absent": None, "pattern-only": PATTERN_ONLY,
                                           "own-plus-suffix": own_acs + "/x", "own-prefix": own_acs[:-5], "own-other-case": own_acs.replace("/acs/", "/ACS/"),
                                           "own-with-query": own_acs + "?x=1", "empty": "",
                                           "own-percent-encoded": own_acs[:own_acs.rfind("/")] + "%2F" + own_acs[own_acs.rfind("/") + 1:]}[case["dest"]])
    scd = d.find(xk.SAML, "SubjectConfirmationData")[0]
    d = d.set_attr(scd, "InResponseTo", {"match": "id-req-1", "different": "id-other-request", "absent": None,
                                         "nodata-then-different": "id-other-request", "match-then-different": "id-req-1",
                                         "no-irt-then-different": "id-other-request", "no-irt-then-match-then-different": "id-other-request",
                                         "different-then-no-irt": "id-other-request"}[case["scd"]])
    scd = d.find(xk.SAML, "SubjectConfirmationData")[0]
    dest_value = d.root.attrs.get("Destination")
    d = d.set_attr(scd, "Recipient", {"own": own_acs, "foreign": FOREIGN, "entityid": fed.SP_EID, "as-destination": dest_value or own_acs}[case["rec"]])
    if case["scd"] == "nodata-then-different":
        # a first bearer confirmation without any data in front of the one that names another request
        sc = d.find(xk.SAML, "SubjectConfirmation")[0]
        p0 = d.prefix(sc)
        d = d.insert_before(sc, '<%s:SubjectConfirmation Method="urn:oasis:names:tc:SAML:2.0:cm:bearer"/>' % p0)
    elif case["scd"] in ("no-irt-then-different", "no-irt-then-match-then-different", "different-then-no-irt"):
        sc = d.find(xk.SAML, "SubjectConfirmation")[0]
        this = d.outer(sc).decode("utf-8")
        noirt = this.replace(' InResponseTo="id-other-request"', "")
        assert noirt != this
        match = this.replace('InResponseTo="id-other-request"', 'InResponseTo="id-req-1"')
        if case["scd"] == "no-irt-then-different":
            d = d.insert_before(sc, noirt)
        elif case["scd"] == "no-irt-then-match-then-different":
            d = d.insert_before(sc, noirt + match)
        else:
            d = d.insert_after(sc, noirt)
    elif case["scd"] == "match-then-different":
        sc = d.find(xk.SAML, "SubjectConfirmation")[0]
        d = d.insert_after(sc, d.outer(sc).decode("utf-8").replace('InResponseTo="id-req-1"', 'InResponseTo="id-other-request"'))
    if case.get("lapsed"):
        # the clock allowance at work: every bearer confirmation's window closed a minute ago, inside the SP's allowance - they are still
        # usable, so what they say about the request still counts
        import time as _time
        for i in range(len(d.find(xk.SAML, "SubjectConfirmationData"))):
            d = d.set_attr(d.find(xk.SAML, "SubjectConfirmationData")[i], "NotOnOrAfter", time_util_instant(_time.time() - case["lapsed"]))
    while d.find(xk.SAML, "AudienceRestriction"):
        d = d.remove(d.find(xk.SAML, "AudienceRestriction")[0])
    cond = d.find(xk.SAML, "Conditions")[0]
    axml = _aud_xml(d, case["aud"])
    if axml:
        d = d.append_child(cond, axml)
    if case.get("advice"):
        d = _add_advice(d, case["advice"])
    doc = d.text()
    if case.get("enc"):
        doc = xk.encrypt_assertions(doc, fed.key(2)[1])
    if case["signed"]:
        doc = xk.sign_element(doc, xk.SAMLP, "Response", d.root.attrs["ID"], fed.key(0)[0], "rsa-sha256", fed.cert_body(0))
    outstanding = {"id-req-1": case.get("came", "/came/from")}
    kw = {}
    if case["conv"]:
        kw["conv_info"] = {"entity_id": fed.SP_EID, "remote_addr": "0.0.0.0"}
    resp, exc = _deliver(sp, doc, outstanding, binding, **kw)
    accepted = resp is not None
    outcome = "accept" if accepted else "reject:" + (type(exc).__name__ if exc is not None else "None")

    # ------------------------------------------------------------- reference
    solicited = case["irt"] == "match" and case["scd"] in ("match", "absent")
    r_solicit = bool(case["unsol"]) or solicited
    if case["dest"] in ("absent",):
        r_dest = True
    elif case["pat"]:
        r_dest = case["dest"] not in ("foreign", "empty")            # everything else starts with https://sp.example.org/
    else:
        r_dest = case["dest"] == "own" and bool(own_for_binding)
    r_aud = case["aud"] in ("none", "one-naming", "two-both-naming", "naming-among-several-audiences")
    rec_is_own = case["rec"] in ("own", "entityid") or (case["rec"] == "as-destination" and (case["dest"] == "absent" or (case["dest"] == "own" and bool(own_for_binding))))
    r_rec = (not case["conv"]) or rec_is_own
    allowed = r_solicit and r_dest and r_aud and r_rec
    conforming = case["irt"] == "match" and case["scd"] == "match" and (case["dest"] == "absent" or (case["dest"] == "own" and own_for_binding)) \
        and r_aud and rec_is_own and (bool(own_for_binding) or arrive == "post")
    viol = []
    desc = "arrives-over=%s sp-endpoints=%s stored-for-request=%r encrypted=%s " % (arrive, eps, case.get("came", "/came/from"), bool(case.get("enc"))) + "InResponseTo=%s bearer-InResponseTo=%s Destination=%s audience=%s Recipient=%s allow_unsolicited=%s conv_info=%s pattern=%s: %s" % (
        case["irt"], case["scd"], case["dest"], case["aud"], case["rec"], bool(case["unsol"]), bool(case["conv"]), bool(case["pat"]), outcome)
    if accepted and not allowed:
        if not r_aud:
            key = "C05/audience-restriction-not-naming-sp-accepted"
            if case["unsol"] and case["aud"] in ("one-foreign", "empty-restriction"):
                key = "C05/audience-unchecked-when-unsolicited-allowed"
            elif case["aud"] in ("two-one-foreign", "two-foreign-first") + AUD_EXTRA:
                key = "C05/one-of-several-audience-restrictions-suffices" if not case["unsol"] else "C05/audience-unchecked-when-unsolicited-allowed"
        elif not r_solicit:
            key = "C05/unsolicited-response-accepted"
        elif not r_dest:
            key = "C05/foreign-destination-accepted"
            if not own_for_binding:
                key = "C05/destination-unchecked-when-no-endpoint-for-arriving-binding"
        else:
            key = "C05/foreign-recipient-accepted"
        viol.append({"key": key, "what": desc, "detail": {"document": doc[:5000]}})
    if case.get("advice") and accepted:
        adv = case["advice"]
        a_aud = adv["aud"] in ("none", "one-naming", "two-both-naming", "naming-among-several-audiences")
        a_sol = bool(case["unsol"]) or adv["scd"] == "match"
        merged = "Mallory" in repr(getattr(resp, "ava", None))
        if merged and not a_aud:
            viol.append({"key": "C05/advice-assertion-audience-not-checked", "what": desc + " - the advice assertion (audience=%s) contributed %r" % (
                adv["aud"], resp.ava), "detail": {"document": doc[:6000]}})
        elif merged and not a_sol:
            viol.append({"key": "C05/advice-assertion-confirmation-names-another-request", "what": desc + " - the advice assertion (bearer InResponseTo=%s) contributed %r" % (
                adv["scd"], resp.ava), "detail": {"document": doc[:6000]}})
    if not accepted and conforming and not case.get("advice"):
        viol.append({"key": "C05/conforming-response-rejected", "what": desc + " (%r)" % (exc,), "detail": {"document": doc[:5000]}})
    if accepted and case["irt"] == "match" and getattr(resp, "came_from", None) != case.get("came", "/came/from"):
        viol.append({"key": "C05/came_from-not-that-of-the-outstanding-request", "what": desc + " came_from=%r" % getattr(resp, "came_from", None)})
    return {"outcome": outcome, "nontrivial": True, "violations": viol,
            "counters": {"accepted": int(accepted), "conforming": int(bool(conforming)), "allowed_by_reference": int(allowed)},
            "obs": {"allowed": allowed, "conforming": conforming}}


def finalize(cases, results, tier, extras):
    inc = []
    if not any(r.get("outcome") == "accept" for r in results):
        inc.append("no cell was accepted")
    full = len(IRT) * len(SCD) * len(DEST) * len(AUD) * len(RECIP) * 8
    return {"inconclusive": inc, "coverage": {"exhaustive": tier == "thorough", "product_cells": full}}
