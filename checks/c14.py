"""C14 - binding encoders and decoders are exact inverses and inject nothing.

Messages produced by the library (requests and responses of several types, signed and
unsigned, hostile identities) and arbitrary payloads are packaged with
Entity.apply_binding for HTTP-POST, HTTP-Redirect, SOAP, PAOS and artifact with hostile
RelayStates and destinations with/without a query; independent readers (html.parser,
urllib.parse, a stdlib SOAP reader) must recover exactly the expected fields, and
Entity.unravel must return the original.
"""
import base64
import html.parser
import random
import re
import urllib.parse as up
import xml.etree.ElementTree as ET

from vlib import env, fed, gen, xmlkit as xk

PROPERTY = "C14"
LEVEL = "exploration"
RULE = ("one execution = one (binding, message, RelayState, destination) packaged by Entity.apply_binding, read back by an independent "
        "reader and by Entity.unravel; non-trivial = both the independent reader and the library decoder ran on the packaged output; "
        "distinct = (binding, message kind, RelayState class, destination kind)")
ASSUMPTIONS = ["html.parser.HTMLParser stands for 'a standards-conforming HTML parser' (no newline normalisation of attribute values)",
               "what a redirect signature binds is C15; here only which parameters a signed URL carries"]

from saml2_tophat import BINDING_HTTP_POST, BINDING_HTTP_REDIRECT, BINDING_SOAP, BINDING_PAOS, BINDING_HTTP_ARTIFACT  # noqa: E402

SOAPENV = "http://schemas.xmlsoap.org/soap/envelope/"

RELAY_CLASSES = {
    "empty": [""],
    "plain": ["/app/after-login", "abc123"],
    "quotes": ['"', "'", '" onmouseover="x', "'/><script>alert(1)</script>", 'a"b\'c'],
    "angle": ["<", ">", "</form><form action=\"https://evil.example.org\">", "<input name=\"SAMLResponse\" value=\"x\"/>", "]]>"],
    "amp": ["&", "&amp;", "&quot;", "&#x22;", "&lt;script&gt;", "a&b=c", "&Signature=AAAA&SigAlg=x", "&SAMLResponse=evil", "&RelayState=other",
            "?x=1&y=2", "%26SAMLRequest%3Dx", "a=b;c=d", "#frag", "+plus+", "%", "%zz", "%00"],
    "newline": ["line1\nline2", "tab\there", "cr\rlf", "\n", "a\r\nSet-Cookie: x=1"],
    # text that means something to a templating step (the form is made from a template with named slots)
    "template": ["{action}", "{saml_response_input}", "{relay_state_input}", "{name}", "{val}", "{type}", "{0}", "{}", "{{action}}", "%s", "%(action)s", "${action}",
                 "x{action}y{val}", "\\g<0>"],
    # text that looks like the namespace declarations a serialiser writes (an envelope assembled by cutting text would cut here too)
    "xmlns-lookalike": ['x xmlns:ns3="http://example.org/" y', 'xmlns:ns0="http://schemas.xmlsoap.org/soap/envelope/"', 'xmlns:ns2="http://example.org/"',
                        'a xmlns:ns1="http://example.org/" b', 'xmlns:ns1="http://example.org/"', 'http://example.org/', 'xmlns:ns4="http://example.org/" ',
                        ' xmlns:ns3="http://example.org/"'],
    "unicode": ["Müller", "日本語テキスト", "😀 emoji", " nbsp", "‮rtl", "ﬁ ligature", "é"],
}

DESTS = {"noquery": "https://sp.example.org/acs/post", "query": "https://sp.example.org/acs?tenant=t1&lang=en",
         "query-special": "https://sp.example.org/acs?next=%2Fhome%3Fa%3D1&x=y+z",
         # a destination that brings many parameters of its own
         "query-many": "https://sp.example.org/acs?tenant=t1&lang=en&theme=dark&region=eu&flow=login&v=2&debug=0",
         # the edges of "with and without an existing query string": an empty query, a query ending in a separator, a fragment
         "query-empty": "https://sp.example.org/acs?", "query-trailing-amp": "https://sp.example.org/acs?tenant=t1&",
         "fragment": "https://sp.example.org/acs#top", "query+fragment": "https://sp.example.org/acs?tenant=t1#top",
         # characters that mean something to HTML in the destination (only the form carries the destination as text)
         "html-special": "https://sp.example.org/acs?a=\"x\"&b=<y>'z'&amp;c"}
DEST_EDGES = ("query-empty", "query-trailing-amp", "fragment", "query+fragment", "html-special")


class FormReader(html.parser.HTMLParser):
    def __init__(self):
        html.parser.HTMLParser.__init__(self, convert_charrefs=True)
        self.forms = []
        self.inputs = []
        self.other = []

    def handle_starttag(self, tag, attrs):
        d = dict(attrs)
        if tag == "form":
            self.forms.append(d)
        elif tag == "input":
            self.inputs.append((d, attrs))
        elif tag in ("script", "iframe", "img", "a", "link", "object", "embed"):
            self.other.append(tag)

    handle_startendtag = handle_starttag


def canon(elem):
    def c(e):
        return (e.tag, tuple(sorted(e.attrib.items())), (e.text or ""), tuple((c(x), x.tail or "") for x in e))
    return c(elem)


INSTANCE_VARIANTS = ["as-is", "empty-attribute", "blank-attribute", "empty-attribute-on-child", "attribute-zero"]


def run_instance(case, ctx):
    """element-identical round trip of a message object through the SOAP envelope builder and through the extension-element carrier"""
    import saml2_tophat
    from saml2_tophat import samlp, saml, soap
    kind, msg, is_resp, soaptype = ctx.msgs[case["msg"]]
    d = xk.Doc(msg)
    v = case["variant"]
    if v == "empty-attribute":
        d = d.set_attr(d.root, "Consent", "")
    elif v == "blank-attribute":
        d = d.set_attr(d.root, "Consent", " ")
    elif v == "attribute-zero":
        d = d.set_attr(d.root, "Consent", "0")
    elif v == "empty-attribute-on-child":
        kids = [c for c in d.root.children if c.ns == xk.SAML and c.local in ("Issuer", "Assertion", "NameID")]
        if kids:
            d = d.set_attr(kids[0], "Format" if kids[0].local != "Assertion" else "verifEmpty", "")
    text = d.text()
    cls = {"AuthnRequest": samlp.AuthnRequest, "LogoutRequest": samlp.LogoutRequest, "AttributeQuery": samlp.AttributeQuery, "Response": samlp.Response}[d.root.local]
    inst = saml2_tophat.create_class_from_xml_string(cls, text)
    viol, counters = [], {"independent_reads": 0, "library_decodes": 0}
    if inst is None:
        return {"outcome": "not-parsed", "nontrivial": False, "violations": [], "counters": counters}
    want = canon(ET.fromstring(inst.to_string()))
    if canon(ET.fromstring(text.encode("utf-8"))) != want and v != "empty-attribute-on-child":
        counters["instance_differs_from_text"] = 1      # (C12's business; here the instance is the original)

    def bad(key, what):
        viol.append({"key": "C14/" + key, "what": "message object %s (%s): %s" % (kind, v, what)})
    # (1) SOAP envelope around the instance, as the PAOS/ECP code builds it (soap.py) and as the binding encoders do (pack.py, instance path)
    from saml2_tophat import pack as _pack
    for bname, builder in (("soap", soap.make_soap_enveloped_saml_thingy), ("pack", _pack.make_soap_enveloped_saml_thingy)):
        try:
            env_text = builder(inst)
            envl = ET.fromstring(env_text if isinstance(env_text, bytes) else env_text.encode("utf-8"))
            counters["independent_reads"] += 1
            body = [c for c in envl if c.tag == "{%s}Body" % SOAPENV]
            if len(body) != 1 or len(body[0]) != 1:
                bad("soap-envelope-structure", "%s builder: %d bodies" % (bname, len(body)))
            elif canon(body[0][0]) != want:
                bad("instance-envelope-not-element-identical", "%s builder: independent read of the envelope body differs from the message: %s" % (
                    bname, _first_diff(want, canon(body[0][0]))))
            back = soap.parse_soap_enveloped_saml_thingy(env_text, ["{%s}%s" % (cls.c_namespace, cls.c_tag)])
            counters["library_decodes"] += 1
            if back is None or canon(ET.fromstring(back if isinstance(back, bytes) else back.encode("utf-8"))) != want:
                bad("instance-envelope-roundtrip", "%s builder: library decoder returned something else than the message" % bname)
        except Exception as exc:
            bad("packaging-raised:instance-envelope", bname + " builder: " + repr(exc)[:200])
    # (2) the message as extension element (ArtifactResponse carries it so) and back
    try:
        ee = saml2_tophat.element_to_extension_element(inst)
        back = saml2_tophat.extension_elements_to_elements([ee], [samlp, saml])
        counters["library_decodes"] += 1
        if len(back) != 1 or canon(ET.fromstring(back[0].to_string())) != want:
            got = ET.fromstring(back[0].to_string()) if back else None
            bad("extension-element-carrier-not-element-identical", "attributes after the round trip %r, before %r" % (
                sorted(got.attrib.items())[:6] if got is not None else None, sorted(ET.fromstring(inst.to_string()).attrib.items())[:6]))
    except Exception as exc:
        bad("packaging-raised:extension-element-carrier", repr(exc)[:200])
    return {"outcome": "violations" if viol else "held", "nontrivial": True, "violations": viol, "counters": counters}


_DECL = '<?xml version="1.0" encoding="UTF-8"?>'
_REQ = ('<samlp:AuthnRequest xmlns:samlp="urn:oasis:names:tc:SAML:2.0:protocol" xmlns:saml="urn:oasis:names:tc:SAML:2.0:assertion" ID="id-hand" Version="2.0" '
        'IssueInstant="2020-01-01T00:00:00Z" Destination="https://idp.example.org/sso/redirect"><saml:Issuer>https://sp.example.org/md</saml:Issuer>'
        '<samlp:Extensions>%s</samlp:Extensions></samlp:AuthnRequest>')
HANDWRITTEN = [
    ("plain", _DECL + "\n" + _REQ % '<x:doc xmlns:x="urn:x">text</x:doc>'),
    ("no-declaration", _REQ % '<x:doc xmlns:x="urn:x">text</x:doc>'),
    ("single-quoted-declaration", "<?xml version='1.0' encoding='UTF-8'?>\n" + _REQ % '<x:doc xmlns:x="urn:x">text</x:doc>'),
    ("declaration-standalone", '<?xml version="1.0" encoding="UTF-8" standalone="yes"?>' + _REQ % '<x:doc xmlns:x="urn:x">text</x:doc>'),
    ("cdata-holding-a-document", _DECL + _REQ % ('<x:doc xmlns:x="urn:x"><![CDATA[' + _DECL + '<a>1 < 2</a>]]></x:doc>')),
    ("cdata-no-outer-declaration", _REQ % ('<x:doc xmlns:x="urn:x"><![CDATA[' + _DECL + '<a/>]]></x:doc>')),
    ("escaped-declaration-in-text", _REQ % ('<x:doc xmlns:x="urn:x">' + _DECL.replace("<", "&lt;") + '</x:doc>')),
    ("envelope-prefixes-reused", _DECL + (_REQ % '<ns0:doc xmlns:ns0="urn:x" xmlns:ns1="urn:y" ns1:a="b">t</ns0:doc>').replace("samlp:", "ns0:").replace(
        "xmlns:samlp", "xmlns:ns0")),
    ("default-namespace", _DECL + '<AuthnRequest xmlns="urn:oasis:names:tc:SAML:2.0:protocol" ID="id-hand" Version="2.0" IssueInstant="2020-01-01T00:00:00Z">'
     '<Issuer xmlns="urn:oasis:names:tc:SAML:2.0:assertion">https://sp.example.org/md</Issuer><Extensions><doc xmlns="urn:x">a<b/>c</doc></Extensions></AuthnRequest>'),
    ("dummy-namespace-inside", _REQ % '<x:doc xmlns:x="http://example.org/" x:FuddleMuddle="1"><x:FuddleMuddle/></x:doc>'),
    ("character-references", _REQ % '<x:doc xmlns:x="urn:x" a="&#10;&#9;&quot;&amp;amp;">&#13;&#10;&lt;&amp;&#x20AC;</x:doc>'),
    ("whitespace-text", _REQ % '<x:doc xmlns:x="urn:x">  \n\t <x:i> </x:i>\r\n</x:doc>'),
]
ARS_INDEXES = list(range(0, 36)) + [99, 100, 127, 128, 160, 171, 255]


def run_artifact_index(case, ctx):
    """create_artifact(entity, handle, i) followed by artifact2destination: the location registered under index i, for every index the
    two-digit field can hold a sample of"""
    from saml2_tophat.entity import create_artifact
    from saml2_tophat import BINDING_SOAP as SOAPB
    ars = [("https://idp.example.org/ars/%d" % i, SOAPB, i) for i in ARS_INDEXES]
    idc = fed.idp_conf()
    idc["service"]["idp"]["endpoints"]["artifact_resolution_service"] = ars
    sp = fed.make_sp(fed.sp_conf(), [fed.metadata_of(idc)])
    viol, counters = [], {"independent_reads": 0, "library_decodes": 0}
    declared = {}
    md = ET.fromstring(fed.metadata_of(idc).encode("utf-8"))
    for e in md.iter("{urn:oasis:names:tc:SAML:2.0:metadata}ArtifactResolutionService"):
        declared[int(e.get("index"))] = e.get("Location")
        counters["independent_reads"] += 1
    for i in ARS_INDEXES:
        art = create_artifact(fed.IDP_EID, ("handle%016d" % i).encode()[:20], i)
        raw = base64.b64decode(art)
        if len(raw) != 44:
            viol.append({"key": "C14/artifact-layout", "what": "artifact for endpoint index %d is %d bytes long, not 44" % (i, len(raw))})
            continue
        try:
            got = sp.artifact2destination(art, "idpsso")
        except Exception as exc:
            got = "raised %s" % type(exc).__name__
        counters["library_decodes"] += 1
        if got != declared.get(i):
            viol.append({"key": "C14/artifact-endpoint-index-not-read-back", "what": "artifact created for endpoint index %d resolves to %r, the metadata has %r under that index" % (
                i, got, declared.get(i))})
    return {"outcome": "violations" if viol else "roundtrip-ok", "nontrivial": True, "violations": viol[:4], "counters": counters, "obs": {"kind": "artifact-index"}}


def run_paos_relay(case, ctx):
    from saml2_tophat import pack, samlp
    from saml2_tophat.profile import ecp
    kind, msg, is_resp, soaptype = ctx.msgs[case["msg"]]
    relay = case["relay"]
    viol, counters = [], {"independent_reads": 0, "library_decodes": 0}
    hdr = ecp.RelayState(text=relay, must_understand="1", actor="http://schemas.xmlsoap.org/soap/actor/next")
    try:
        env_text = pack.make_soap_enveloped_saml_thingy(msg, [hdr])
    except Exception as exc:
        return {"outcome": "packaging-raised", "nontrivial": True, "counters": counters,
                "violations": [{"key": "C14/packaging-raised:paos-relay", "what": "RelayState %r as ecp:RelayState header: %r" % (relay, exc)}]}
    data = env_text if isinstance(env_text, bytes) else env_text.encode("utf-8")
    try:
        envl = ET.fromstring(data)
        counters["independent_reads"] = 1
        rs = envl.findall("{%s}Header/{%s}RelayState" % (SOAPENV, ecp.NAMESPACE))
        body = [c for c in envl if c.tag == "{%s}Body" % SOAPENV]
        if len(rs) != 1 or (rs[0].text or "") != relay:
            viol.append({"key": "C14/paos-relaystate-altered", "what": "RelayState %r comes out of the envelope as %r" % (relay, [r.text for r in rs])})
        if len(body) != 1 or len(body[0]) != 1 or canon(body[0][0]) != canon(ET.fromstring(msg.encode("utf-8"))):
            viol.append({"key": "C14/soap-message-not-element-identical", "what": "message beside an ecp:RelayState header %r differs after packaging" % (relay,)})
    except ET.ParseError as exc:
        viol.append({"key": "C14/soap-envelope-not-wellformed", "what": "RelayState %r as ecp:RelayState header: %r" % (relay, exc)})
    try:
        cls = samlp.Response if is_resp else {"authn_request": samlp.AuthnRequest, "logout_request": samlp.LogoutRequest, "attribute_query": samlp.AttributeQuery}[soaptype]
        b, h = pack.parse_soap_enveloped_saml(data, cls, [ecp.RelayState])
        counters["library_decodes"] = 1
        got = [v.text for v in h.values()]
        if got != [relay]:
            viol.append({"key": "C14/paos-relaystate-altered", "what": "RelayState %r read back by the library as %r" % (relay, got)})
    except Exception as exc:
        viol.append({"key": "C14/soap-own-output-not-decodable", "what": "RelayState %r: %r" % (relay, exc)})
    return {"outcome": "violations" if viol else "roundtrip-ok", "nontrivial": True, "violations": viol[:4], "counters": counters, "obs": {"kind": "paos-relay"}}


def setup_worker(ctx):
    sp, idp = fed.pair()
    ctx.sp, ctx.idp = sp, idp
    rng = random.Random(ctx.seed)
    msgs = []
    rid, req = sp.create_authn_request(fed.SSO_REDIRECT)
    msgs.append(("authn_request", "%s" % req, False, "authn_request"))
    rid, req = sp.create_authn_request(fed.SSO_REDIRECT, sign=True)
    msgs.append(("authn_request-signed", "%s" % req, False, "authn_request"))
    from saml2_tophat.saml import NameID, NAMEID_FORMAT_TRANSIENT
    nid = NameID(format=NAMEID_FORMAT_TRANSIENT, text="DOMAIN\\user <&> \"1\"\nline \\g<1> cr\rlf\r\nend")
    rid, req = sp.create_logout_request(fed.SLO_IDP, fed.IDP_EID, name_id=nid, reason="bye & <thanks>")
    msgs.append(("logout_request", "%s" % req, False, "logout_request"))
    rid, req = sp.create_attribute_query(fed.SSO_REDIRECT, nid, attribute={"givenName": None})
    msgs.append(("attribute_query", "%s" % req, False, "attribute_query"))
    for k, hostile in enumerate((False, True, True)):
        ident = gen.identity(rng, hostile=hostile)
        if hostile:
            ident["displayName"] = ["multi\nline\nvalue", "tab\tsep", "  padded  ", "CORP\\tom", "CORP\\nancy", "\\\\server\\share", "ref \\1 and \\g<0>", "end\\"]
        for sr, sa in ((False, False), (True, False), (False, True)):
            xml = fed.issue(idp, ident, sign_response=sr, sign_assertion=sa)
            msgs.append(("response-%s%s%s" % ("hostile" if hostile else "plain", "-R" if sr else "", "-A" if sa else ""), xml, True, "response"))
    ctx.msgs = msgs
    from saml2_tophat.entity import create_artifact
    ctx.artifacts = [create_artifact(fed.IDP_EID, ("handle%016d" % i).encode()[:20]) for i in range(3)]


def gen_cases(tier, seed):
    rng = random.Random(seed)
    cases = []
    n_extra = 2 if tier == "quick" else 30
    for binding in ("post", "redirect", "redirect-signed", "soap", "paos", "artifact"):
        for mk in range(13):   # index into ctx.msgs (4 requests + 9 responses)
            for rclass, vals in sorted(RELAY_CLASSES.items()):
                if binding in ("soap", "paos") and rclass != "empty":
                    continue
                if binding == "artifact" and mk > 2:
                    continue
                picks = list(vals)
                if rclass not in ("empty", "plain"):
                    for _ in range(n_extra):
                        picks.append("".join(rng.choice(vals + [gen.word(rng, 1, 4)]) for _ in range(rng.randint(2, 5))))
                if tier == "quick" and not (rclass == "template" and binding == "post"):
                    picks = rng.sample(picks, min(3, len(picks)))
                for ri, relay in enumerate(picks):
                    for dk in sorted(DESTS):
                        if tier == "quick" and dk == "query-special" and ri:
                            continue
                        if dk in DEST_EDGES and (ri or binding in ("soap", "paos") or (tier == "quick" and mk not in (0, 5))):
                            continue
                        if dk == "html-special" and binding != "post":
                            continue
                        cases.append({"id": "%s-m%d-%s%d-%s" % (binding, mk, rclass, ri, dk), "sig": [binding, mk, rclass, dk],
                                      "binding": binding, "msg": mk, "relay": relay, "rclass": rclass, "dest": dk})
    # packaging of message OBJECTS (what the PAOS/ECP and artifact-resolution encoders do: envelope built around an instance, message carried
    # as an extension element of an ArtifactResponse) - with attributes that are present but empty, padded, or in another lexical form
    for mk in range(13):
        for variant in INSTANCE_VARIANTS:
            cases.append({"id": "instance-m%d-%s" % (mk, variant), "sig": ["instance", mk, variant], "binding": "instance", "msg": mk, "variant": variant,
                          "relay": "", "rclass": "empty", "dest": "noquery"})
    # arbitrary payloads through the byte-exact bindings
    for k in range(40 if tier == "quick" else 600):
        r2 = random.Random("%s/payload/%d" % (seed, k))
        payload = "".join(r2.choice([gen.value(r2), "\n", "\r\n", "\x00", "\x7f", "€", "<?xml?>", " "]) for _ in range(r2.randint(1, 12)))
        for binding in ("post", "redirect"):
            cases.append({"id": "%s-payload-%d" % (binding, k), "sig": [binding, "payload", k % 7, "noquery"], "binding": binding, "msg": None,
                          "payload": payload, "relay": r2.choice(RELAY_CLASSES["amp"] + RELAY_CLASSES["quotes"]), "rclass": "mixed", "dest": "noquery"})
    # hand-written message texts through the envelope bindings: what a serialiser other than the library's own may put into a message
    for hk in range(len(HANDWRITTEN)):
        for binding in ("soap", "paos"):
            cases.append({"id": "%s-handwritten-%s" % (binding, HANDWRITTEN[hk][0]), "sig": [binding, "handwritten", HANDWRITTEN[hk][0]], "binding": binding, "msg": None,
                          "hand": hk, "relay": "", "rclass": "empty", "dest": "noquery"})
    # the same payloads handed over as bytes (a serialised message is bytes as often as str)
    for k in range(12 if tier == "quick" else 200):
        r2 = random.Random("%s/bytes-payload/%d" % (seed, k))
        payload = "".join(r2.choice([gen.value(r2), "\n", "€", "<a b='c'/>", " "]) for _ in range(r2.randint(1, 12)))
        for binding in ("post", "redirect"):
            cases.append({"id": "%s-bytes-payload-%d" % (binding, k), "sig": [binding, "bytes-payload", k % 5, "noquery"], "binding": binding, "msg": None,
                          "payload": payload, "as_bytes": True, "relay": "rs", "rclass": "plain", "dest": "noquery"})
    for mk in (0, 2, 5):
        for binding in ("post", "redirect", "redirect-signed"):
            cases.append({"id": "%s-bytes-m%d" % (binding, mk), "sig": [binding, "bytes-message", mk, "noquery"], "binding": binding, "msg": mk,
                          "as_bytes": True, "relay": "rs", "rclass": "plain", "dest": "noquery"})
    # payloads that look like the output of another layer of the bindings themselves (raw DEFLATE of a message, its base64, both, gzip, percent
    # encoding): carried as the octets they are, never "helpfully" decoded once more
    import base64 as _b64
    import gzip as _gzip
    import zlib as _zlib
    for di, doc in enumerate((_REQ % '<x:doc xmlns:x="urn:x">text</x:doc>', "  <a>text</a>", "<?xml version='1.0'?><r/>")):
        raw = doc.encode("utf-8")
        layers = {"deflate": _zlib.compress(raw)[2:-4], "zlib": _zlib.compress(raw), "gzip": _gzip.compress(raw, mtime=0), "base64": _b64.b64encode(raw),
                  "base64-of-deflate": _b64.b64encode(_zlib.compress(raw)[2:-4]), "percent-encoded": up.quote(doc).encode("ascii"),
                  "deflate-of-deflate": _zlib.compress(_zlib.compress(raw)[2:-4])[2:-4]}
        for lname, octets in sorted(layers.items()):
            for binding in ("post", "redirect"):
                cases.append({"id": "%s-layered-payload-%s-%d" % (binding, lname, di), "sig": [binding, "layered-payload", lname, di], "binding": binding, "msg": None,
                              "payload_hex": octets.hex(), "relay": "rs", "rclass": "plain", "dest": "noquery"})
    # PAOS carries the RelayState as a SOAP header block (ecp:RelayState) next to the message in the body: what goes in comes out
    XML_ILLEGAL = re.compile(u"[\x00-\x08\x0b\x0c\x0e-\x1f\ufffe\uffff]")
    for rclass, vals in sorted(RELAY_CLASSES.items()):
        for ri, relay in enumerate(vals):
            if not relay or XML_ILLEGAL.search(relay):
                continue        # (no XML 1.0 document can carry these characters at all)
            if tier == "quick" and ri % 2:
                continue
            for mk in (0, 5):
                cases.append({"id": "paos-relay-m%d-%s%d" % (mk, rclass, ri), "sig": ["paos-relay", mk, rclass], "binding": "paos-relay", "msg": mk, "relay": relay,
                              "rclass": rclass, "dest": "noquery"})
    # artifacts: the endpoint index written into an artifact is the one read back from it
    cases.append({"id": "artifact-endpoint-index", "sig": ["artifact-endpoint-index"], "binding": "artifact-index", "msg": None, "relay": "", "rclass": "empty",
                  "dest": "noquery"})
    # size: payloads around every power of two from 1 KiB to 1 MiB (buffers, limits and chunking live there), compressible and not
    exps = (10, 12, 13, 14, 15, 16, 17, 20) if tier == "quick" else range(8, 23)
    for e in exps:
        for delta in (-1, 0, 1):
            n = (1 << e) + delta
            for fill in ("repeat", "random", "xmlish"):
                if tier == "quick" and fill == "xmlish" and delta:
                    continue
                for binding in ("post", "redirect"):
                    cases.append({"id": "%s-size-%d-%s" % (binding, n, fill), "sig": [binding, "size", e, delta, fill], "binding": binding, "msg": None,
                                  "payload_size": n, "fill": fill, "relay": "rs", "rclass": "plain", "dest": "noquery"})
    return cases


def sized_payload(n, fill, seed):
    if fill == "repeat":
        return ("A" * n)
    r = random.Random("%s/%d/%s" % (seed, n, fill))
    if fill == "random":
        alphabet = "abcdefghijklmnopqrstuvwxyzABCDEFGHIJKLMNOPQRSTUVWXYZ0123456789+/=<>&\"' "
        return "".join(r.choice(alphabet) for _ in range(n))
    head, tail = '<samlp:Response xmlns:samlp="urn:oasis:names:tc:SAML:2.0:protocol" ID="big"><v>', "</v></samlp:Response>"
    body = n - len(head) - len(tail)
    return head + "".join(r.choice("0123456789abcdef") for _ in range(max(0, body))) + tail


def run_case(case, ctx):
    try:
        return _run_case(case, ctx)
    except Exception as exc:
        import traceback
        tb = traceback.format_exc(limit=8)
        if "/saml2_tophat/" in tb and "apply_binding" in tb:
            # the encoder itself failed on a message/RelayState it is supposed to carry
            return {"outcome": "packaging-raised:" + type(exc).__name__, "nontrivial": True, "counters": {"independent_reads": 0},
                    "violations": [{"key": "C14/packaging-raised:" + case["binding"], "what": "%s binding, message %s, RelayState %r: apply_binding raised %s: %s" % (
                        case["binding"], case.get("msg"), case.get("relay"), type(exc).__name__, str(exc)[:200])}]}
        raise


def _run_case(case, ctx):
    if case["binding"] == "instance":
        return run_instance(case, ctx)
    if case["binding"] == "artifact-index":
        return run_artifact_index(case, ctx)
    if case["binding"] == "paos-relay":
        return run_paos_relay(case, ctx)
    from saml2_tophat.entity import Entity
    ent = ctx.idp if (case["msg"] is not None and case["msg"] >= 4) else ctx.sp
    binding = case["binding"]
    dest = DESTS[case["dest"]]
    relay = case["relay"]
    viol, counters = [], {}
    if "hand" in case:
        kind, msg, is_resp, soaptype = "handwritten-" + HANDWRITTEN[case["hand"]][0], HANDWRITTEN[case["hand"]][1], False, "authn_request"
    elif "payload_hex" in case:
        kind, msg, is_resp, soaptype = "layered-payload", bytes.fromhex(case["payload_hex"]), False, None
    elif case["msg"] is None:
        if "payload_size" in case:
            case = dict(case, payload=sized_payload(case["payload_size"], case["fill"], ctx.seed))
        kind, msg, is_resp, soaptype = "payload", case["payload"], False, None
    elif binding == "artifact":
        kind, msg, is_resp, soaptype = "artifact", ctx.artifacts[case["msg"]], False, None
    else:
        kind, msg, is_resp, soaptype = ctx.msgs[case["msg"]]
    typ = "SAMLResponse" if is_resp else "SAMLRequest"
    msg_bytes = msg.encode("utf-8") if isinstance(msg, str) else msg
    if case.get("as_bytes"):
        msg = msg_bytes

    def bad(key, what):
        viol.append({"key": "C14/" + key, "what": "%s %s dest=%s relay=%r: %s" % (binding, kind, case["dest"], relay, what)})

    if binding == "post":
        info = ent.apply_binding(BINDING_HTTP_POST, msg, dest, relay, response=is_resp)
        fr = FormReader()
        fr.feed(info["data"])
        fr.close()
        counters["independent_reads"] = 1
        if len(fr.forms) != 1:
            bad("post-form-structure-altered", "%d forms in the page" % len(fr.forms))
        elif fr.forms[0].get("action") != dest:
            bad("post-form-action-altered", "action %r" % fr.forms[0].get("action"))
        if fr.other:
            bad("post-form-foreign-elements", "unexpected elements %r" % fr.other)
        named = [(d.get("name"), d.get("value"), d) for d, raw in fr.inputs if d.get("name") is not None]
        extra_attrs = [raw for d, raw in fr.inputs if set(d) - {"type", "name", "value"}]
        if extra_attrs:
            bad("post-form-attribute-injected", "input with extra attributes %r" % extra_attrs[:2])
        want = [(typ, base64.b64encode(msg_bytes).decode("ascii"))] + ([("RelayState", relay)] if relay else [])
        got = [(n, v) for n, v, d in named]
        if got != want:
            bad("post-form-fields-differ", "fields %r, expected %r" % ([(n, (v or "")[:60]) for n, v in got], [(n, v[:60]) for n, v in want]))
        else:
            back = Entity.unravel(got[0][1], BINDING_HTTP_POST)
            counters["library_decodes"] = 1
            if back != msg_bytes:
                bad("post-roundtrip-not-byte-identical", "unravel returned %r" % back[:80])
            # ... and the package's decoder for the receiving end of the form (a WSGI request as the browser submits it)
            import io
            from saml2_tophat import httputil
            body = up.urlencode(got).encode("ascii")
            environ = {"REQUEST_METHOD": "POST", "CONTENT_TYPE": "application/x-www-form-urlencoded", "CONTENT_LENGTH": str(len(body)), "wsgi.input": io.BytesIO(body)}
            try:
                fields, b_ = httputil.unpack_any(environ)
                counters["receiving_end_decodes"] = 1
                txt = lambda v: v.decode("utf-8") if isinstance(v, bytes) else v
                fields = dict((txt(k), txt(v)) for k, v in fields.items())
                if b_ != BINDING_HTTP_POST or fields.get(typ) != got[0][1] or (fields.get("RelayState") or "") != relay:
                    bad("post-receiving-decoder-differs", "httputil.unpack_any -> binding %s, %s %r..., RelayState %r" % (
                        b_.rsplit(":", 1)[-1], typ, (fields.get(typ) or "")[:30], fields.get("RelayState")))
            except Exception as exc:
                bad("post-receiving-decoder-raised", "httputil.unpack_any on the submitted form: %r" % (exc,))
    elif binding in ("redirect", "redirect-signed"):
        signed_q = binding == "redirect-signed"
        if signed_q:
            # query-string signing: two more parameters, nothing else - whatever was packaged before in this process
            info = ent.apply_binding(BINDING_HTTP_REDIRECT, msg, dest, relay, response=is_resp, sign=True,
                                     sigalg="http://www.w3.org/2001/04/xmldsig-more#rsa-sha256")
        else:
            info = ent.apply_binding(BINDING_HTTP_REDIRECT, msg, dest, relay, response=is_resp)
        loc = dict(info["headers"]).get("Location")
        parts = up.urlsplit(loc)
        dparts = up.urlsplit(dest)
        counters["independent_reads"] = 1
        if (parts.scheme, parts.netloc, parts.path, parts.fragment) != (dparts.scheme, dparts.netloc, dparts.path, dparts.fragment):
            bad("redirect-destination-altered", "location %r" % loc[:120])
        q = up.parse_qsl(parts.query, keep_blank_values=True, strict_parsing=False)
        dq = up.parse_qsl(dparts.query, keep_blank_values=True)
        if q[:len(dq)] != dq:
            bad("redirect-existing-query-altered", "query %r, destination had %r" % (q[:len(dq) + 1], dq))
        rest = q[len(dq):]
        names = [n for n, v in rest]
        want_names = [typ] + (["RelayState"] if relay else []) + (["SigAlg", "Signature"] if signed_q else [])
        if sorted(names) != sorted(want_names):
            bad("redirect-parameter-created-or-lost", "parameters %r, expected %r" % (names, want_names))
        else:
            d = dict(rest)
            if relay and d["RelayState"] != relay:
                bad("redirect-relaystate-altered", "RelayState %r" % d["RelayState"])
            try:
                back = Entity.unravel(d[typ], BINDING_HTTP_REDIRECT)
                counters["library_decodes"] = 1
                if back != msg_bytes:
                    bad("redirect-roundtrip-not-byte-identical", "unravel returned %r" % back[:80])
            except Exception as exc:
                bad("redirect-own-output-not-decodable", repr(exc))
        _receiving_end(up.urlsplit(loc).query, typ, relay, BINDING_HTTP_REDIRECT, dict(rest).get(typ) if sorted(names) == sorted(want_names) else None, bad, counters)
        added = parts.query[len(dparts.query):]
        if re.search(r"[^A-Za-z0-9_.~%=&+\-]", added):
            bad("redirect-parameter-not-percent-encoded", "raw query part %r" % added[:120])
    elif binding in ("soap", "paos"):
        b = BINDING_SOAP if binding == "soap" else BINDING_PAOS
        info = ent.apply_binding(b, msg, dest)
        data = info["data"]
        counters["independent_reads"] = 1
        try:
            envl = ET.fromstring(data if isinstance(data, bytes) else data.encode("utf-8"))
            orig = ET.fromstring(msg_bytes)
        except ET.ParseError as exc:
            bad("soap-envelope-not-wellformed", repr(exc))
            envl = None
        if envl is not None:
            body = [c for c in envl if c.tag == "{%s}Body" % SOAPENV]
            if envl.tag != "{%s}Envelope" % SOAPENV or len(body) != 1 or len(body[0]) != 1:
                bad("soap-envelope-structure", "root %s, %d bodies" % (envl.tag, len(body)))
            elif canon(body[0][0]) != canon(orig):
                bad("soap-message-not-element-identical", _first_diff(canon(orig), canon(body[0][0])))
            try:
                back = Entity.unravel(data, BINDING_SOAP, soaptype)
                counters["library_decodes"] = 1
                if canon(ET.fromstring(back)) != canon(orig):
                    bad("soap-roundtrip-not-element-identical", _first_diff(canon(orig), canon(ET.fromstring(back))))
            except Exception as exc:
                bad("soap-own-output-not-decodable", repr(exc))
    elif binding == "artifact":
        info = ent.apply_binding(BINDING_HTTP_ARTIFACT, msg, dest, relay)
        url = info["url"]
        parts = up.urlsplit(url)
        dparts = up.urlsplit(dest)
        counters["independent_reads"] = 1
        q = up.parse_qsl(parts.query, keep_blank_values=True)
        dq = up.parse_qsl(dparts.query, keep_blank_values=True)
        if (parts.scheme, parts.netloc, parts.path) != (dparts.scheme, dparts.netloc, dparts.path) or q[:len(dq)] != dq:
            bad("artifact-existing-query-altered", "url %r, destination query %r, parsed %r" % (url[:140], dq, q[:len(dq) + 1]))
        rest = dict(q[len(dq):]) if q[:len(dq)] == dq else dict(q)
        if rest.get("SAMLart") != msg:
            bad("artifact-parameter-altered", "SAMLart %r" % rest.get("SAMLart"))
        else:
            back = Entity.unravel(rest["SAMLart"], BINDING_HTTP_ARTIFACT)
            counters["library_decodes"] = 1
            if back != base64.b64decode(msg):
                bad("artifact-roundtrip", "unravel gave %r" % back[:40])
        if relay and rest.get("RelayState") != relay:
            bad("artifact-relaystate-altered", "RelayState %r" % rest.get("RelayState"))
        if set(rest) - {"SAMLart", "RelayState"}:
            bad("artifact-parameter-created", "parameters %r" % sorted(rest))
        _receiving_end(parts.query, "SAMLart", relay, BINDING_HTTP_ARTIFACT, msg, bad, counters)
    return {"outcome": "violations" if viol else "roundtrip-ok", "nontrivial": counters.get("independent_reads", 0) > 0 and counters.get("library_decodes", 0) > 0 or bool(viol),
            "violations": viol[:4], "counters": counters, "obs": {"kind": kind}}


def _receiving_end(query, typ, relay, binding, value, bad, counters):
    """the package's decoder for the receiving end of a GET (a WSGI request as the browser sends it)"""
    from saml2_tophat import httputil
    try:
        fields, b_ = httputil.unpack_any({"REQUEST_METHOD": "GET", "QUERY_STRING": query})
        counters["receiving_end_decodes"] = counters.get("receiving_end_decodes", 0) + 1
        if b_ != binding or (value is not None and fields.get(typ) != value) or (fields.get("RelayState") or "") != relay:
            bad("get-receiving-decoder-differs", "httputil.unpack_any -> binding %s, %s %r..., RelayState %r" % (
                b_.rsplit(":", 1)[-1], typ, (fields.get(typ) or "")[:30], fields.get("RelayState")))
    except Exception as exc:
        bad("get-receiving-decoder-raised", "httputil.unpack_any on the query of the URL: %r" % (exc,))


def _first_diff(a, b, path="$"):
    if type(a) != type(b):
        return "%s: %r != %r" % (path, str(a)[:120], str(b)[:120])
    if isinstance(a, tuple):
        if len(a) != len(b):
            return "%s: length %d != %d" % (path, len(a), len(b))
        for i, (x, y) in enumerate(zip(a, b)):
            d = _first_diff(x, y, "%s[%d]" % (path, i))
            if d:
                return d
        return ""
    return "" if a == b else "%s: %r != %r" % (path, a[:120] if isinstance(a, str) else a, b[:120] if isinstance(b, str) else b)


def finalize(cases, results, tier, extras):
    inc = []
    by = {}
    for r in results:
        b = str(r.get("id", "")).split("-")[0]
        by[b] = by.get(b, 0) + r.get("counters", {}).get("library_decodes", 0)
    for b in ("post", "redirect", "soap", "paos", "artifact", "instance"):
        if not by.get(b):
            inc.append("no library decode observed for binding %s" % b)
    return {"inconclusive": inc, "coverage": {"library_decodes_by_binding": by}}
