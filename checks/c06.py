"""C06 - only successful SAML 2.0 responses ever yield an identity.

Table: top-level status {Success, Requester, Responder, VersionMismatch, unknown} x
second-level {each standard code, absent, unknown} x status message present/absent x
{no assertion, valid signed assertion} and Version variants of responses and requests.
Oracle: non-Success never yields an object with identity; the exception class is the one
an independent copy of the documented table gives (StatusError itself for absent/unknown
second-level codes); Version != 2.0 yields an exception or None.
"""
import itertools

from vlib import env, fed, xmlkit as xk

PROPERTY = "C06"
LEVEL = "exploration"
RULE = ("one execution = one response with rewritten Status/Version (or one request with rewritten Version) delivered to the real SP (IdP); "
        "non-trivial = the message passed parsing and addressing so that status/version handling decided; distinct = (top, second, message, "
        "assertion, version, kind)")
ASSUMPTIONS = ["the documented table is the STATUSCODE2EXCEPTION mapping of SAML second-level codes to Status* exception classes, written down "
               "independently here by URN suffix"]

S = "urn:oasis:names:tc:SAML:2.0:status:"
TOP = ["Success", "Requester", "Responder", "VersionMismatch", "urn:example:status:Whatever"]
# values an imprecise comparison (substring, prefix, case folding, trimming) would take for Success
TOP_NEAR = ["urn:oasis:names:tc:SAML:2.0:status:", "urn:oasis:names:tc:SAML:2.0:status:success", "urn:oasis:names:tc:SAML:2.0:status:Success ",
            " urn:oasis:names:tc:SAML:2.0:status:Success", "urn:oasis:names:tc:SAML:2.0:status:Successful", "urn:oasis:names:tc:SAML:2.0",
            "urn:oasis:names:tc:SAML:1.0:status:Success", "status:Success", "urn:Success", "urn:oasis:names:tc:SAML:2.0:status:Succes",
            "URN:OASIS:NAMES:TC:SAML:2.0:STATUS:SUCCESS", "urn:oasis:names:tc:SAML:2.0:status:Success#x"]
SECOND = {"AuthnFailed": "StatusAuthnFailed", "InvalidAttrNameOrValue": "StatusInvalidAttrNameOrValue",
          "InvalidNameIDPolicy": "StatusInvalidNameidPolicy", "NoAuthnContext": "StatusNoAuthnContext", "NoAvailableIDP": "StatusNoAvailableIdp",
          "NoPassive": "StatusNoPassive", "NoSupportedIDP": "StatusNoSupportedIdp", "PartialLogout": "StatusPartialLogout",
          "ProxyCountExceeded": "StatusProxyCountExceeded", "RequestDenied": "StatusRequestDenied", "RequestUnsupported": "StatusRequestUnsupported",
          "RequestVersionDeprecated": "StatusRequestVersionDeprecated", "RequestVersionTooHigh": "StatusRequestVersionTooHigh",
          "RequestVersionTooLow": "StatusRequestVersionTooLow", "ResourceNotRecognized": "StatusResourceNotRecognized",
          "TooManyResponses": "StatusTooManyResponses", "UnknownAttrProfile": "StatusUnknownAttrProfile", "UnknownPrincipal": "StatusUnknownPrincipal",
          "UnsupportedBinding": "StatusUnsupportedBinding", "VersionMismatch": "StatusVersionMismatch", "Responder": "StatusResponder"}
# (an empty Value is schema-invalid, not a status); the Success URI below a failure code, at the second or a deeper level, is still a failure
SECOND_EXTRA = ["<absent>", "urn:example:status:Nonstandard", S + "NotAStandardCode", S + "Success", "AuthnFailed>Success", "RequestDenied>AuthnFailed>Success"]
VERSIONS = ["1.0", "1.1", "2.0", "2.1", "3.0", "two", "", "<absent>", "2", "2.00", "02.0", " 2.0", "2.", "+2.0", "2e0", "2.0e0", "nan", "NaN", "inf",
            "2.0 ", "2,0", "２.０", "0x2", "2_0", "2.0.0"]


ENTRIES = ["authn_request_response", "authn_query_response", "attribute_query_response"]     # (authz_decision_query / assertion_id responses cannot be delivered over SOAP at all: UnravelError / TypeError before anything is looked at)


def _deliver_via(sp, entry, doc):
    """the response as it reaches the other entry points: in a SOAP envelope"""
    from saml2_tophat import BINDING_SOAP
    body = doc[doc.index("?>") + 2:] if doc.startswith("<?xml") else doc
    wire = '<ns0:Envelope xmlns:ns0="http://schemas.xmlsoap.org/soap/envelope/"><ns0:Body>%s</ns0:Body></ns0:Envelope>' % body
    fn = getattr(sp, "parse_" + entry)
    try:
        return fn(wire, BINDING_SOAP), None
    except Exception as exc:
        return None, exc


def gen_cases(tier, seed):
    cases = []
    for top in TOP:
        for second in sorted(SECOND) + SECOND_EXTRA:
            for msg in (0, 1, 2, 3, 4):      # StatusMessage absent / with text / empty element / white space only / text after blank lines
                for assertion in ("none", "signed"):
                    if tier == "quick" and msg > 1 and not (assertion == "signed" and second in ("AuthnFailed", "<absent>", "NoAuthnContext")):
                        continue
                    if tier == "quick" and msg and assertion == "signed" and second not in ("AuthnFailed", "<absent>", "urn:example:status:Nonstandard", S + "Success", "AuthnFailed>Success"):
                        continue
                    cid = "status-%s-%s-m%d-%s" % (top.split(":")[-1], second.split(":")[-1] or "empty", msg, assertion)
                    cases.append({"id": cid, "sig": ["status", top, second, msg, assertion], "kind": "status", "top": top, "second": second,
                                  "msg": msg, "assertion": assertion})
    # the other response entry points of the client (responses to queries arrive over SOAP): the same rule, the same classes
    for entry in ENTRIES[1:]:
        for top in TOP:
            for second in sorted(SECOND) + SECOND_EXTRA[:3]:
                for assertion in ("none", "signed"):
                    if tier == "quick" and top not in (TOP[0], TOP[1], TOP[-1]) and second not in ("AuthnFailed", "<absent>", "NoAuthnContext"):
                        continue
                    cid = "status-%s-%s-m0-%s-via-%s" % (top.split(":")[-1], second.split(":")[-1] or "empty", assertion, entry)
                    cases.append({"id": cid, "sig": ["status", top, second, 0, assertion, entry], "kind": "status", "top": top, "second": second,
                                  "msg": 0, "assertion": assertion, "entry": entry})
    # no statement of success at all: the Status element, or its StatusCode, is missing
    for top in ("<no Status element>", "<Status without StatusCode>", "<StatusCode without Value>"):
        for assertion in ("none", "signed"):
            cases.append({"id": "status-missing:%s-%s" % (top, assertion), "sig": ["status-missing", top, assertion], "kind": "status", "top": top, "second": "<absent>",
                          "msg": 0, "assertion": assertion})
    for top in TOP_NEAR:
        for second in ("<absent>", "RequestDenied"):
            for assertion in ("none", "signed"):
                cid = "status-near:%r-%s-%s" % (top, second, assertion)
                cases.append({"id": cid, "sig": ["status-near", top, second, assertion], "kind": "status", "top": top, "second": second, "msg": 0, "assertion": assertion})
    for v in VERSIONS:
        # (logout_request:expiring / :with-reason: requests made with the optional arguments of create_logout_request)
        for target in ("response", "authn_request", "logout_request", "logout_request:expiring", "logout_request:with-reason-and-sessions", "assertion"):
            cases.append({"id": "version-%s-%r" % (target, v), "sig": ["version", target, v], "kind": "version", "target": target, "version": v})
    return cases


def setup_worker(ctx):
    ctx.fedcache = fed.Cache()
    spc = fed.sp_conf(want_response_signed=False)
    idc = fed.idp_conf()
    ctx.sp = fed.make_sp(spc, [fed.metadata_of(idc)])
    ctx.idp = fed.make_idp(idc, [fed.metadata_of(spc)])


def _urn(x):
    return x if (":" in x or x == "" or x in TOP_NEAR) else S + x


def run_case(case, ctx):
    from saml2_tophat import BINDING_HTTP_REDIRECT, BINDING_HTTP_POST, BINDING_SOAP
    import saml2_tophat.response as R
    sp, idp = ctx.sp, ctx.idp
    viol = []
    if case["kind"] == "status":
        xml = fed.issue(idp, {"givenName": ["Ann"]}, sign_response=False, sign_assertion=(case["assertion"] == "signed"))
        d = xk.Doc(xml)
        st = d.find(xk.SAMLP, "Status")[0]
        p = d.prefix(st)
        inner = ""
        if case["second"] != "<absent>":
            chain = case["second"].split(">") if ">" in case["second"] and not case["second"].startswith("urn:") else [case["second"]]
            for code in reversed(chain):
                inner = '<%s:StatusCode Value="%s">%s</%s:StatusCode>' % (p, _urn(code), inner, p) if inner else '<%s:StatusCode Value="%s"/>' % (p, _urn(code))
        status = '<%s:Status><%s:StatusCode Value="%s">%s</%s:StatusCode>%s</%s:Status>' % (
            p, p, _urn(case["top"]), inner, p, {0: "", 1: "<%s:StatusMessage>something went wrong</%s:StatusMessage>" % (p, p), 2: "<%s:StatusMessage/>" % p,
                                                3: "<%s:StatusMessage> \n\t </%s:StatusMessage>" % (p, p), 4: "<%s:StatusMessage>\n\nsecond line only\n</%s:StatusMessage>" % (p, p)}[case["msg"]], p)
        if case["top"] == "<no Status element>":
            d = d.remove(st)
        elif case["top"] == "<Status without StatusCode>":
            d = d.replace(st, "<%s:Status><%s:StatusMessage>x</%s:StatusMessage></%s:Status>" % (p, p, p, p))
        elif case["top"] == "<StatusCode without Value>":
            d = d.replace(st, "<%s:Status><%s:StatusCode/></%s:Status>" % (p, p, p))
        else:
            d = d.replace(st, status)
        if case["assertion"] == "none":
            d = d.remove(d.find(xk.SAML, "Assertion")[0])
        doc = d.text()
        entry = case.get("entry", ENTRIES[0])
        if entry == ENTRIES[0]:
            resp, exc = fed.deliver(sp, doc, {"id-req-1": "/"})
        else:
            resp, exc = _deliver_via(sp, entry, doc)
        outcome = "accept" if resp is not None else "reject:" + (type(exc).__name__ if exc is not None else "None")
        desc = "entry=parse_%s top=%s second=%s message=%s assertion=%s: %s" % (entry, case["top"], case["second"], bool(case["msg"]), case["assertion"], outcome)
        success = case["top"] == "Success"
        if not success:
            if resp is not None:
                ident = fed.identity_of(resp)
                viol.append({"key": "C06/non-success-response-yields-object", "what": desc + " identity=%r" % (ident.get("ava"),)})
            else:
                sec = case["second"].split(">")[0] if ">" in case["second"] and not case["second"].startswith("urn:") else case["second"]
                want = SECOND.get(sec.replace(S, "") if sec.startswith(S) else sec)
                if case["second"].startswith(S) and case["second"][len(S):] not in SECOND:
                    want = None
                want = want or "StatusError"
                got = type(exc).__name__ if exc is not None else "None"
                if case["top"].startswith("<"):
                    pass      # no status to name a class for: any refusal will do
                elif entry != ENTRIES[0] and not isinstance(exc, R.StatusError):
                    pass      # refused by a check that comes before the status (transport, addressing) - the class is promised only after those
                elif exc is None:
                    viol.append({"key": "C06/non-success-response-returns-none-instead-of-error", "what": desc})
                elif got != want:
                    key = "C06/wrong-status-error-class"
                    if want == "StatusError" and not isinstance(exc, R.StatusError):
                        key = "C06/unknown-second-level-code-not-a-status-error"
                    viol.append({"key": key, "what": desc + ", documented class %s" % want})
        else:
            if case["assertion"] == "signed" and resp is None and entry == ENTRIES[0]:
                viol.append({"key": "C06/successful-response-rejected", "what": desc + " %r" % (exc,)})
        cnt = {"status_cells": 1, "accepted": int(resp is not None)}
        if entry != ENTRIES[0]:
            cnt["via_%s:%s" % (entry, "accepted" if resp is not None else ("status-error" if isinstance(exc, R.StatusError) else "refused-earlier:" + type(exc).__name__))] = 1
        return {"outcome": outcome, "nontrivial": True, "violations": viol, "counters": cnt, "obs": {"desc": desc}}
    # ------------------------------------------------------------------ versions
    v = case["version"]
    target = case["target"]
    if target in ("response", "assertion"):
        xml = fed.issue(idp, {"givenName": ["Ann"]}, sign_response=False)
        d = xk.Doc(xml)
        node = d.root if target == "response" else d.find(xk.SAML, "Assertion")[0]
        doc = d.set_attr(node, "Version", None if v == "<absent>" else v).text()
        resp, exc = fed.deliver(sp, doc, {"id-req-1": "/"})
        got_obj = resp is not None
        outcome = "accept" if got_obj else "reject:" + (type(exc).__name__ if exc is not None else "None")
    else:
        if target == "authn_request":
            rid, req = sp.create_authn_request(fed.SSO_REDIRECT)
            binding = BINDING_HTTP_REDIRECT
        else:
            from saml2_tophat.saml import NameID, NAMEID_FORMAT_TRANSIENT
            lkw = {}
            if target.endswith(":expiring"):
                from saml2_tophat.time_util import in_a_while
                lkw = {"expire": in_a_while(minutes=10)}
            elif ":" in target:
                lkw = {"reason": "urn:oasis:names:tc:SAML:2.0:logout:user", "session_indexes": ["s1", "s2"]}
            rid, req = sp.create_logout_request(fed.SLO_IDP + "/post", fed.IDP_EID, name_id=NameID(format=NAMEID_FORMAT_TRANSIENT, text="abc"), **lkw)
            binding = BINDING_HTTP_POST
        d = xk.Doc("%s" % req)
        doc = d.set_attr(d.root, "Version", None if v == "<absent>" else v).text()
        import base64
        import zlib
        if binding == BINDING_HTTP_REDIRECT:
            enc = base64.b64encode(zlib.compress(doc.encode())[2:-4]).decode()
        else:
            enc = base64.b64encode(doc.encode()).decode()
        try:
            if target == "authn_request":
                r = idp.parse_authn_request(enc, binding)
            else:
                r = idp.parse_logout_request(enc, binding)
            exc = None
        except Exception as e:
            r, exc = None, e
        got_obj = r is not None and getattr(r, "message", None) is not None
        outcome = "accept" if got_obj else "reject:" + (type(exc).__name__ if exc is not None else "None")
    desc = "%s with Version=%r: %s" % (target, v, outcome)
    if v != "2.0" and got_obj and target != "assertion":
        viol.append({"key": "C06/version-other-than-2.0-accepted", "what": desc})
    if v == "2.0" and not got_obj:
        viol.append({"key": "C06/version-2.0-message-rejected", "what": desc + " %r" % (exc,)})
    return {"outcome": outcome, "nontrivial": True, "violations": viol, "counters": {"version_cells": 1, "accepted": int(got_obj)}, "obs": {"desc": desc}}


def finalize(cases, results, tier, extras):
    inc = []
    if not any(r.get("outcome") == "accept" for r in results):
        inc.append("no message was accepted")
    return {"inconclusive": inc, "coverage": {"exhaustive": True, "second_level_codes": len(SECOND)}}
