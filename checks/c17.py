"""C17 - encrypted assertions stay confidential and are validated like plain ones.

(a) confidentiality: identities made of unique markers; for every combination of
    sign_response x sign_assertion x self-contained namespaces x {assertion, PEFIM advice
    assertion, both} the bytes of Server.create_authn_response(encrypt...) must contain no
    marker value, NameID text or attribute name of an encrypted assertion; decrypting
    through the driver succeeds with the addressee's private key and with no other
    fixture key; the SP (first / second key matching) reads the identity back.
(b) same checks: metamorphic relation over mutants M of a plain assertion (signature
    family from C01, time family from C04, addressing family from C05):
    reject(M) => reject(encrypt(M)).
(c) content the SP cannot decrypt never yields an identity.
"""
import itertools
import random

from vlib import env, fed, xmlkit as xk, xmlmut as xm, clock, monitors

PROPERTY = "C17"
LEVEL = "exploration"
RULE = ("one execution = one encrypted response examined byte-wise and decrypted with every fixture key (confidentiality), one pair (plain "
        "mutant, encrypted mutant) delivered to the same SP (same checks), or one undecryptable response (no identity); non-trivial = the IdP "
        "produced ciphertext / the pair was delivered; distinct = (combination, key layout) / (mutator, SP setting) / (undecryptable kind)")
ASSUMPTIONS = ["an IdP call that raises instead of returning a response is 'no response built' (counted, not a violation)",
               "the attacker of the metamorphic part can encrypt to the SP's public certificate but cannot sign", "libxmlsec1 driver as in C01"]

OUT = {"id-req-1": "/"}
MARK = "Zq7MARK"


def gen_cases(tier, seed):
    cases = []
    for sr, sa, sc, mode in itertools.product((0, 1), (0, 1), (0, 1), ("assertion", "pefim-advice", "pefim-advice+assertion")):
        for layout in ("one-key", "second-key-matches", "md-useless-key-beside-signing-key", "md-single-useless-key"):
            if tier == "quick" and layout != "one-key" and (sc or mode != "assertion") and not (layout.startswith("md-useless-key") and not sc and sr):
                continue
            cid = "conf-r%d-a%d-sc%d-%s-%s" % (sr, sa, sc, mode, layout)
            cases.append({"id": cid, "sig": ["conf", sr, sa, sc, mode, layout], "kind": "conf", "sr": sr, "sa": sa, "sc": sc, "mode": mode, "layout": layout})
    for fam in ("signature", "time", "addressing", "schema"):
        shards = 12 if fam == "signature" else 1
        for sh in range(shards):
            cases.append({"id": "same-checks-%s-%d" % (fam, sh), "sig": ["same-checks", fam, sh], "kind": "meta", "family": fam, "deep": tier == "thorough",
                          "shard": sh, "shards": shards})
        if fam == "addressing":
            # what the application stored for the outstanding request is its own business - also when it is a falsy value
            for stored in ("", 0):
                cases.append({"id": "same-checks-%s-stored-%r" % (fam, stored), "sig": ["same-checks", fam, "stored", repr(stored)], "kind": "meta", "family": fam,
                              "deep": tier == "thorough", "shard": 0, "shards": 1, "stored": stored})
    for k in range(2 if tier == "quick" else 8):
        cases.append({"id": "rotation-%d" % k, "sig": ["rotation", k], "kind": "rotation", "k": k})
    for kind in ("foreign-cert", "garbled-cipher", "garbled-key", "empty-cipher", "truncated-encrypted-data",
                 # the subject identifier alone is encrypted (saml:EncryptedID)
                 "encrypted-id-foreign-cert", "encrypted-id-garbled-cipher", "encrypted-id-own-cert"):
        for sr in (0, 1):
            cases.append({"id": "undecryptable-%s-r%d" % (kind, sr), "sig": ["undecryptable", kind, sr], "kind": "undec", "how": kind, "sr": sr})
    return cases


def setup_worker(ctx):
    ctx.fedcache = fed.Cache()


# how the SP's encryption-capable key is published: hand-written metadata whose KeyDescriptor has no use attribute (valid for signing and
# encryption alike) - what the SP 'has' is the same encryption certificate k02
MD_KEY_LAYOUTS = {"md-useless-key-beside-signing-key": [("signing", 1), (None, 2)], "md-single-useless-key": [(None, 2)]}


def _pair(ctx, wrs, was, layout, unsol=0):
    def build():
        from vlib import mdgen
        enc = (10, 2) if layout == "second-key-matches" else (2,)
        key_i = 2 if layout == "md-single-useless-key" else 1
        spc = fed.sp_conf(want_response_signed=bool(wrs), want_assertions_signed=bool(was), enc_keys=enc, allow_unsolicited=bool(unsol), key_i=key_i)
        sp_md = fed.metadata_of(fed.sp_conf(want_response_signed=bool(wrs), want_assertions_signed=bool(was), enc_keys=(2,)))
        if layout in MD_KEY_LAYOUTS:
            sp_md = mdgen.entity({"eid": fed.SP_EID, "sp": {"keys": MD_KEY_LAYOUTS[layout], "want_assertions_signed": bool(was),
                                                           "acs": [("urn:oasis:names:tc:SAML:2.0:bindings:HTTP-POST", fed.ACS_POST, 1, True)]}})
        idc = fed.idp_conf()
        return fed.make_sp(spc, [fed.metadata_of(idc)]), fed.make_idp(idc, [sp_md])
    return ctx.fedcache.get("pair", [wrs, was, layout, unsol], build)


def run_conf(case, ctx, viol, counters):
    from saml2_tophat.saml import NameID, NAMEID_FORMAT_PERSISTENT
    sp, idp = _pair(ctx, case["sr"], 0, case["layout"])
    rng = random.Random("%s/%s" % (ctx.seed, case["id"]))
    tag = "%06x" % rng.randrange(16 ** 6)
    ident = {"givenName": ["%s-gn-%s" % (MARK, tag)], "mail": ["%s-mail-%s@example.org" % (MARK, tag)], "eduPersonAffiliation": ["%s-aff-%s" % (MARK, tag), "%s-aff2-%s" % (MARK, tag)]}
    nid = NameID(format=NAMEID_FORMAT_PERSISTENT, text="%s-nameid-%s" % (MARK, tag), sp_name_qualifier=fed.SP_EID)
    kw = {"encrypt_assertion_self_contained": bool(case["sc"]), "name_id": nid}
    mode = case["mode"]
    if mode == "assertion":
        kw["encrypt_assertion"] = True
    elif mode == "pefim-advice":
        kw["pefim"] = True
        kw["encrypt_assertion"] = False
    else:
        kw["pefim"] = True
        kw["encrypt_assertion"] = True
    desc = "sign_response=%d sign_assertion=%d self_contained=%d mode=%s keys=%s" % (case["sr"], case["sa"], case["sc"], mode, case["layout"])
    try:
        xml = fed.issue(idp, ident, sign_response=bool(case["sr"]), sign_assertion=bool(case["sa"]), **kw)
    except Exception as exc:
        counters["idp_raised:" + type(exc).__name__] = counters.get("idp_raised:" + type(exc).__name__, 0) + 1
        return "idp-raised:" + type(exc).__name__, False
    counters["encrypted_responses"] = counters.get("encrypted_responses", 0) + 1
    d = xk.Doc(xml)
    n_enc = len(d.find(xk.XENC, "EncryptedData"))
    if n_enc == 0:
        viol.append({"key": "C17/encryption-silently-skipped", "what": desc + ": response returned without any EncryptedData although the SP has an encryption certificate",
                     "detail": {"xml": xml[:3000]}})
        return "no-ciphertext", True
    # what must not be visible: every attribute value and name always (they live in the encrypted assertion in all three modes); the
    # NameID only when the main assertion is encrypted
    secrets = [v for vs in ident.values() for v in vs] + ["urn:oid:2.5.4.42", "urn:oid:0.9.2342.19200300.100.1.3", "urn:oid:1.3.6.1.4.1.5923.1.1.1.1",
                                                            'FriendlyName="givenName"', 'FriendlyName="mail"', "eduPersonAffiliation"]
    if mode != "pefim-advice":
        secrets.append(nid.text)
    leaked = [s for s in secrets if s in xml]
    if leaked:
        viol.append({"key": "C17/encrypted-assertion-content-in-clear", "what": desc + ": visible in the emitted response: %r" % leaked[:4], "detail": {"xml": xml[:4000]}})
    plain_assertions = [a for a in d.find(xk.SAML, "Assertion")]
    if mode == "assertion" and plain_assertions:
        viol.append({"key": "C17/plain-assertion-next-to-encrypted-one", "what": desc + ": %d unencrypted Assertion elements in the response" % len(plain_assertions)})
    # decryptable with the addressee's key and no other
    opened = []
    for k in range(12):
        rc, err, out = xk.decrypt(xml, fed.key(k)[0])
        counters["decrypt_attempts"] = counters.get("decrypt_attempts", 0) + 1
        if rc == 0 and out and (MARK.encode() in out):
            opened.append(k)
    if opened != [2]:
        key = "C17/not-decryptable-with-addressee-key" if 2 not in opened else "C17/decryptable-with-foreign-key"
        viol.append({"key": key, "what": desc + ": markers recovered with keys %r, the SP's encryption key is k02" % opened})
    # and the SP reads it back
    resp, exc = fed.deliver(sp, xml, dict(OUT))
    if resp is None:
        # (acceptance of the IdP's own output is C08's subject; here it is an observation: with encrypt_assertion_self_contained=False the
        # plaintext lacks its namespace declarations and the SP cannot parse what it decrypted)
        if True:
            k = "own_response_not_accepted:%s:sc%d:%s" % (mode, case["sc"], type(exc).__name__)
            counters[k] = counters.get(k, 0) + 1
    else:
        got = fed.identity_of(resp)
        want = {k: sorted(v) for k, v in ident.items()}
        if got.get("ava") != want:
            viol.append({"key": "C17/identity-read-from-encrypted-assertion-differs", "what": desc + ": %r != %r" % (got.get("ava"), want)})
        counters["read_back"] = counters.get("read_back", 0) + 1
    return "checked", True


def semantic_mutants(xml, family, deep):
    """(name, text) mutants of a plain unsigned assertion-bearing response that a conforming SP must reject"""
    d = xk.Doc(xml)
    now = clock.now()
    if family == "time":
        c = d.find(xk.SAML, "Conditions")[0]
        yield "conditions-expired", d.set_attr(c, "NotOnOrAfter", clock.iso(now - 3600)).text()
        yield "conditions-not-yet-valid", d.set_attr(c, "NotBefore", clock.iso(now + 3600)).text()
        s = d.find(xk.SAML, "SubjectConfirmationData")[0]
        yield "bearer-expired", d.set_attr(s, "NotOnOrAfter", clock.iso(now - 3600)).text()
        yield "bearer-not-yet-valid", d.set_attr(s, "NotBefore", clock.iso(now + 3600)).text()
        a = d.find(xk.SAML, "AuthnStatement")[0]
        yield "session-expired", d.set_attr(a, "SessionNotOnOrAfter", clock.iso(now - 3600)).text()
        d2 = d.set_attr(c, "NotBefore", clock.iso(now + 50))
        yield "notbefore-after-notonorafter", d2.set_attr(d2.find(xk.SAML, "Conditions")[0], "NotOnOrAfter", clock.iso(now + 20)).text()
    elif family == "addressing":
        aud = d.find(xk.SAML, "Audience")[0]
        yield "audience-foreign", d.set_text(aud, "https://other-sp.example.net/md").text()
        ar = d.find(xk.SAML, "AudienceRestriction")[0]
        p = d.prefix(ar)
        yield "second-audience-restriction-foreign", d.insert_after(ar, "<%s:AudienceRestriction><%s:Audience>https://other-sp.example.net/md</%s:Audience></%s:AudienceRestriction>" % (p, p, p, p)).text()
        s = d.find(xk.SAML, "SubjectConfirmationData")[0]
        yield "bearer-in-response-to-different", d.set_attr(s, "InResponseTo", "id-some-other-request").text()
        yield "recipient-foreign", d.set_attr(s, "Recipient", "https://other-sp.example.net/acs").text()
        yield "no-authn-statement", d.remove(d.find(xk.SAML, "AuthnStatement")[0]).text()
        yield "no-subject-confirmation", d.remove(d.find(xk.SAML, "SubjectConfirmation")[0]).text()
    elif family == "schema":
        # an assertion that is not an assertion by the library's own schema validation (run on every plain message)
        a = [c for c in d.root.children if c.tag == (xk.SAML, "Assertion")][0]
        yield "assertion-without-issue-instant", d.set_attr(a, "IssueInstant", None).text()
        yield "assertion-issue-instant-not-a-datetime", d.set_attr(a, "IssueInstant", "yesterday").text()
        yield "assertion-without-id", d.set_attr(a, "ID", None).text()
        yield "assertion-without-version", d.set_attr(a, "Version", None).text()
        yield "assertion-without-issuer", d.remove(a.child(xk.SAML, "Issuer")).text()
        c = d.find(xk.SAML, "Conditions")[0]
        yield "conditions-not-before-empty", d.set_attr(c, "NotBefore", "").text()
        yield "conditions-not-on-or-after-not-a-datetime", d.set_attr(c, "NotOnOrAfter", "2999-13-45T00:00:00Z").text()
        st = d.find(xk.SAML, "AuthnStatement")[0]
        yield "authn-statement-without-authn-instant", d.set_attr(st, "AuthnInstant", None).text()
        at = d.find(xk.SAML, "Attribute")[0]
        yield "attribute-without-name", d.set_attr(at, "Name", None).text()
        sub = d.find(xk.SAML, "Subject")[0]
        yield "two-subjects", d.insert_after(sub, d.outer(sub).decode("utf-8")).text()


def run_meta(case, ctx, viol, counters, sigs):
    fam = case["family"]
    ident = {"givenName": ["Ann"], "mail": ["ann@example.org"]}
    sp_cert = fed.key(2)[1]
    if fam == "signature":
        settings = [(0, 1), (0, 0)]      # (0, 0): a signature that is present must still verify, encrypted or not
    else:
        settings = [(0, 0)]
    for (wrs, was) in settings:
        sp, idp = _pair(ctx, wrs, was, "one-key")
        plain = fed.issue(idp, ident, sign_response=False, sign_assertion=bool(was) or fam == "signature")
        # sanity: the unmutated pair must be accepted in both forms
        r0, e0 = fed.deliver(sp, plain, {"id-req-1": case.get("stored", "/")}, conv_info={"entity_id": fed.SP_EID, "remote_addr": "0.0.0.0"})
        r1, e1 = fed.deliver(sp, xk.encrypt_assertions(plain, sp_cert), {"id-req-1": case.get("stored", "/")}, conv_info={"entity_id": fed.SP_EID, "remote_addr": "0.0.0.0"})
        if r0 is None or r1 is None:
            raise RuntimeError("unmutated pair not accepted: plain %r encrypted %r" % (e0, e1))
        if fam == "signature":
            fams = ("edit", "sig", "ref", "id", "xsw") if case["deep"] else ("sig", "ref", "id", "xsw")
            muts = [(n, m) for n, f, m in xm.mutants(plain, xk.SAML, "Assertion", families=fams) if m is not None]
        else:
            muts = list(semantic_mutants(plain, fam, case["deep"]))
        variants = [(name, m, None) for name, m in muts]
        if fam == "signature":
            # a second, attacker-made assertion next to the genuine one (signed with a key the SP does not trust, or unsigned); in the
            # encrypted form either every assertion or only the attacker's is encrypted - several EncryptedData at the outer layer
            d0 = xk.Doc(plain)
            a0 = d0.find(xk.SAML, "Assertion")[0]
            for sig_kind in ("untrusted-signature", "unsigned"):
                if sig_kind == "unsigned" and not was:
                    continue      # an SP that requires no signature may accept unsigned assertions; only the one-assertion rule refuses the plain form
                evil = xm.evilize(d0.standalone(a0), new_id=a0.attrs["ID"] + "x", keep_sig=False)
                for where in ("after", "before"):
                    dd = d0.insert_after(a0, evil) if where == "after" else d0.insert_before(a0, evil)
                    txt = dd.text()
                    if sig_kind == "untrusted-signature":
                        txt = xk.sign_element(txt, xk.SAML, "Assertion", a0.attrs["ID"] + "x", fed.key(9)[0], "rsa-sha256", fed.cert_body(9))
                    idx_evil = 1 if where == "after" else 0
                    variants.append(("extra-assertion-%s:%s:all-encrypted" % (sig_kind, where), txt, None))
                    variants.append(("extra-assertion-%s:%s:only-extra-encrypted" % (sig_kind, where), txt, [idx_evil]))
                    variants.append(("extra-assertion-%s:%s:only-genuine-encrypted" % (sig_kind, where), txt, [1 - idx_evil]))
            # ... and one that carries the genuine assertion's own ID (what was verified for an identifier says nothing about another element
            # that claims the same identifier): in front of the genuine one, signed by the outsider, alone inside the cipher text
            evil = xm.evilize(d0.standalone(a0), new_id=a0.attrs["ID"], keep_sig=False)
            # (signed on its own, as a document of one element: the signing tool refuses a document with two elements of one ID)
            evil_txt = evil.decode("utf-8") if isinstance(evil, bytes) else evil
            evil_signed = xk.sign_element(evil_txt, xk.SAML, "Assertion", a0.attrs["ID"], fed.key(9)[0], "rsa-sha256", fed.cert_body(9))
            if evil_signed.startswith("<?xml"):
                evil_signed = evil_signed[evil_signed.index("?>") + 2:]
            txt = d0.insert_before(a0, evil_signed).text()
            variants.append(("extra-assertion-untrusted-signature-same-id:before:only-extra-encrypted", txt, [0]))
            variants.append(("extra-assertion-untrusted-signature-same-id:before:all-encrypted", txt, None))
        if fam == "signature" and was:
            # PEFIM-shaped genuine answer (signed plain assertion carrying an encrypted advice assertion) with an attacker-made assertion
            # appended: in the encrypted form there are two EncryptedData in the document and the attacker's is not the first
            try:
                pef = fed.issue(idp, ident, sign_response=False, sign_assertion=True, pefim=True)
                dp = xk.Doc(pef)
                main = [c for c in dp.root.children if c.tag == (xk.SAML, "Assertion")][0]
                if dp.find(xk.XENC, "EncryptedData"):
                    ev = xm.evilize(strip_advice(dp.standalone(main)), new_id=main.attrs["ID"] + "x", keep_sig=False)
                    for where in ("after", "before"):
                        dd = dp.insert_after(main, ev) if where == "after" else dp.insert_before(main, ev)
                        txt = xk.sign_element(dd.text(), xk.SAML, "Assertion", main.attrs["ID"] + "x", fed.key(9)[0], "rsa-sha256", fed.cert_body(9))
                        variants.append(("pefim-genuine+extra-assertion-untrusted-signature:%s:only-extra-encrypted" % where, txt, [1 if where == "after" else 0]))
                else:
                    counters["pefim_base_without_ciphertext"] = 1
            except Exception as exc:
                counters["pefim_base_failed:" + type(exc).__name__] = 1
        variants = [v for i, v in enumerate(variants) if i % case.get("shards", 1) == case.get("shard", 0)]
        for name, m, which in variants:
            rp, ep = fed.deliver(sp, m, {"id-req-1": case.get("stored", "/")}, conv_info={"entity_id": fed.SP_EID, "remote_addr": "0.0.0.0"})
            try:
                menc = xk.encrypt_assertions(m, sp_cert, which=which)
            except Exception:
                counters["mutants_not_encryptable"] = counters.get("mutants_not_encryptable", 0) + 1
                continue
            re_, ee = fed.deliver(sp, menc, {"id-req-1": case.get("stored", "/")}, conv_info={"entity_id": fed.SP_EID, "remote_addr": "0.0.0.0"})
            counters["pairs"] = counters.get("pairs", 0) + 1
            sigs.append(["same-checks", fam, name])
            plain_rej, enc_acc = rp is None, re_ is not None
            if plain_rej:
                counters["plain_rejected"] = counters.get("plain_rejected", 0) + 1
            if enc_acc and not plain_rej:
                # both forms accepted: the identity must be the same
                ia, ib = fed.identity_of(rp), fed.identity_of(re_)
                if ia.get("ava") != ib.get("ava") or (ia.get("name_id") or {}).get("text") != (ib.get("name_id") or {}).get("text"):
                    viol.append({"key": "C17/encrypted-form-yields-other-identity/" + fam,
                                 "what": "mutant %s: plain form gives %r / %r, encrypted form %r / %r" % (
                                     name, ia.get("ava"), (ia.get("name_id") or {}).get("text"), ib.get("ava"), (ib.get("name_id") or {}).get("text"))})
            if plain_rej and enc_acc:
                viol.append({"key": "C17/check-skipped-for-decrypted-assertion/" + fam,
                             "what": "mutant %s (family %s, SP wants assertion signed=%d): the plain form is rejected (%s) but the same assertion inside an EncryptedAssertion is accepted with %r" % (
                                 name, fam, was, type(ep).__name__, fed.identity_of(re_).get("ava")),
                             "detail": {"plain": m[:5000]}})
            if fam != "signature" and not plain_rej:
                counters["semantic_mutant_accepted_in_plain_form"] = counters.get("semantic_mutant_accepted_in_plain_form", 0) + 1


def strip_advice(elem_bytes):
    d = xk.Doc(elem_bytes)
    adv = d.root.child(xk.SAML, "Advice")
    return d.remove(adv).b if adv is not None else d.b


def run_undec(case, ctx, viol, counters):
    sp, idp = _pair(ctx, case["sr"], 0, "one-key")
    ident = {"givenName": ["%s-gn" % MARK], "mail": ["%s@example.org" % MARK]}
    how = case["how"]
    if how.startswith("encrypted-id"):
        d = xk.Doc(fed.issue(idp, ident, sign_response=False))
        nid = d.find(xk.SAML, "NameID")[0]
        p = d.prefix(nid)
        ed = xk.encrypt_fragment(d.standalone(nid), fed.key(9 if how.endswith("foreign-cert") else 2)[1])
        xml = d.replace(nid, "<%s:EncryptedID>%s</%s:EncryptedID>" % (p, ed.decode("utf-8") if isinstance(ed, bytes) else ed, p)).text()
        if how.endswith("garbled-cipher"):
            d = xk.Doc(xml)
            n = d.find(xk.XENC, "CipherValue")[-1]
            v = d.inner(n).decode()
            xml = d._splice(n.stag_end, n.etag_start, v[:8] + "AAAABBBBCCCC" + v[20:]).text()
    elif how == "foreign-cert":
        plain = fed.issue(idp, ident, sign_response=False)
        xml = xk.encrypt_assertions(plain, fed.key(9)[1])
    else:
        xml = fed.issue(idp, ident, sign_response=False, encrypt_assertion=True)
        d = xk.Doc(xml)
        cvs = d.find(xk.XENC, "CipherValue")
        # document order: [EncryptedKey/CipherValue, EncryptedData/CipherValue]
        if how == "garbled-cipher":
            n = cvs[-1]
            v = d.inner(n).decode()
            xml = d._splice(n.stag_end, n.etag_start, v[:40] + "AAAABBBBCCCC" + v[52:]).text()
        elif how == "garbled-key":
            n = cvs[0]
            v = d.inner(n).decode()
            xml = d._splice(n.stag_end, n.etag_start, v[:20] + "AAAABBBB" + v[28:]).text()
        elif how == "empty-cipher":
            n = cvs[-1]
            xml = d._splice(n.stag_end, n.etag_start, "").text()
        else:
            ed = d.find(xk.XENC, "EncryptedData")[0]
            cd = [c for c in ed.children if c.local == "CipherData"][0]
            xml = d.remove(cd).text()
    if case["sr"]:
        rid = xk.Doc(xml).root.attrs["ID"]
        xml = xk.sign_element(xml, xk.SAMLP, "Response", rid, fed.key(0)[0], "rsa-sha256", fed.cert_body(0))
    resp, exc = fed.deliver(sp, xml, dict(OUT))
    counters["undecryptable_deliveries"] = counters.get("undecryptable_deliveries", 0) + 1
    if how == "encrypted-id-own-cert":
        # control: this one the SP can open
        counters["encrypted_id_opened"] = counters.get("encrypted_id_opened", 0) + int(resp is not None and resp.name_id is not None)
        return "control-accepted" if resp is not None else "control-rejected:" + type(exc).__name__
    if resp is not None:
        i = fed.identity_of(resp)
        has = bool(i.get("ava")) or i.get("name_id") is not None or getattr(resp, "assertion", None) is not None
        if has:
            viol.append({"key": "C17/identity-from-undecryptable-content", "what": "undecryptable (%s, response signed=%d): accepted with %r" % (how, case["sr"], i)})
        return "accepted-without-identity" if not has else "accepted-with-identity"
    return "rejected:" + type(exc).__name__


def run_rotation(case, ctx, viol, counters):
    """one long-lived IdP whose SP metadata file changes (encryption key rotated, encryption certificate published later, withdrawn): every
    response must be encrypted for the certificate the CURRENT metadata holds"""
    import copy
    import os
    from vlib import mdgen
    from saml2_tophat.config import IdPConfig
    from saml2_tophat.server import Server
    rng = random.Random("%s/%s" % (ctx.seed, case["id"]))
    path = os.path.join(ctx.scratch, "rotation-%s.xml" % case["k"])
    B_POST = "urn:oasis:names:tc:SAML:2.0:bindings:HTTP-POST"

    def write(enc_key):
        keys = [("signing", 1)] + ([("encryption", enc_key)] if enc_key is not None else [])
        with open(path, "w") as f:
            f.write(mdgen.entity({"eid": fed.SP_EID, "sp": {"keys": keys, "acs": [(B_POST, fed.ACS_POST, 1, True)]}}))

    plan = [rng.choice([None, 2]), rng.choice([10, 2, 3]), rng.choice([None, 3, 10]), 2]
    write(plan[0])
    idc = fed.idp_conf()
    idc["metadata"] = {"local": [path]}
    idp = Server(config=IdPConfig().load(copy.deepcopy(idc)))
    for g, enc_key in enumerate(plan):
        if g:
            write(enc_key)
            idp.metadata.load("local", path)
        tag = "%06x" % rng.randrange(16 ** 6)
        ident = {"givenName": ["%s-gn-%s" % (MARK, tag)], "mail": ["%s-%s@example.org" % (MARK, tag)]}
        try:
            xml = fed.issue(idp, ident, sign_response=False, sign_assertion=bool(g % 2), encrypt_assertion=True)
        except Exception as exc:
            counters["idp_raised:" + type(exc).__name__] = counters.get("idp_raised:" + type(exc).__name__, 0) + 1
            continue
        counters["rotation_steps"] = counters.get("rotation_steps", 0) + 1
        desc = "metadata history %s, step %d (current encryption certificate %s)" % (
            ["k%02d" % p if p is not None else "none" for p in plan[:g + 1]], g, "k%02d" % enc_key if enc_key is not None else "none")
        leaked = MARK in xml
        if enc_key is None:
            continue          # no certificate, nothing was promised
        if leaked:
            viol.append({"key": "C17/encrypted-assertion-content-in-clear-after-metadata-change", "what": desc + ": identity markers visible in the response"})
            continue
        opened = []
        for k in range(12):
            rc, err, out = xk.decrypt(xml, fed.key(k)[0])
            if rc == 0 and out and MARK.encode() in out:
                opened.append(k)
        if opened != [enc_key]:
            viol.append({"key": "C17/encrypted-for-a-certificate-the-metadata-no-longer-holds", "what": desc + ": decryptable with %s" % ["k%02d" % k for k in opened]})
    os.unlink(path)
    return "rotation"


def run_case(case, ctx):
    viol, counters, sigs = [], {}, []
    nontrivial = True
    if case["kind"] == "conf":
        outcome, nontrivial = run_conf(case, ctx, viol, counters)
    elif case["kind"] == "meta":
        run_meta(case, ctx, viol, counters, sigs)
        outcome = "pairs"
    elif case["kind"] == "rotation":
        outcome = run_rotation(case, ctx, viol, counters)
    else:
        outcome = run_undec(case, ctx, viol, counters)
    uniq = {}
    for v in viol:
        uniq.setdefault(v["key"] + v["what"][:50], v)
    res = {"outcome": outcome, "nontrivial": nontrivial, "violations": list(uniq.values())[:10], "counters": counters,
           "evals": max(1, counters.get("pairs", 0)), "obs": {"kind": case["kind"]}}
    if sigs:
        res["sigs"] = sigs
    return res


def finalize(cases, results, tier, extras):
    tot = {}
    for r in results:
        for k, v in r.get("counters", {}).items():
            tot[k] = tot.get(k, 0) + v
    inc = []
    for need in ("encrypted_responses", "pairs", "plain_rejected", "undecryptable_deliveries", "read_back", "rotation_steps"):
        if not tot.get(need):
            inc.append("counter %s is zero" % need)
    return {"inconclusive": inc, "coverage": {"observations": {k: v for k, v in tot.items() if ":" in k or k.startswith("semantic")}}}
