"""C10 - incoming requests are validated before an IdP or SP acts on them.

Requests of several types made by the real client (authentication, logout, attribute
query, manage-name-id), signed and unsigned, packed for Redirect / POST / SOAP, delivered
to receivers with and without want_authn_requests_signed (and a receiver that has no
endpoint for the arriving binding), pristine and mutated: field edits, destination swap,
stale/future IssueInstant, wrong root element, wrapping (C01 operators), truncated and
garbled encodings.
Oracle: a request object is returned => expected type, required attributes, Destination
absent or own, IssueInstant within a day, signature (if present) genuinely verified on
the request element itself (structure as in C01-B) under the issuer's key, signed if
wanted; a mutant of a signed request that is accepted must equal the pristine request.
"""
import base64
import copy
import random
import time
import zlib

from vlib import env, fed, xmlkit as xk, xmlmut as xm, monitors, clock

PROPERTY = "C10"
LEVEL = "exploration"
RULE = ("one execution = one (possibly mutated) request delivered to one receiver configuration through the public parse function of its "
        "type and binding; non-trivial = the request got past decoding to validation (returned, or refused by validation/signature code); "
        "distinct = (type, binding, signed, receiver configuration, mutator)")
ASSUMPTIONS = ["libxmlsec1 driver as in C01", "the option want_authn_requests_only_with_valid_cert is not part of the quantifier and stays off",
               "redirect-binding query signatures are C15; here 'signed' means an enveloped XML signature"]

from saml2_tophat import BINDING_HTTP_POST, BINDING_HTTP_REDIRECT, BINDING_SOAP  # noqa: E402

AA_URL = "https://idp.example.org/aa/soap"
MNI_URL = "https://idp.example.org/mni/soap"
SOAPENV = "http://schemas.xmlsoap.org/soap/envelope/"
RECEIVERS = {
    "plain": {"want": 0, "endpoints": "full"},
    "want-signed": {"want": 1, "endpoints": "full"},
    "redirect-only": {"want": 0, "endpoints": "redirect-only"},
    # every further option of the receiver that touches what is done with a signature
    "valid-cert-only": {"want": 0, "endpoints": "full", "extra": {"want_authn_requests_only_with_valid_cert": True}},
    "want-signed+valid-cert-only": {"want": 1, "endpoints": "full", "extra": {"want_authn_requests_only_with_valid_cert": True}},
    # a stand-alone attribute authority (no idp section at all); it only takes attribute queries
    "aa-alone-plain": {"want": 0, "endpoints": "full", "kind": "aa"},
    "aa-alone-want-signed": {"want": 1, "endpoints": "full", "kind": "aa"},
}
AA_ALONE_EID = "https://aa.example.org/md"
AA_ALONE_URL = "https://aa.example.org/attr/soap"
TYPES = {
    # type: (bindings, parse function name on the IdP, expected class name, service)
    "authn": ([BINDING_HTTP_REDIRECT, BINDING_HTTP_POST], "parse_authn_request", "AuthnRequest"),
    "logout": ([BINDING_HTTP_REDIRECT, BINDING_HTTP_POST, BINDING_SOAP], "parse_logout_request", "LogoutRequest"),
    "attribute_query": ([BINDING_SOAP], "parse_attribute_query", "AttributeQuery"),
    "manage_name_id": ([BINDING_SOAP], "parse_manage_name_id_request", "ManageNameIDRequest"),
    "authn_query": ([BINDING_SOAP], "parse_authn_query", "AuthnQuery"),
    # (AuthzDecisionQuery cannot be received at all: soap.py has no parse_soap_enveloped_saml_authz_decision_query, unravel() fails for every
    #  message - nothing is ever handed over, so the property holds trivially and there is nothing to explore; noted in DESIGN.md)
    "name_id_mapping": ([BINDING_SOAP], "parse_name_id_mapping_request", "NameIDMappingRequest"),
    "artifact_resolve": ([BINDING_SOAP], "parse_artifact_resolve", "ArtifactResolve"),
}
EXTRA_URLS = {"authn_query": "https://idp.example.org/aq/soap", "authz_decision_query": "https://idp.example.org/pdp/soap",
              "name_id_mapping": "https://idp.example.org/nim/soap", "artifact_resolve": "https://idp.example.org/ars/soap"}


def bshort(b):
    return b.rsplit(":", 1)[-1].replace("HTTP-", "").lower()


def gen_cases(tier, seed):
    cases = []
    for typ, (bindings, fn, cls) in sorted(TYPES.items()):
        for b in bindings:
            for signed in (0, 1):
                for rname in sorted(RECEIVERS):
                    if RECEIVERS[rname].get("kind") == "aa" and typ != "attribute_query":
                        continue
                    cid = "%s-%s-%s-%s" % (typ, bshort(b), "signed" if signed else "unsigned", rname)
                    cases.append({"id": cid, "sig": [typ, bshort(b), signed, rname], "type": typ, "binding": b, "signed": signed, "receiver": rname,
                                  "deep": tier == "thorough"})
                    if typ in ("authn", "logout") and rname in ("plain", "want-signed"):
                        # the same requests made with the optional arguments of the create_* call (NotOnOrAfter, SessionIndex, ForceAuthn, ...)
                        cases.append({"id": cid + "-with-options", "sig": [typ, bshort(b), signed, rname, "options"], "type": typ, "binding": b, "signed": signed,
                                      "receiver": rname, "deep": tier == "thorough", "opts": 1})
    return cases


def setup_worker(ctx):
    ctx.fedcache = fed.Cache()


def _ents(ctx, rname):
    r = RECEIVERS[rname]

    def build_aa():
        from saml2_tophat.server import Server
        from saml2_tophat.config import config_factory
        k, c = fed.key(0)
        cnf = {"entityid": AA_ALONE_EID, "key_file": k, "cert_file": c, "xmlsec_binary": env.XMLSEC,
               "service": {"aa": {"endpoints": {"attribute_service": [(AA_ALONE_URL, BINDING_SOAP)]}, "policy": copy.deepcopy(fed.DEFAULT_POLICY),
                                  "want_authn_requests_signed": bool(r["want"])}}}
        spc = fed.sp_conf()
        sp = fed.make_sp(spc, [fed.metadata_of(cnf)])
        cnf["metadata"] = {"inline": [fed.metadata_of(spc)]}
        # the role name as an application would have it at run time (read from a settings file, split from a string): equal to "aa", not the
        # interned literal
        role = "".join(["a", chr(97)])
        return sp, Server(config=config_factory(role, copy.deepcopy(cnf)), stype=role)

    def build():
        if r.get("kind") == "aa":
            return build_aa()
        eps = None
        if r["endpoints"] == "redirect-only":
            eps = {"single_sign_on_service": [(fed.SSO_REDIRECT, BINDING_HTTP_REDIRECT)], "single_logout_service": [(fed.SLO_IDP, BINDING_HTTP_REDIRECT)]}
        idc = fed.idp_conf(endpoints=eps, want_authn_requests_signed=bool(r["want"]), **r.get("extra", {}))
        idc["service"]["aa"] = {"endpoints": {"attribute_service": [(AA_URL, BINDING_SOAP)]}, "policy": fed.DEFAULT_POLICY}
        idc["service"]["idp"]["endpoints"]["manage_name_id_service"] = [(MNI_URL, BINDING_SOAP)]
        idc["service"]["idp"]["endpoints"]["name_id_mapping_service"] = [(EXTRA_URLS["name_id_mapping"], BINDING_SOAP)]
        idc["service"]["idp"]["endpoints"]["artifact_resolution_service"] = [(EXTRA_URLS["artifact_resolve"], BINDING_SOAP, 1)]
        idc["service"]["aq"] = {"endpoints": {"authn_query_service": [(EXTRA_URLS["authn_query"], BINDING_SOAP)]}}
        idc["service"]["pdp"] = {"endpoints": {"authz_service": [(EXTRA_URLS["authz_decision_query"], BINDING_SOAP)]}}
        spc = fed.sp_conf()
        full_idc = fed.idp_conf(want_authn_requests_signed=bool(r["want"]))
        full_idc["service"]["aa"] = idc["service"]["aa"]
        full_idc["service"]["idp"]["endpoints"]["manage_name_id_service"] = [(MNI_URL, BINDING_SOAP)]
        sp = fed.make_sp(spc, [fed.metadata_of(full_idc)])
        idp = fed.make_idp(idc, [fed.metadata_of(spc)])
        return sp, idp
    return ctx.fedcache.get("ents", [rname], build)


def own_endpoints(rname, typ, binding):
    if RECEIVERS[rname].get("kind") == "aa":
        return [AA_ALONE_URL] if (typ, binding) == ("attribute_query", BINDING_SOAP) else []
    full = RECEIVERS[rname]["endpoints"] == "full"
    if typ == "authn":
        m = {BINDING_HTTP_REDIRECT: [fed.SSO_REDIRECT], BINDING_HTTP_POST: [fed.SSO_POST] if full else []}
    elif typ == "logout":
        m = {BINDING_HTTP_REDIRECT: [fed.SLO_IDP], BINDING_HTTP_POST: [fed.SLO_IDP + "/post"] if full else [], BINDING_SOAP: [fed.SLO_IDP + "/soap"] if full else []}
    elif typ == "attribute_query":
        m = {BINDING_SOAP: [AA_URL]}
    elif typ in EXTRA_URLS:
        m = {BINDING_SOAP: [EXTRA_URLS[typ]]}
    else:
        m = {BINDING_SOAP: [MNI_URL]}
    return m.get(binding, [])


def make_request(sp, typ, binding, signed, rname, opts=False):
    from saml2_tophat.saml import NameID, NAMEID_FORMAT_PERSISTENT
    nid = NameID(format=NAMEID_FORMAT_PERSISTENT, text="subject-1", sp_name_qualifier=fed.SP_EID, name_qualifier=fed.IDP_EID)
    aa = RECEIVERS[rname].get("kind") == "aa"
    eps = own_endpoints(rname if aa else "plain", typ, binding)
    dest = eps[0]
    if aa:
        nid = NameID(format=NAMEID_FORMAT_PERSISTENT, text="subject-1", sp_name_qualifier=fed.SP_EID, name_qualifier=AA_ALONE_EID)
    if typ == "authn" and opts:
        # the optional parts a caller may ask for
        from saml2_tophat.samlp import NameIDPolicy
        rid, req = sp.create_authn_request(dest, binding=BINDING_HTTP_POST, sign=bool(signed), force_authn="true", is_passive="false", consent="urn:oasis:names:tc:SAML:2.0:consent:obtained",
                                           nameid_format=NAMEID_FORMAT_PERSISTENT, provider_name="SP with options")
    elif typ == "logout" and opts:
        from saml2_tophat import time_util
        rid, req = sp.create_logout_request(dest, fed.IDP_EID, name_id=nid, reason="user", sign=bool(signed), expire=time_util.in_a_while(minutes=5),
                                            session_indexes=["session-1", "session-2"], consent="urn:oasis:names:tc:SAML:2.0:consent:obtained")
    elif typ == "authn":
        rid, req = sp.create_authn_request(dest, binding=BINDING_HTTP_POST, sign=bool(signed))
    elif typ == "logout":
        rid, req = sp.create_logout_request(dest, fed.IDP_EID, name_id=nid, reason="user", sign=bool(signed))
    elif typ == "attribute_query":
        rid, req = sp.create_attribute_query(dest, nid, attribute={"givenName": None}, sign=bool(signed))
    elif typ == "authn_query":
        from saml2_tophat.saml import Subject
        rid, req = sp.create_authn_query(Subject(name_id=nid), destination=dest, sign=bool(signed))
    elif typ == "authz_decision_query":
        from saml2_tophat.saml import Subject, Action
        rid, req = sp.create_authz_decision_query(dest, [Action(text="read", namespace="urn:oasis:names:tc:SAML:1.0:action:rwedc")],
                                                  resource="https://sp.example.org/resource", subject=Subject(name_id=nid), sign=bool(signed))
    elif typ == "name_id_mapping":
        from saml2_tophat.samlp import NameIDPolicy
        rid, req = sp.create_name_id_mapping_request(NameIDPolicy(format=NAMEID_FORMAT_PERSISTENT, sp_name_qualifier=fed.SP_EID), name_id=nid,
                                                     destination=dest, sign=bool(signed))
    elif typ == "artifact_resolve":
        rid, req = sp.create_artifact_resolve("AAQAAMFbLinlXaCM+FIxiDwGOLAy2T71gbpO7ZhNzAgEANlB90ECfpNEVLg=", dest, "sess-1", sign=bool(signed))
    else:
        from saml2_tophat.samlp import NewID
        rid, req = sp.create_manage_name_id_request(dest, name_id=nid, new_id=NewID(text="new-sp-id"), sign=bool(signed))
    return "%s" % req


def encode(xml, binding):
    data = xml.encode("utf-8") if isinstance(xml, str) else xml
    if binding == BINDING_HTTP_POST:
        return base64.b64encode(data).decode("ascii")
    if binding == BINDING_HTTP_REDIRECT:
        return base64.b64encode(zlib.compress(data)[2:-4]).decode("ascii")
    body = data.decode("utf-8", "replace")
    if body.startswith("<?xml"):
        body = body[body.index("?>") + 2:]
    return '<ns0:Envelope xmlns:ns0="%s"><ns0:Body>%s</ns0:Body></ns0:Envelope>' % (SOAPENV, body)


def request_mutants(xml, typ, signed, deep):
    """yield (name, family, text)"""
    d = xk.Doc(xml)
    root = d.root
    yield "destination-foreign", "addressing", d.set_attr(root, "Destination", "https://attacker.example.net/sso").text()
    yield "destination-removed", "addressing", d.set_attr(root, "Destination", None).text()
    yield "destination-empty", "addressing", d.set_attr(root, "Destination", "").text()
    own_dest = root.attrs.get("Destination")
    if own_dest:
        # the receiver's own endpoint with reserved characters percent-encoded: another URL (a "/" and "%2F" are not the same thing)
        k = own_dest.rfind("/")
        yield "destination-percent-encoded:last-slash", "addressing", d.set_attr(root, "Destination", own_dest[:k] + "%2F" + own_dest[k + 1:]).text()
        yield "destination-percent-encoded:last-slash-lower", "addressing", d.set_attr(root, "Destination", own_dest[:k] + "%2f" + own_dest[k + 1:]).text()
        yield "destination-percent-encoded:scheme-colon", "addressing", d.set_attr(root, "Destination", own_dest.replace("://", "%3A//", 1)).text()
        yield "destination-percent-encoded:double", "addressing", d.set_attr(root, "Destination", own_dest[:k] + "%252F" + own_dest[k + 1:]).text()
    now = time.time()
    yield "issue-instant-stale", "time", d.set_attr(root, "IssueInstant", clock.iso(now - 3 * 86400)).text()
    yield "issue-instant-future", "time", d.set_attr(root, "IssueInstant", clock.iso(now + 3 * 86400)).text()
    yield "issue-instant-garbage", "time", d.set_attr(root, "IssueInstant", "yesterday").text()
    # the same stale / future instants written as local time with a zone offset (legal xs:dateTime; read without its offset the text alone
    # would lie inside the window)
    for name, delta, zone in (("stale-26h-written-plus-14", -26 * 3600, 14), ("stale-3d-written-plus-14", -3 * 86400, 14), ("future-26h-written-minus-12", 26 * 3600, -12),
                              ("stale-30h-written-plus-05:30", -30 * 3600, 5.5)):
        local = now + delta + zone * 3600
        z = "%s%02d:%02d" % ("+" if zone >= 0 else "-", int(abs(zone)), int(round((abs(zone) % 1) * 60)))
        yield "issue-instant-" + name, "time", d.set_attr(root, "IssueInstant", clock.iso(local, z=False) + z).text()
        yield "issue-instant-" + name + "-fraction", "time", d.set_attr(root, "IssueInstant", clock.iso(local, z=False) + ".250" + z).text()
    # the end-of-day spelling (hour 24 of day D is hour 0 of day D+1): instants outside the window whichever way the day is counted
    for name, delta in (("future", 30 * 3600), ("stale", -4 * 86400)):
        day = time.strftime("%Y-%m-%d", time.gmtime(now + delta))
        yield "issue-instant-end-of-day-" + name, "time", d.set_attr(root, "IssueInstant", day + "T24:00:00Z").text()
        yield "issue-instant-end-of-day-" + name + "-fraction", "time", d.set_attr(root, "IssueInstant", day + "T24:00:00.000Z").text()
    yield "id-removed", "schema", d.set_attr(root, "ID", None).text()
    yield "issue-instant-removed", "schema", d.set_attr(root, "IssueInstant", None).text()
    # wrong root element: same content under another request name
    q = d.qname(root)
    other = "LogoutRequest" if typ != "logout" else "AuthnRequest"
    p = q.split(":")[0]
    txt = d.text()
    yield "wrong-root-element", "type", txt.replace("<%s " % q, "<%s:%s " % (p, other), 1).replace("</%s>" % q, "</%s:%s>" % (p, other))
    yield "root-is-assertion", "type", '<saml:Assertion xmlns:saml="urn:oasis:names:tc:SAML:2.0:assertion" ID="x" Version="2.0" IssueInstant="%s"><saml:Issuer>%s</saml:Issuer></saml:Assertion>' % (clock.iso(now), fed.SP_EID)
    if signed:
        fams = ("edit", "comment", "sig", "ref", "id", "xsw") if deep else ("edit", "sig", "ref", "id", "xsw")
        n = 0
        for name, fam, m in xm.mutants(xml, root.ns, root.local, families=fams):
            if m is None:
                yield name, "error", None
                continue
            n += 1
            if not deep and fam == "edit" and n % 3:
                continue
            yield name, fam, m


def transport_mutants(enc, binding, rng):
    if binding == BINDING_SOAP:
        yield "soap-truncated", enc[:len(enc) // 2]
        yield "soap-two-bodies", enc.replace("</ns0:Body>", "</ns0:Body><ns0:Body/>")
        yield "soap-not-xml", "not xml"
        return
    yield "encoding-truncated", enc[:len(enc) // 2]
    yield "encoding-garbled", enc[:20] + "!!!!" + enc[24:]
    yield "encoding-not-base64", "%%%"
    yield "encoding-empty", ""
    if binding == BINDING_HTTP_REDIRECT:
        yield "redirect-not-deflated", base64.b64encode(b"<samlp:AuthnRequest/>").decode()
    else:
        yield "post-deflated-instead-of-plain", base64.b64encode(zlib.compress(b"<x/>")[2:-4]).decode()


def call(idp, typ, enc, binding):
    fn = getattr(idp, TYPES[typ][1])
    try:
        r = fn(enc, binding) if typ != "artifact_resolve" else fn(enc)
        if r is not None and not hasattr(r, "message") and hasattr(r, "c_tag"):
            # this entry point hands the message object over directly
            class _R(object):
                pass
            w = _R()
            w.message = r
            r = w
        return r, None
    except Exception as exc:
        return None, exc


def run_case(case, ctx):
    import saml2_tophat.sigver as sv
    sp, idp = _ents(ctx, case["receiver"])
    typ, binding, signed, rname = case["type"], case["binding"], case["signed"], case["receiver"]
    want_signed = bool(RECEIVERS[rname]["want"])
    xml = make_request(sp, typ, binding, signed, rname, bool(case.get("opts")))
    own = own_endpoints(rname, typ, binding)
    rng = random.Random("%s/%s" % (ctx.seed, case["id"]))
    viol, counters, sigs = [], {}, []

    def hit(k):
        counters[k] = counters.get(k, 0) + 1

    pristine_msg = None

    def judge(name, fam, text_or_enc, encoded=False):
        nonlocal pristine_msg
        enc = text_or_enc if encoded else encode(text_or_enc, binding)
        ctx.mark()
        r, exc = call(idp, typ, enc, binding)
        evs = [e for e in ctx.events() if not e.get("case", "").startswith("harness:")]
        hit("deliveries")
        got = r is not None and getattr(r, "message", None) is not None
        desc = "%s over %s, %s, receiver %s, mutator %s" % (typ, bshort(binding), "signed" if signed else "unsigned", rname, name)
        if not got:
            hit("refused:" + (type(exc).__name__ if exc is not None else "None"))
            if exc is None or isinstance(exc, (sv.SigverError, AssertionError)) or type(exc).__name__ in ("IncorrectlySigned", "OtherError", "NotValid", "MustValueError"):
                sigs.append([typ, bshort(binding), signed, rname, name])
            if name == "pristine":
                # the property has no accept direction; a refused valid request is counted, and finalize reports a type whose valid
                # requests were never handed over as inconclusive (nothing was explored for it)
                expect_ok = (signed or not want_signed) and bool(own)
                if expect_ok:
                    hit("valid_request_refused")
                    hit("valid_request_refused:%s:%s" % (typ, type(exc).__name__ if exc is not None else "None"))
            return
        hit("returned")
        sigs.append([typ, bshort(binding), signed, rname, name])
        msg = r.message
        n0 = len(viol)
        if name == "pristine":
            pristine_msg = msg.to_string()
            hit("valid_request_handed_over:" + typ)
        det = {"mutator": name, "document": (text_or_enc if not encoded else "")[:6000]}
        if type(msg).__name__ != TYPES[typ][2]:
            viol.append({"key": "C10/wrong-request-type-returned", "what": desc + ": returned %s" % type(msg).__name__, "detail": det})
        for attr in ("id", "version", "issue_instant"):
            if not getattr(msg, attr, None):
                viol.append({"key": "C10/request-without-required-attribute", "what": desc + ": %s missing" % attr, "detail": det})
        if getattr(msg, "version", None) != "2.0":
            viol.append({"key": "C10/version-other-than-2.0-accepted", "what": desc, "detail": det})
        if msg.destination is not None and msg.destination not in own:      # (present but empty is present)
            key = "C10/foreign-destination-accepted"
            if not own:
                key = "C10/foreign-destination-accepted-when-no-endpoint-for-binding"
            viol.append({"key": key, "what": desc + ": Destination %r, own endpoints for this service and binding %r" % (msg.destination, own), "detail": det})
        try:
            ii = clock.parse_iso(msg.issue_instant)
            if abs(ii - time.time()) > 86400 + 5:
                viol.append({"key": "C10/issue-instant-outside-window-accepted", "what": desc + ": IssueInstant %s" % msg.issue_instant, "detail": det})
        except Exception:
            viol.append({"key": "C10/unreadable-issue-instant-accepted", "what": desc + ": IssueInstant %r" % msg.issue_instant, "detail": det})
        has_sig = getattr(msg, "signature", None) is not None
        if want_signed and not has_sig:
            viol.append({"key": "C10/unsigned-request-accepted-although-signed-wanted", "what": desc, "detail": det})
        if has_sig:
            oks = [e for e in evs if monitors.genuine_ok(e) and e.get("node_id") == msg.id]
            if not oks:
                viol.append({"key": "C10/signed-request-accepted-without-genuine-verification", "what": desc + ": events %r" % [monitors.slim(e) for e in evs][:5], "detail": det})
            for e in oks:
                if monitors.cert_name(e.get("cert", b"")) != "k01":
                    viol.append({"key": "C10/request-verified-under-key-not-of-issuer", "what": desc + ": verified with %s" % monitors.cert_name(e.get("cert", b"")), "detail": det})
                probs = monitors.signature_structure_problems(e["input"], e.get("id_attr_node", ""), e.get("node_id", ""), e.get("id_attr_name") or "ID")
                if probs:
                    viol.append({"key": "C10/verified-element-is-not-what-signature-digests", "what": desc + ": " + "; ".join(probs), "detail": det})
        if signed and name != "pristine" and pristine_msg is not None and fam not in ("transport",) and has_sig:
            # (a mutant that lost its signature altogether is an unsigned request; whether that is admissible is decided above)
            if msg.to_string() != pristine_msg:
                viol.append({"key": "C10/modified-signed-request-accepted/" + fam, "what": desc + ": accepted request differs from the signed one", "detail": det})
            else:
                hit("accepted_equal_to_signed:" + fam)
        if typ == "artifact_resolve":
            # one mechanism: this entry point unwraps and parses, nothing else (known finding); only a wrong type is something different
            for v in viol[n0:]:
                if v["key"] != "C10/wrong-request-type-returned":
                    v["what"] = "[%s] %s" % (v["key"].split("/", 1)[1], v["what"])
                    v["key"] = "C10/artifact-resolve-handed-over-without-validation"

    judge("pristine", "-", xml)
    for name, fam, m in request_mutants(xml, typ, signed, case["deep"]):
        if m is None:
            hit("mutator_errors")
            continue
        judge(name, fam, m)
    for name, enc in transport_mutants(encode(xml, binding), binding, rng):
        judge(name, "transport", enc, encoded=True)
    uniq = {}
    for v in viol:
        uniq.setdefault(v["key"] + "|" + v.get("detail", {}).get("mutator", ""), v)
    return {"outcome": "violations" if viol else "held", "nontrivial": counters.get("returned", 0) > 0 or len(sigs) > 0, "violations": list(uniq.values())[:12],
            "counters": counters, "sigs": sigs, "evals": counters.get("deliveries", 0), "obs": {"own_endpoints": own}}


def finalize(cases, results, tier, extras):
    tot = {}
    for r in results:
        for k, v in r.get("counters", {}).items():
            tot[k] = tot.get(k, 0) + v
    inc = []
    if not tot.get("returned"):
        inc.append("no request was ever returned")
    if tot.get("mutator_errors"):
        inc.append("%d mutators failed to apply" % tot["mutator_errors"])
    for typ in sorted(set(c["type"] for c in cases)):
        if not tot.get("valid_request_handed_over:" + typ):
            inc.append("no valid %s request was ever handed over - nothing explored for this type" % typ)
    return {"inconclusive": inc, "coverage": {"types": sorted(TYPES), "receivers": sorted(RECEIVERS)}}
