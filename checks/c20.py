"""C20 - failures of the external XML-security tool never turn into acceptance.

The xmlsec driver (tools/xmlsec1_shim.c) doubles as a fault-injecting tool: the
environment variable VERIF_FAULT=<kind>:<position>:<mode> makes the k-th (or every)
invocation of a kind misbehave - silent error exit, death by signal before/after work,
empty stderr with exit 0, truncated or garbled output, text that merely contains OK, no
output file.  'not startable' is produced by pointing the entity at a private copy of
the tool that is removed or made non-executable before the call.
Sites: response, assertion and request verification; statement signing; assertion
encryption; decryption with the first/second key.  Messages: valid and tampered.
Oracle (the driver log marks injected events): accepted => every required level has a
genuine un-faulted OK; tampered never accepted; decryption fault => no identity unless a
genuine decryption succeeded; sign/encrypt with no result => exception.
"""
import itertools
import os
import shutil

from vlib import env, fed, xmlkit as xk, monitors

PROPERTY = "C20"
LEVEL = "fault_enumeration"
RULE = ("one execution = one operation (parse a response/request, build a signed or encrypted response) run while the tool follows one fault "
        "plan (site kind, position first/second/every, mode); non-trivial = the planned fault was actually injected (the driver log shows an "
        "event carrying the fault marker, or the tool could not be started); distinct = (site, message, position, mode)")
ASSUMPTIONS = ["the fault catalogue is the one listed in VERIFY_MODES, GARBLED, NORESULT_MODES, DAMAGE_MODES and UNSTARTABLE; 'exit status 1 while printing OK' is outside the property's wording and not asserted",
               "libxmlsec1 driver as in C01"]

VERIFY_MODES = ["exit1_silent", "exit0_silent", "segv_before", "kill_before", "segv_after", "kill_after", "text_not_ok",
                "text_verification_ok", "text_ok_trailing", "text_ok_leading", "text_ok_lower", "text_ok_inline", "text_okay", "text_garbage",
                "text_trunc", "trunc_output", "garble_output", "no_output"]
# garbled diagnostics, byte for byte (mode hex<exit status>_<hex of stderr>): the word OK inside other text on the same line - set off by
# characters that are line breaks only to Unicode-aware splitting (FF, VT, FS/GS/RS, NEL, LS, PS, a lone CR) - or next to bytes that
# are not UTF-8 / NUL.  None of them is a report of success, whatever the exit status.
GARBLED = {"ok-between-formfeeds": b"junk\x0cOK\x0cjunk\n", "ok-between-vtabs": b"a\x0bOK\x0bb\n", "ok-between-fs-gs": b"a\x1cOK\x1db\n", "ok-between-rs": b"a\x1eOK\x1eb\n",
           "ok-between-nel": "a\u0085OK\u0085b\n".encode("utf-8"), "ok-between-ls": "a\u2028OK\u2028b\n".encode("utf-8"),
           "ok-between-ps": "error: id \u2029OK\u2029 not found\n".encode("utf-8"), "ok-between-lone-crs": b"a\rOK\rb\n",
           "ok-after-ls-then-fail": "func=x:error: uri=\u2028OK\u2028\nFAIL\n".encode("utf-8"),
           "ok-amid-invalid-utf8": b"\xf8OK\x9d\n", "ok-split-by-invalid-byte": b"O\xffK\n", "ok-then-invalid-byte": b"OK\xff\n", "invalid-byte-then-ok": b"\xffOK\n",
           "bom-ok": b"\xef\xbb\xbfOK\n", "ok-nul": b"OK\x00\n", "nul-ok": b"\x00OK\n", "o-nul-k": b"O\x00K\n", "latin1-nbsp-ok": b"\xa0OK\n"}
GARBLED_MODES = ["hex%d_%s" % (rc, v.hex()) for k, v in sorted(GARBLED.items()) for rc in (0, 1)]
GARBLED_NAME = {"hex%d_%s" % (rc, v.hex()): "%s(exit %d)" % (k, rc) for k, v in GARBLED.items() for rc in (0, 1)}
NORESULT_MODES = ["exit1_silent", "exit0_silent", "no_output", "empty_output", "segv_before", "kill_before"]
# an error exit after the unprocessed input (signature template / plaintext) was written to the output file: no result either
UNPROCESSED_MODES = ["exit1_unprocessed_output"]
DAMAGE_MODES = ["trunc_output", "garble_output", "segv_after", "kill_after"]
UNSTARTABLE = ["tool-missing", "tool-not-executable", "tool-is-directory"]
POSITIONS = ["1", "2", "all"]
POSITIONS_DEEP = ["1", "2", "3", "from2", "all"]

OUT = {"id-req-1": "/"}
AA_URL = "https://idp.example.org/aa/soap"
MNI_URL = "https://idp.example.org/mni/soap"


def gen_cases(tier, seed):
    cases = []
    global POSITIONS
    POSITIONS = POSITIONS_DEEP if tier == "thorough" else ["1", "2", "all"]
    # verification sites
    for site in ("verify-response", "verify-assertion", "verify-both", "verify-request", "verify-assertion-in-encrypted",
                 "verify-request:logout", "verify-request:attribute-query", "verify-request:manage-name-id", "verify-logout-response"):
        for msg in ("valid", "tampered"):
            for pos in POSITIONS:
                for mode in VERIFY_MODES + GARBLED_MODES:
                    if tier == "quick" and pos == "2" and mode not in ("exit1_silent", "text_verification_ok", "segv_before", "exit0_silent"):
                        continue
                    if tier == "quick" and mode in GARBLED_MODES and (pos != "all" or (site not in ("verify-response", "verify-assertion") and msg == "valid")):
                        continue
                    cases.append({"id": "%s-%s-%s-%s" % (site, msg, pos, mode), "sig": [site, msg, pos, mode], "site": site, "msg": msg,
                                  "pos": pos, "mode": mode, "kind": "verify"})
            for u in UNSTARTABLE:
                cases.append({"id": "%s-%s-%s" % (site, msg, u), "sig": [site, msg, "all", u], "site": site, "msg": msg, "pos": "all", "mode": u,
                              "kind": "verify"})
    # metadata verification (remote loader with a verification certificate; HTTP object replaced by an in-process stub)
    for msg in ("valid", "tampered"):
        for pos in ("1", "all"):
            for mode in VERIFY_MODES + (GARBLED_MODES if pos == "all" else []):
                cases.append({"id": "verify-metadata-%s-%s-%s" % (msg, pos, mode), "sig": ["verify-metadata", msg, pos, mode], "site": "verify-metadata",
                              "msg": msg, "pos": pos, "mode": mode, "kind": "verify"})
        for u in UNSTARTABLE:
            cases.append({"id": "verify-metadata-%s-%s" % (msg, u), "sig": ["verify-metadata", msg, "all", u], "site": "verify-metadata", "msg": msg,
                          "pos": "all", "mode": u, "kind": "verify"})
    for site in ("sign-response", "sign-assertion", "sign-both", "sign-request"):
        for pos in POSITIONS:
            for mode in NORESULT_MODES + UNPROCESSED_MODES + DAMAGE_MODES:
                cases.append({"id": "%s-%s-%s" % (site, pos, mode), "sig": [site, "-", pos, mode], "site": site, "pos": pos, "mode": mode, "kind": "sign", "msg": "-"})
        for u in UNSTARTABLE:
            cases.append({"id": "%s-%s" % (site, u), "sig": [site, "-", "all", u], "site": site, "pos": "all", "mode": u, "kind": "sign", "msg": "-"})
    for site in ("encrypt-assertion", "encrypt-signed-assertion", "encrypt-assertion:peer-lists-same-certificate-twice", "encrypt-assertion:peer-has-two-roles-with-one-certificate",
                 "encrypt-assertion:peer-lists-two-certificates"):
        for pos in ("1", "all") + (("2",) if ":" in site else ()):
            for mode in NORESULT_MODES + UNPROCESSED_MODES + DAMAGE_MODES:
                cases.append({"id": "%s-%s-%s" % (site, pos, mode), "sig": [site, "-", pos, mode], "site": site, "pos": pos, "mode": mode, "kind": "encrypt", "msg": "-"})
        for u in UNSTARTABLE:
            cases.append({"id": "%s-%s" % (site, u), "sig": [site, "-", "all", u], "site": site, "pos": "all", "mode": u, "kind": "encrypt", "msg": "-"})
    # a single attribute that travels encrypted (saml:EncryptedAttribute), alone or with a peer EncryptedKey for another recipient beside it
    for site in ("decrypt-encrypted-attribute", "decrypt-encrypted-attribute-with-peer-key"):
        for pos in ("1", "all"):
            for mode in NORESULT_MODES + DAMAGE_MODES:
                cases.append({"id": "%s-%s-%s" % (site, pos, mode), "sig": [site, "-", pos, mode], "site": site, "pos": pos, "mode": mode, "kind": "decrypt", "msg": "-"})
    for site in ("decrypt-one-key", "decrypt-second-key-right"):
        for pos in POSITIONS:
            for mode in NORESULT_MODES + DAMAGE_MODES:
                cases.append({"id": "%s-%s-%s" % (site, pos, mode), "sig": [site, "-", pos, mode], "site": site, "pos": pos, "mode": mode, "kind": "decrypt", "msg": "-"})
    # a decryption that fails at one invocation and works at a later one: what comes out of the ciphertext still needs its signature checked
    for site in ("decrypt-then-verify-assertion", "decrypt-then-verify-assertion-second-key-right", "decrypt-then-verify-several-encrypted"):
        for msg in ("valid", "tampered") + (("tampered-same-id",) if site.endswith("several-encrypted") else ()):
            for pos in POSITIONS:
                for mode in NORESULT_MODES + DAMAGE_MODES:
                    cases.append({"id": "%s-%s-%s-%s" % (site, msg, pos, mode), "sig": [site, msg, pos, mode], "site": site, "pos": pos, "mode": mode, "kind": "decrypt", "msg": msg})
        for u in UNSTARTABLE:
            cases.append({"id": "%s-%s" % (site, u), "sig": [site, "-", "all", u], "site": site, "pos": "all", "mode": u, "kind": "decrypt", "msg": "-"})
    # the tool's first runs for an entity that did not exist before the fault plan started: whatever the entity concludes from a run that told
    # it nothing (a probe of the tool, a first verification) must not decide what it accepts afterwards.  Fault kind 'any' counts every
    # invocation, the informational ones (--version, --list-transforms) included.
    fresh_modes = ["exit1_silent", "exit0_silent", "segv_before", "text_not_ok", "text_garbage", "trunc_output"] if tier == "quick" else VERIFY_MODES
    for site in ("fresh-entity:verify-response", "fresh-entity:verify-assertion"):
        for pos in (("1", "2") if tier == "quick" else ("1", "2", "3", "from2")):
            for mode in fresh_modes:
                cases.append({"id": "%s-%s-%s" % (site, pos, mode), "sig": [site, "sequence", pos, mode], "site": site, "pos": pos, "mode": mode, "kind": "any",
                              "msg": "sequence"})
    return cases


def setup_worker(ctx):
    ctx.fedcache = fed.Cache()
    ctx.nfault = 0
    # private copy of the tool for the 'not startable' plans
    ctx.private_tool = os.path.join(ctx.scratch, "private-xmlsec1")


def _entities(ctx, which, tool=None):
    """which: (wrs, was, two_enc_keys, idp_wants_signed_requests)"""
    def build():
        wrs, was, two, wreq = which
        spc = fed.sp_conf(want_response_signed=bool(wrs), want_assertions_signed=bool(was), enc_keys=((10, 2) if two else (2,)), xmlsec=tool,
                          authn_requests_signed=True)
        sp_for_md = fed.sp_conf(want_response_signed=bool(wrs), want_assertions_signed=bool(was), enc_keys=(2,), authn_requests_signed=True)
        idc = fed.idp_conf(xmlsec=tool, want_authn_requests_signed=bool(wreq))
        from saml2_tophat import BINDING_SOAP as _SOAP
        idc["service"]["aa"] = {"endpoints": {"attribute_service": [(AA_URL, _SOAP)]}, "policy": fed.DEFAULT_POLICY}
        idc["service"]["idp"]["endpoints"]["manage_name_id_service"] = [(MNI_URL, _SOAP)]
        return fed.make_sp(spc, [fed.metadata_of(idc)]), fed.make_idp(idc, [fed.metadata_of(sp_for_md)])
    return ctx.fedcache.get("ents", [list(which), tool or ""], build)


class Fault(object):
    def __init__(self, ctx, case):
        self.ctx, self.case = ctx, case

    def __enter__(self):
        c, ctx = self.case, self.ctx
        ctx.nfault += 1
        self.unstartable = c["mode"] in UNSTARTABLE
        if self.unstartable:
            t = ctx.private_tool
            if c["mode"] == "tool-missing":
                if os.path.exists(t):
                    os.unlink(t)
            elif c["mode"] == "tool-not-executable":
                os.chmod(t, 0o644)
            else:
                os.unlink(t)
                os.mkdir(t)
        else:
            state = os.path.join(ctx.scratch, "fault-state-%d" % ctx.nfault)
            os.environ["VERIF_FAULT_STATE"] = state
            os.environ["VERIF_FAULT"] = "%s:%s:%s" % (c["kind"], c["pos"], c["mode"])
        ctx.mark()
        return self

    def __exit__(self, *a):
        os.environ.pop("VERIF_FAULT", None)
        os.environ.pop("VERIF_FAULT_STATE", None)
        if self.unstartable:
            t = self.ctx.private_tool
            if os.path.isdir(t):
                os.rmdir(t)
            shutil.copy2(env.XMLSEC, t)
            os.chmod(t, 0o755)
        return False


def _tamper(xml):
    d = xk.Doc(xml)
    av = d.find(xk.SAML, "AttributeValue")
    if av:
        return d.set_text(av[0], "attacker-value").text()
    return d.set_attr(d.root, "AssertionConsumerServiceURL", "https://attacker.example.org/acs").text()


def run_case(case, ctx):
    import base64
    import zlib
    from saml2_tophat import BINDING_HTTP_POST, BINDING_HTTP_REDIRECT
    shutil.copy2(env.XMLSEC, ctx.private_tool)
    os.chmod(ctx.private_tool, 0o755)
    unstart = case["mode"] in UNSTARTABLE
    tool = ctx.private_tool if unstart else None
    site, kind = case["site"], case["kind"]
    viol = []
    ident = {"givenName": ["Ann-marker-5c1e"], "mail": ["marker-77aa@example.org"]}
    desc = "site=%s message=%s fault=%s at %s" % (site, case["msg"], GARBLED_NAME.get(case["mode"], case["mode"]), case["pos"])
    injected = 0

    def log_events():
        return [e for e in ctx.events() if not e.get("case", "").startswith("harness:")]

    if kind == "verify" and site == "verify-metadata":
        from vlib import mdgen
        from saml2_tophat import mdstore
        from saml2_tophat.attribute_converter import ac_factory
        from saml2_tophat.config import Config
        REDIR = "urn:oasis:names:tc:SAML:2.0:bindings:HTTP-Redirect"
        doc = mdgen.entities([{"eid": "https://e0.example.org/md", "idp": {"keys": [("signing", 0)], "sso": [(REDIR, "https://e0.example.org/sso")]}}], ident="md-doc-1")
        text = xk.sign_element(doc, mdgen.MD, "EntitiesDescriptor", "md-doc-1", fed.key(9)[0], "rsa-sha256", fed.cert_body(9))
        if case["msg"] == "tampered":
            text = text.replace("https://e0.example.org/sso", "https://attacker.example.net/sso")
        cnf = Config().load({"entityid": "https://loader.example.org/md", "xmlsec_binary": tool or env.XMLSEC, "key_file": fed.key(1)[0], "cert_file": fed.key(1)[1]})
        store = mdstore.MetadataStore(ac_factory(), cnf)

        class _Http(object):
            def send(self, url, *a, **kw):
                class R(object):
                    status_code = 200
                r = R()
                r.text = text
                r.content = text.encode("utf-8")
                return r
        store.http = _Http()
        with Fault(ctx, case):
            try:
                store.load("remote", url="https://md.example.org/fed.xml", cert=fed.key(9)[1])
                exc = None
            except Exception as e:
                exc = e
            evs = log_events()
        served = sorted(store.keys())
        injected = len([e for e in evs if e.get("fault")]) + (1 if unstart else 0)
        genuine = [e for e in evs if monitors.genuine_ok(e)]
        outcome = ("served" if served else "not-served") + (":" + type(exc).__name__ if exc is not None else "")
        if served and case["msg"] == "tampered":
            viol.append({"key": "C20/tampered-metadata-served-under-tool-fault", "what": desc + ": entities %r served" % served})
        elif served and not genuine:
            viol.append({"key": "C20/metadata-served-without-genuine-verification", "what": desc + ": entities %r served, verify events %r" % (
                served, [monitors.slim(e) for e in evs][:4])})
        return {"outcome": outcome, "nontrivial": injected > 0, "violations": viol,
                "counters": {"faults_injected": injected, "accepted": int(bool(served)), "genuine_ok_events": len(genuine)},
                "obs": {"events": [monitors.slim(e) for e in evs][:4]}}

    if kind == "any":
        from vlib import xmlmut as xm
        wrs, was = (1, 0) if site.endswith("verify-response") else (0, 1)
        good_sp, good_idp = _entities(ctx, (wrs, was, 0, 0), None)
        xml = fed.issue(good_idp, ident, sign_response=bool(wrs), sign_assertion=bool(was))
        tns, tlocal = (xk.SAMLP, "Response") if wrs else (xk.SAML, "Assertion")
        outsider = dict((n, t) for n, fam, t in xm.attacker_resigned(xml, tns, tlocal) if n in (
            "resigned-by-outsider:keyvalue", "resigned-by-outsider:own-certificate", "resigned-by-outsider:no-keyinfo"))
        seq = [("outsider-keyvalue", outsider["resigned-by-outsider:keyvalue"]), ("valid", xml),
               ("outsider-certificate", outsider["resigned-by-outsider:own-certificate"]), ("tampered", _tamper(xml)),
               ("outsider-keyvalue-again", outsider["resigned-by-outsider:keyvalue"]), ("valid-again", xml)]
        spc = fed.sp_conf(want_response_signed=bool(wrs), want_assertions_signed=bool(was), authn_requests_signed=True)
        idpmd = fed.metadata_of(fed.idp_conf())
        outcomes, accepted_n, genuine_n = [], 0, 0
        need = "Response" if wrs else "Assertion"
        with Fault(ctx, case):
            sp = fed.make_sp(spc, [idpmd])          # (an entity of its own: what it learns about the tool it learns under the plan)
            for name, text in seq:
                ctx.mark()
                resp, exc = fed.deliver(sp, text, dict(OUT))
                evs1 = log_events()
                injected += len([e for e in evs1 if e.get("fault")])
                gen = set(e.get("id_attr_node", "").rsplit(":", 1)[-1] for e in evs1 if monitors.genuine_ok(e))
                genuine_n += len(gen)
                outcomes.append("%s=%s" % (name, "accept" if resp is not None else "reject:" + (type(exc).__name__ if exc is not None else "None")))
                if resp is None:
                    continue
                accepted_n += 1
                if not name.startswith("valid"):
                    viol.append({"key": "C20/message-not-vouched-for-accepted-after-tool-fault",
                                 "what": desc + ": %s message accepted by an entity whose %s tool run had failed (tool events %r)" % (
                                     name, {"1": "first", "2": "second", "3": "third"}.get(case["pos"], case["pos"]), [monitors.slim(e) for e in evs1][:4])})
                elif need not in gen:
                    viol.append({"key": "C20/accepted-without-genuine-verification", "what": desc + ": %s accepted, no genuine un-faulted OK for %s (events %r)" % (
                        name, need, [monitors.slim(e) for e in evs1][:4])})
        if "valid-again=accept" not in outcomes and case["pos"] in ("1", "2", "3"):
            # (not a violation of this property - refusing is always allowed - but the sequence then showed nothing about acceptance)
            ctx_note = "valid message refused after the faulted run"
        else:
            ctx_note = ""
        return {"outcome": ",".join(outcomes), "nontrivial": injected > 0, "violations": viol,
                "counters": {"faults_injected": injected, "accepted": accepted_n, "genuine_ok_events": genuine_n, "fresh_entities_built_under_plan": 1,
                             "valid_refused_after_single_fault": int(bool(ctx_note))},
                "obs": {"sequence": outcomes}}

    if kind == "verify":
        if site == "verify-request":
            sp, idp = _entities(ctx, (1, 0, 0, 1), tool)
            good_sp, _g = _entities(ctx, (1, 0, 0, 1), None)
            rid, req = good_sp.create_authn_request(fed.SSO_POST, binding=BINDING_HTTP_POST, sign=True)
            xml = "%s" % req
            if case["msg"] == "tampered":
                xml = _tamper(xml)
            enc = base64.b64encode(xml.encode()).decode()
            with Fault(ctx, case):
                try:
                    r = idp.parse_authn_request(enc, BINDING_HTTP_POST)
                    exc = None
                except Exception as e:
                    r, exc = None, e
                evs = log_events()
            accepted = r is not None and getattr(r, "message", None) is not None
            need_levels = ["AuthnRequest"]
        elif site.startswith("verify-request:") or site == "verify-logout-response":
            # the other signed message types go through wrappers of their own in front of the same verification
            from saml2_tophat import BINDING_SOAP
            from saml2_tophat.saml import NameID, NAMEID_FORMAT_PERSISTENT
            sp, idp = _entities(ctx, (1, 0, 0, 1), tool)
            good_sp, good_idp = _entities(ctx, (1, 0, 0, 1), None)
            nid = NameID(format=NAMEID_FORMAT_PERSISTENT, text="subject-1", sp_name_qualifier=fed.SP_EID, name_qualifier=fed.IDP_EID)
            what = site.split(":", 1)[1] if ":" in site else "logout-response"
            receiver, fn = idp, None
            if what == "logout":
                rid, req = good_sp.create_logout_request(fed.SLO_IDP + "/soap", fed.IDP_EID, name_id=nid, reason="user", sign=True)
                fn, need_levels = "parse_logout_request", ["LogoutRequest"]
            elif what == "attribute-query":
                rid, req = good_sp.create_attribute_query(AA_URL, nid, attribute={"givenName": None}, sign=True)
                fn, need_levels = "parse_attribute_query", ["AttributeQuery"]
            elif what == "manage-name-id":
                from saml2_tophat.samlp import NewID
                rid, req = good_sp.create_manage_name_id_request(MNI_URL, name_id=nid, new_id=NewID(text="new-sp-id"), sign=True)
                fn, need_levels = "parse_manage_name_id_request", ["ManageNameIDRequest"]
            else:
                lr = good_sp.create_logout_request(fed.SLO_IDP + "/soap", fed.IDP_EID, name_id=nid, reason="user")[1]
                req = good_idp.create_logout_response(lr, [BINDING_SOAP], sign=True)
                receiver, fn, need_levels = sp, "parse_logout_request_response", ["LogoutResponse"]
            xml = "%s" % req       # (signed by the library itself; over SOAP only its own prefixes survive the unwrapping)
            if case["msg"] == "tampered":
                dd_ = xk.Doc(xml)
                leaf_ = [n for n in dd_.root.iter() if not n.children and dd_.inner(n).strip() and n.ns != xk.DS]
                xml = dd_.set_text(leaf_[-1], "attacker-" + dd_.inner(leaf_[-1]).decode()).text()
            body_ = xml[xml.index("?>") + 2:] if xml.startswith("<?xml") else xml
            enc = '<ns0:Envelope xmlns:ns0="http://schemas.xmlsoap.org/soap/envelope/"><ns0:Body>%s</ns0:Body></ns0:Envelope>' % body_
            with Fault(ctx, case):
                try:
                    r = getattr(receiver, fn)(enc, BINDING_SOAP)
                    exc = None
                except Exception as e:
                    r, exc = None, e
                evs = log_events()
            accepted = r is not None and (getattr(r, "message", None) is not None or getattr(r, "response", None) is not None)
        else:
            wrs, was = {"verify-response": (1, 0), "verify-assertion": (0, 1), "verify-both": (1, 1), "verify-assertion-in-encrypted": (0, 1)}[site]
            sp, idp = _entities(ctx, (wrs, was, 0, 0), tool)
            good_sp, good_idp = _entities(ctx, (wrs, was, 0, 0), None)
            xml = fed.issue(good_idp, ident, sign_response=bool(wrs) or site == "verify-both", sign_assertion=bool(was),
                            encrypt_assertion=(site == "verify-assertion-in-encrypted"))
            if case["msg"] == "tampered":
                if site == "verify-assertion-in-encrypted":
                    # tamper inside the ciphertext: rebuild from a tampered plaintext
                    plain = fed.issue(good_idp, ident, sign_response=False, sign_assertion=True)
                    xml = xk.encrypt_assertions(_tamper(plain), fed.key(2)[1])
                else:
                    xml = _tamper(xml)
            with Fault(ctx, case):
                resp, exc = fed.deliver(sp, xml, dict(OUT))
                evs = log_events()
            accepted = resp is not None
            need_levels = (["Response"] if wrs else []) + (["Assertion"] if was else [])
        injected = len([e for e in evs if e.get("fault")]) + (1 if unstart else 0)
        genuine = set(e.get("id_attr_node", "").rsplit(":", 1)[-1] for e in evs if monitors.genuine_ok(e))
        outcome = "accept" if accepted else "reject:" + (type(exc).__name__ if exc is not None else "None")
        if accepted:
            missing = [l for l in need_levels if l not in genuine]
            if case["msg"] == "tampered":
                viol.append({"key": "C20/tampered-message-accepted-under-tool-fault", "what": desc + ": " + outcome})
            elif missing:
                viol.append({"key": "C20/accepted-without-genuine-verification", "what": desc + ": accepted, no genuine un-faulted OK for %s (events %r)" % (
                    missing, [monitors.slim(e) for e in evs][:6])})
        return {"outcome": outcome, "nontrivial": injected > 0, "violations": viol,
                "counters": {"faults_injected": injected, "accepted": int(accepted), "genuine_ok_events": len([e for e in evs if monitors.genuine_ok(e)])},
                "obs": {"events": [monitors.slim(e) for e in evs][:6]}}

    if kind == "sign":
        sp, idp = _entities(ctx, (1, 0, 0, 0), tool)
        with Fault(ctx, case):
            try:
                if site == "sign-request":
                    rid, out = sp.create_authn_request(fed.SSO_POST, binding=BINDING_HTTP_POST, sign=True)
                else:
                    out = fed.issue(idp, ident, sign_response=site in ("sign-response", "sign-both"), sign_assertion=site in ("sign-assertion", "sign-both"))
                out = "%s" % out
                exc = None
            except Exception as e:
                out, exc = None, e
            evs = log_events()
        injected = len([e for e in evs if e.get("fault")]) + (1 if unstart else 0)
        outcome = "returned" if out is not None else "raised:" + type(exc).__name__
        if out is not None:
            want = {"sign-response": [(xk.SAMLP, "Response")], "sign-assertion": [(xk.SAML, "Assertion")],
                    "sign-both": [(xk.SAMLP, "Response"), (xk.SAML, "Assertion")], "sign-request": [(xk.SAMLP, "AuthnRequest")]}[site]
            problems = _signature_problems(out, want, fed.key(0)[1] if site != "sign-request" else fed.key(1)[1])
            if problems and (case["mode"] in NORESULT_MODES + UNPROCESSED_MODES or unstart) and injected:
                viol.append({"key": "C20/unsigned-message-returned-after-signing-fault", "what": desc + ": returned a message with " + "; ".join(problems)})
            elif problems:
                outcome = "returned-damaged"
        return {"outcome": outcome, "nontrivial": injected > 0, "violations": viol, "counters": {"faults_injected": injected, "returned": int(out is not None)},
                "obs": {"events": [monitors.slim(e) for e in evs][:6]}}

    if kind == "encrypt":
        sp, idp = _entities(ctx, (1, 0, 0, 0), tool)
        if ":" in site:
            # how the peer publishes its encryption certificate(s): the loop over them is where a fault may be lost
            from vlib import mdgen
            POST = "urn:oasis:names:tc:SAML:2.0:bindings:HTTP-POST"
            REDIR = "urn:oasis:names:tc:SAML:2.0:bindings:HTTP-Redirect"
            lay = site.split(":", 1)[1]
            d = {"eid": fed.SP_EID, "sp": {"keys": [("signing", 1), ("encryption", 2)], "acs": [(POST, fed.ACS_POST, 1, True)]}}
            if lay == "peer-lists-same-certificate-twice":
                d["sp"]["keys"].append(("encryption", 2))
            elif lay == "peer-has-two-roles-with-one-certificate":
                d["idp"] = {"keys": [("signing", 1), ("encryption", 2)], "sso": [(REDIR, "https://sp.example.org/proxy/sso")]}
            else:
                d["sp"]["keys"].append(("encryption", 10))
            idp = ctx.fedcache.get("idp-for", [lay, tool or ""], lambda: fed.make_idp(fed.idp_conf(xmlsec=tool), [mdgen.entity(d)]))
        with Fault(ctx, case):
            try:
                out = fed.issue(idp, ident, sign_response=False, sign_assertion=(site == "encrypt-signed-assertion"), encrypt_assertion=True)
                exc = None
            except Exception as e:
                out, exc = None, e
            evs = log_events()
        injected = len([e for e in evs if e.get("fault") and e.get("cmd") == "encrypt"]) + (1 if unstart else 0)
        outcome = "returned" if out is not None else "raised:" + type(exc).__name__
        if out is not None and injected:
            leaks = [m for m in ("Ann-marker-5c1e", "marker-77aa") if m in out]
            d = None
            try:
                d = xk.Doc(out)
            except Exception:
                pass
            cv = [c for c in d.find(xk.XENC, "CipherValue")] if d is not None else []
            empty_cv = [c for c in cv if not d.inner(c).strip()]
            plain_assertions = d.find(xk.SAML, "Assertion") if d is not None else []
            if leaks or plain_assertions:
                viol.append({"key": "C20/plaintext-assertion-returned-after-encryption-fault",
                             "what": desc + ": response returned with %d plain assertions, markers in clear %r" % (len(plain_assertions), leaks)})
            elif (not cv or empty_cv) and (case["mode"] in NORESULT_MODES + UNPROCESSED_MODES or unstart):
                viol.append({"key": "C20/unencrypted-message-returned-after-encryption-fault",
                             "what": desc + ": response returned without cipher text (%d CipherValue, %d empty)" % (len(cv), len(empty_cv))})
        return {"outcome": outcome, "nontrivial": injected > 0, "violations": viol, "counters": {"faults_injected": injected, "returned": int(out is not None)},
                "obs": {"events": [monitors.slim(e) for e in evs][:6]}}

    if kind == "decrypt":
        two = site.endswith("second-key-right")
        inner = site.startswith("decrypt-then-verify")
        which = (0, 1, int(two), 0) if inner else (1, 0, int(two), 0)
        sp, idp = _entities(ctx, which, tool)
        good_sp, good_idp = _entities(ctx, which, None)
        if inner:
            # only the assertion is signed, and it travels encrypted; "tampered" = edited after signing, then encrypted by whoever did it
            plain = fed.issue(good_idp, ident, sign_response=False, sign_assertion=True)
            if site == "decrypt-then-verify-several-encrypted":
                # one plain signed assertion and two encrypted ones: the first genuinely signed by the IdP, the second ("tampered") signed by
                # an outsider - a decryption that fails for one of them and works at a later attempt must not let the second one in unverified
                from vlib import xmlmut as xm
                d0 = xk.Doc(plain)
                a0 = d0.find(xk.SAML, "Assertion")[0]
                aid = a0.attrs["ID"]
                b = xm.evilize(d0.standalone(a0), new_id=aid + "b", keep_sig=False, tweak=False)
                c = xm.evilize(d0.standalone(a0), new_id=aid + "c", keep_sig=False)
                if case["msg"] == "tampered-same-id":
                    # the second encrypted assertion is the first one edited after signing: same ID, the genuine Signature copied along
                    t1 = xk.sign_element(d0.insert_after(a0, b).text(), xk.SAML, "Assertion", aid + "b", fed.key(0)[0], "rsa-sha256", fed.cert_body(0))
                    d1 = xk.Doc(t1)
                    b_signed = [n for n in d1.find(xk.SAML, "Assertion") if n.attrs.get("ID") == aid + "b"][0]
                    c2 = xm.evilize(d1.standalone(b_signed), new_id=None, keep_sig=True)
                    txt = d1.insert_after(b_signed, c2).text()
                else:
                    txt = d0.insert_after(a0, b + c).text()
                    txt = xk.sign_element(txt, xk.SAML, "Assertion", aid + "b", fed.key(0)[0], "rsa-sha256", fed.cert_body(0))
                    txt = xk.sign_element(txt, xk.SAML, "Assertion", aid + "c", fed.key(0 if case["msg"] == "valid" else 9)[0], "rsa-sha256",
                                          fed.cert_body(0 if case["msg"] == "valid" else 9))
                xml = xk.encrypt_assertions(xk.encrypt_assertions(txt, fed.key(2)[1], which=[2]), fed.key(2)[1], which=[1])     # A stays plain
                dchk = xk.Doc(xml)
                if len([c_ for c_ in dchk.root.children if c_.tag == (xk.SAML, "Assertion")]) != 1 or len(dchk.find(xk.SAML, "EncryptedAssertion")) != 2:
                    return {"outcome": "HARNESS-ERROR", "error": "several-encrypted message not built as intended"}
            else:
                if case["msg"] == "tampered":
                    plain = _tamper(plain)
                xml = xk.encrypt_assertions(plain, fed.key(2)[1])
        elif site.startswith("decrypt-encrypted-attribute"):
            import re as _re
            d0 = xk.Doc(fed.issue(good_idp, ident, sign_response=False, sign_assertion=False))
            att = d0.find(xk.SAML, "Attribute")[0]
            pfx = d0.prefix(att)
            ed = xk.encrypt_fragment(d0.standalone(att), fed.key(2)[1]).decode("utf-8")
            peer = ""
            if site.endswith("with-peer-key"):
                other = xk.encrypt_fragment(d0.standalone(att), fed.key(9)[1]).decode("utf-8")
                m_ = _re.search(r"<xenc:EncryptedKey>.*?</xenc:EncryptedKey>", other, _re.S)
                peer = m_.group(0).replace("<xenc:EncryptedKey>", '<xenc:EncryptedKey xmlns:xenc="%s" xmlns:ds="%s" Recipient="https://other-sp.example.net/md">' % (xk.XENC, xk.DS), 1)
            d1 = d0.replace(att, "<%s:EncryptedAttribute>%s%s</%s:EncryptedAttribute>" % (pfx, ed, peer, pfx))
            xml = xk.sign_element(d1.text(), xk.SAMLP, "Response", d1.root.attrs["ID"], fed.key(0)[0], "rsa-sha256", fed.cert_body(0))
        else:
            xml = fed.issue(good_idp, ident, sign_response=True, sign_assertion=False, encrypt_assertion=True)
        with Fault(ctx, case):
            resp, exc = fed.deliver(sp, xml, dict(OUT))
            evs = log_events()
        injected = len([e for e in evs if e.get("fault") and e.get("cmd") == "decrypt"]) + (1 if unstart else 0)
        genuine_dec = [e for e in evs if e.get("cmd") == "decrypt" and not e.get("fault") and e.get("rc") == 0 and e.get("output")]
        has_identity = False
        if resp is not None:
            i = fed.identity_of(resp)
            has_identity = bool(i.get("ava")) or bool(i.get("name_id")) or getattr(resp, "assertion", None) is not None
        outcome = ("accept+identity" if has_identity else "accept-no-identity") if resp is not None else "reject:" + (type(exc).__name__ if exc is not None else "None")
        if site == "decrypt-then-verify-several-encrypted":
            # the plain assertion may legitimately give an identity; what matters is that the outsider's content never does
            i_ = fed.identity_of(resp) if resp is not None else {}
            # (what the SP took over: the assertions it keeps - an attribute of the same name in a later assertion may hide the value in ava)
            # (the forged assertion is known by its exact ID - identifiers are random text, any suffix test hits a genuine one now and then)
            leaked = "attacker-value" in repr(i_.get("ava")) or any(str(getattr(a_, "id", "")) == aid + "c" or "attacker-value" in ("%s" % a_)
                                                                     for a_ in (getattr(resp, "assertions", None) or []))
            if leaked and case["msg"].startswith("tampered"):
                viol.append({"key": "C20/tampered-assertion-accepted-after-decryption-fault", "what": desc + ": identity %r, events %r" % (
                    i_.get("ava"), [monitors.slim(e) for e in evs][:8])})
            return {"outcome": outcome, "nontrivial": injected > 0, "violations": viol,
                    "counters": {"faults_injected": injected, "identity_yielded": int(has_identity), "genuine_decrypts": len(genuine_dec)}}
        if has_identity and not genuine_dec:
            viol.append({"key": "C20/identity-without-genuine-decryption", "what": desc + ": identity %r, decrypt events %r" % (
                fed.identity_of(resp).get("ava"), [monitors.slim(e) for e in evs if e.get("cmd") == "decrypt"])})
        if inner and has_identity:
            oks = [e for e in evs if monitors.genuine_ok(e) and e.get("id_attr_node", "").endswith(":Assertion")]
            if case["msg"] == "tampered":
                viol.append({"key": "C20/tampered-assertion-accepted-after-decryption-fault", "what": desc + ": identity %r, events %r" % (
                    fed.identity_of(resp).get("ava"), [monitors.slim(e) for e in evs][:6])})
            elif not oks:
                viol.append({"key": "C20/decrypted-assertion-accepted-without-genuine-verification", "what": desc + ": events %r" % [monitors.slim(e) for e in evs][:6]})
        never_reached = not [e for e in evs if e.get("cmd") == "decrypt"] and resp is None and site.startswith("decrypt-encrypted-attribute")
        return {"outcome": outcome, "nontrivial": injected > 0 or never_reached, "violations": viol,
                "counters": {"faults_injected": injected, "identity_yielded": int(has_identity), "genuine_decrypts": len(genuine_dec),
                             # (the library refuses this element before it ever starts the tool: nothing a tool fault could turn into acceptance)
                             "refused_before_any_tool_run": int(never_reached)},
                "obs": {"events": [monitors.slim(e) for e in evs][:6]}}


def _signature_problems(text, want, cert_file):
    probs = []
    try:
        d = xk.Doc(text)
    except Exception as exc:
        return ["unparseable text (%s)" % type(exc).__name__]
    for ns, local in want:
        els = [n for n in d.find(ns, local)]
        if not els:
            probs.append("no %s element" % local)
            continue
        el = els[0]
        sig = el.child(xk.DS, "Signature")
        if sig is None:
            probs.append("%s without Signature" % local)
            continue
        sv = sig.child(xk.DS, "SignatureValue")
        if sv is None or not d.inner(sv).strip():
            probs.append("%s with an empty SignatureValue" % local)
            continue
        if not xk.verify(text, ns, local, el.attrs.get("ID"), cert_file):
            probs.append("%s signature does not verify" % local)
    return probs


def finalize(cases, results, tier, extras):
    inc = []
    notinj = [r["id"] for r in results if r.get("outcome") != "HARNESS-ERROR" and not r.get("counters", {}).get("faults_injected")]
    # plans whose position is never reached (e.g. a second verification that the operation never makes) are legitimate no-ops
    by_site = {}
    for r in results:
        s = str(r["id"]).split("-")[0] + "-" + str(r["id"]).split("-")[1]
        by_site.setdefault(s, [0, 0, 0])
        by_site[s][0] += 1
        by_site[s][1] += int(bool(r.get("counters", {}).get("faults_injected")))
        by_site[s][2] += int(bool(r.get("counters", {}).get("refused_before_any_tool_run")))
    for s, (n, k, nr) in sorted(by_site.items()):
        if k == 0 and nr != n:
            inc.append("no fault was ever injected at site %s" % s)
    return {"inconclusive": inc, "coverage": {"plans_without_injection": len(notinj), "injections_by_site": {k: v[1] for k, v in by_site.items()},
                                              "sites_refused_before_any_tool_run": sorted(k for k, v in by_site.items() if v[2] == v[0]),
                                              "fault_modes": VERIFY_MODES + ["empty_output"] + UNSTARTABLE}}
