"""C01 - accepted signed content is exactly what its signature covers.

Workload: pristine responses from the real IdP (signed at response level, assertion
level or both; IdP's own signing or the harness toolkit with each RSA-SHA algorithm;
plain and encrypted), every SP requirement setting that requires a signature, and the
mutant families of vlib.xmlmut (edits, comments, signature games, reference games, ID
games, XSW wrapping), delivered through Saml2Client.parse_authn_request_response.

Oracles (DESIGN.md section 3/C01):
  A  provenance: an accepted mutant must report exactly the pristine identity
  B  structure, from the driver event log: every genuinely successful verification of an
     accepted case vouched for an element that directly carries exactly one Signature,
     which is the first in its subtree, with a single Reference naming the element's ID
  C  an accepted case has a genuine successful verification per required level
  D  sanity: pristine documents that meet the requirement are accepted (else inconclusive)
"""
import itertools
import random

from vlib import env, fed, xmlkit as xk, xmlmut as xm, monitors, gen

PROPERTY = "C01"
LEVEL = "exploration"
RULE = ("one execution = one mutant of a validly signed response delivered to one SP configuration; non-trivial when "
        "the mutant was accepted or rejected by the signature machinery (a SigverError subclass) rather than by an "
        "unrelated earlier check; distinct = (signing layout, algorithm, plain/encrypted, SP option setting, mutator name, "
        "target element, response-signature kept/stripped)")
ASSUMPTIONS = ["libxmlsec1/OpenSSL and tools/xmlsec1_shim.c stand in for the xmlsec1 CLI (same start-node and ID rules)",
               "the only signer is the fixture IdP (k00) and it signed exactly one document per case",
               "mutants are restricted to the operator catalogue of vlib/xmlmut.py"]

OUT = {"id-req-1": "/"}
OPTS = [o for o in itertools.product((0, 1), repeat=3) if any(o)]
ID_FIELDS = ("ava", "name_id", "assertion_id", "assertion_issuer", "conditions", "authn_info")


def gen_cases(tier, seed):
    rng = random.Random(seed)
    cases = []
    kit_algs = sorted(xk.SIG_ALGS)
    algs = ["idp", rng.choice(kit_algs)] if tier == "quick" else ["idp"] + kit_algs
    n_ident = 1 if tier == "quick" else 2
    for layout, enc, alg in itertools.product(("R", "A", "RA"), (0, 1), algs):
        for opts in OPTS:
            for k in range(n_ident):
                if tier == "quick" and alg != "idp" and (enc or opts not in ((1, 0, 0), (0, 1, 0), (0, 0, 1))):
                    continue
                cid = "%s-%s-%s-o%d%d%d-%d" % (layout, "enc" if enc else "plain", alg, opts[0], opts[1], opts[2], k)
                cases.append({"id": cid, "sig": [layout, enc, alg, list(opts)], "layout": layout, "enc": enc, "alg": alg,
                              "opts": list(opts), "pairs": tier == "thorough" and k == 0 and alg == "idp",
                              "identity": gen.identity(random.Random("%s/%s" % (seed, cid)), hostile=False)})
    # one SP object shared by threads: a forged copy of a signed response (same IDs, Signature untouched, content edited) is delivered while
    # the genuine one is being verified by another thread, yields injected inside the library
    for k in range(3 if tier == "quick" else 24):
        cases.append({"id": "threads-%d" % k, "sig": ["threads", k], "kind": "threads", "own_worker": True, "all_envs": True, "k": k, "opts": list(OPTS[k % len(OPTS)]), "layout": ["R", "A", "RA"][k % 3],
                      "rounds": 10 if tier == "quick" else 40, "identity": gen.identity(random.Random("%s/threads/%d" % (seed, k)), hostile=False)})
    return cases


def run_threads_case(case, ctx):
    from vlib import interleave
    sp, idp = _pair(ctx, case["opts"])
    R, A = "R" in case["layout"], "A" in case["layout"]
    genuine = fed.issue(idp, case["identity"], sign_response=R, sign_assertion=A)
    d = xk.Doc(genuine)
    leaf = [n for n in d.find(xk.SAML, "AttributeValue")] or d.find(xk.SAML, "NameID")
    forged = d.set_text(leaf[0], "attacker-" + d.inner(leaf[0]).decode()).text()
    r0, e0 = fed.deliver(sp, genuine, dict(OUT))
    if r0 is None:
        return {"outcome": "pristine-rejected", "nontrivial": False, "violations": [], "counters": {"threads_pristine_rejected": 1}}
    base = _identity(r0)
    seen = {"forged_accepted": [], "genuine_rejected": 0, "genuine_accepted": 0, "forged_rejected": 0}

    def genuine_loop():
        for _ in range(case["rounds"]):
            r, e = fed.deliver(sp, genuine, dict(OUT))
            if r is None:
                seen["genuine_rejected"] += 1
            else:
                seen["genuine_accepted"] += 1

    def forged_loop():
        for _ in range(case["rounds"]):
            r, e = fed.deliver(sp, forged, dict(OUT))
            if r is not None:
                seen["forged_accepted"].append(_identity(r))
            else:
                seen["forged_rejected"] += 1
    res, errs, stats = interleave.run_threads_regimes([genuine_loop, forged_loop, genuine_loop], "%s/%s" % (ctx.seed, case["id"]), timeout=600)
    viol = []
    if seen["forged_accepted"]:
        viol.append({"key": "C01/identity-from-unsigned-bytes/under-concurrency",
                     "what": "one SP shared by three threads (layout %s, opts %s): an edited copy of a signed response was accepted %d time(s) while the genuine one was being "
                             "verified by the other threads; identity reported %r" % (case["layout"], case["opts"], len(seen["forged_accepted"]), seen["forged_accepted"][0].get("ava"))})
    for e in errs:
        if e is not None:
            viol.append({"key": "C01/thread-raised", "what": repr(e)})
    return {"outcome": "violations" if viol else "held", "nontrivial": seen["forged_rejected"] > 0, "violations": viol,
            "counters": {"threads_forged_rejected": seen["forged_rejected"], "threads_genuine_accepted": seen["genuine_accepted"],
                         "threads_genuine_rejected": seen["genuine_rejected"], "yields_injected": stats["yields_injected"]},
            "sigs": [["threads", case["k"]]], "evals": 3 * case["rounds"]}


def setup_worker(ctx):
    ctx.fedcache = fed.Cache()


def _pair(ctx, opts):
    def build():
        spc = fed.sp_conf(want_response_signed=bool(opts[0]), want_assertions_signed=bool(opts[1]),
                          want_assertions_or_response_signed=bool(opts[2]))
        idc = fed.idp_conf()
        return fed.make_sp(spc, [fed.metadata_of(idc)]), fed.make_idp(idc, [fed.metadata_of(spc)])
    return ctx.fedcache.get("pair", list(opts), build)


def _identity(resp):
    i = fed.identity_of(resp)
    out = {k: i.get(k) for k in ID_FIELDS}
    s = i.get("session")
    out["session"] = {k: s.get(k) for k in ("not_on_or_after", "session_index")} if isinstance(s, dict) else s
    return out


def pristine(case, idp):
    """returns dict: final (delivered pristine), plain_a (assertion-signed plaintext without R, for
    the encrypted variants), rid, aid"""
    layout, enc, alg = case["layout"], case["enc"], case["alg"]
    R, A = "R" in layout, "A" in layout
    ident = case["identity"]
    kf = fed.key(0)[0]
    if alg == "idp" and not enc:
        xml = fed.issue(idp, ident, sign_response=R, sign_assertion=A)
        d = xk.Doc(xml)
        return {"final": xml, "plain": xml, "rid": d.root.attrs["ID"], "aid": d.find(xk.SAML, "Assertion")[0].attrs["ID"]}
    base = fed.issue(idp, ident, sign_response=False, sign_assertion=A and alg == "idp")
    d = xk.Doc(base)
    rid, aid = d.root.attrs["ID"], d.find(xk.SAML, "Assertion")[0].attrs["ID"]
    kalg = "rsa-sha1" if alg == "idp" else alg
    plain = base
    if A and alg != "idp":
        plain = xk.sign_element(plain, xk.SAML, "Assertion", aid, kf, kalg, fed.cert_body(0))
    final = plain
    if enc:
        final = xk.encrypt_assertions(final, fed.key(2)[1])
    if R:
        final = xk.sign_element(final, xk.SAMLP, "Response", rid, kf, kalg, fed.cert_body(0))
    return {"final": final, "plain": plain, "rid": rid, "aid": aid}


def _graft_signature(text, sig_bytes):
    d = xk.Doc(text)
    iss = d.root.child(xk.SAML, "Issuer")
    return (d.insert_after(iss, sig_bytes) if iss is not None else d.prepend_child(d.root, sig_bytes)).text()


def build_mutants(case, pr):
    """yields (name, family, target, rmode, text)"""
    layout, enc = case["layout"], case["enc"]
    R, A = "R" in layout, "A" in layout
    sp_cert = fed.key(2)[1]
    if not enc:
        doc = pr["final"]
        if R:
            for n, f, m in xm.mutants(doc, xk.SAMLP, "Response"):
                yield n, f, "Response", "keepR", m
        if A:
            for n, f, m in xm.mutants(doc, xk.SAML, "Assertion"):
                yield n, f, "Assertion", "keepR" if R else "noR", m
            if R:
                d = xk.Doc(doc)
                stripped = d.remove(d.root.child(xk.DS, "Signature")).text()
                for n, f, m in xm.mutants(stripped, xk.SAML, "Assertion"):
                    yield n, f, "Assertion", "stripR", m
        if R and not A:
            # unsigned assertion below a signed response: swap it, with and without the response signature
            d = xk.Doc(doc)
            a = d.find(xk.SAML, "Assertion")[0]
            evil = xm.evilize(d.standalone(a), new_id=pr["aid"] + "e")
            yield "assertion-replaced", "edit", "Assertion", "keepR", d.replace(a, evil).text()
            d2 = d.remove(d.root.child(xk.DS, "Signature"))
            a2 = d2.find(xk.SAML, "Assertion")[0]
            yield "assertion-replaced", "edit", "Assertion", "stripR", d2.replace(a2, xm.evilize(d2.standalone(a2))).text()
        # decoy: extra unsigned assertion plus a decryptable encrypted decoy to get past the one-assertion rule
        if A:
            d = xk.Doc(doc)
            if R:
                d = d.remove(d.root.child(xk.DS, "Signature"))
            a = d.find(xk.SAML, "Assertion")[0]
            evil = xm.evilize(d.standalone(a), new_id=pr["aid"] + "e", keep_sig=False)
            decoy_src = d.replace(a, xm.evilize(d.standalone(a), new_id=pr["aid"] + "d", keep_sig=False)).text()
            decoy_doc = xk.Doc(xk.encrypt_assertions(decoy_src, sp_cert))
            decoy = decoy_doc.outer(decoy_doc.find(xk.SAML, "EncryptedAssertion")[0])
            for where in ("before", "after"):
                dd = d.insert_before(a, evil) if where == "before" else d.insert_after(a, evil)
                dd = dd.append_child(dd.root, decoy_doc.standalone(decoy_doc.find(xk.SAML, "EncryptedAssertion")[0]))
                yield "extra-unsigned-assertion+encrypted-decoy:" + where, "xsw", "Assertion", "stripR" if R else "noR", dd.text()
        return
    # encrypted: operators on the plaintext, then encryption to the SP's public certificate
    plain = pr["plain"]
    stale_r = None
    if R:
        fd = xk.Doc(pr["final"])
        stale_r = fd.outer(fd.root.child(xk.DS, "Signature"))
    if A:
        src = xm.mutants(plain, xk.SAML, "Assertion")
    else:
        d = xk.Doc(plain)
        a = d.find(xk.SAML, "Assertion")[0]
        src = [("assertion-replaced", "edit", d.replace(a, xm.evilize(d.standalone(a), new_id=pr["aid"] + "e")).text())]
    # ciphertext made by somebody else: a forged assertion encrypted to the SP's public certificate and put where a decrypting pass may
    # find it although no signature check ever will - beside the genuine (signed, encrypted) assertion
    if A:
        try:
            for n, m in attacker_ciphertexts(pr, sp_cert):
                yield n, "xsw", "Assertion", "noR" if not R else "stripR", m
                if R:
                    yield n, "xsw", "Assertion", "staleR", _graft_signature(m, stale_r)
        except Exception as exc:
            yield "MUTATOR-ERROR:attacker-ciphertext:%s" % type(exc).__name__, "error", "Assertion", "-", None
    for n, f, m in src:
        if m is None:
            yield n, f, "Assertion", "-", None
            continue
        try:
            e = xk.encrypt_assertions(m, sp_cert)
        except Exception as exc:
            yield "MUTATOR-ERROR:encrypt:%s" % n, "error", "Assertion", "-", None
            continue
        yield n, f, "Assertion", "noR" if not R else "stripR", e
        if R:
            yield n, f, "Assertion", "staleR", _graft_signature(e, stale_r)


def attacker_ciphertexts(pr, sp_cert):
    """(name, document): the genuine response with its assertion encrypted, plus attacker-made EncryptedData in various wrappings/slots"""
    d = xk.Doc(pr["plain"])
    a = d.find(xk.SAML, "Assertion")[0]
    genuine = xk.encrypt_assertions(pr["plain"], sp_cert)
    forged = {"sig-kept": xm.evilize(d.standalone(a), new_id=pr["aid"] + "f"), "sig-stripped": xm.evilize(d.standalone(a), new_id=pr["aid"] + "g", keep_sig=False)}
    S = xk.SAML.encode()
    for fk, f in sorted(forged.items()):
        ea_plain = b'<saml:EncryptedAssertion xmlns:saml="' + S + b'">' + f + b"</saml:EncryptedAssertion>"
        payloads = {
            "assertion": xk.encrypt_fragment(f, sp_cert),                                     # decrypts to a bare Assertion
            "encrypted-assertion-around-plain-assertion": xk.encrypt_fragment(ea_plain, sp_cert),   # decrypts to an EncryptedAssertion holding a plain Assertion
            "twice-encrypted": xk.encrypt_fragment(b'<saml:EncryptedAssertion xmlns:saml="' + S + b'">' + xk.encrypt_fragment(f, sp_cert) + b"</saml:EncryptedAssertion>", sp_cert),
        }
        for pk, ed in sorted(payloads.items()):
            g = xk.Doc(genuine)
            gea = g.find(xk.SAML, "EncryptedAssertion")[0]
            st = g.root.child(xk.SAMLP, "Status")
            slots = {
                "bare-under-response-after": lambda: g.append_child(g.root, ed),
                "bare-under-response-before": lambda: g.insert_before(gea, ed),
                "in-extensions": lambda: g.insert_before(st, b'<samlp:Extensions xmlns:samlp="' + xk.SAMLP.encode() + b'">' + ed + b"</samlp:Extensions>"),
                "in-status-detail": lambda: g.append_child(st, b'<samlp:StatusDetail xmlns:samlp="' + xk.SAMLP.encode() + b'">' + ed + b"</samlp:StatusDetail>"),
                "second-encrypted-assertion": lambda: g.insert_after(gea, b'<saml:EncryptedAssertion xmlns:saml="' + S + b'">' + ed + b"</saml:EncryptedAssertion>"),
                "second-encrypted-data-in-genuine-encrypted-assertion": lambda: g.append_child(gea, ed),
            }
            for sk, fn in sorted(slots.items()):
                yield "attacker-ciphertext:%s:%s:%s" % (pk, sk, fk), fn().text()


def check_accept(case, name, target, rmode, text, resp, evs, base_ident, pr):
    """oracles A, B, C on one accepted mutant; returns list of violations"""
    viol = []
    opts = case["opts"]
    ident = _identity(resp)
    detail = {"mutator": name, "target": target, "rmode": rmode, "opts": opts, "layout": case["layout"],
              "enc": case["enc"], "document": text[:20000]}
    fam = name.split(":")[0]
    if ident != base_ident:
        diff = [k for k in ident if ident.get(k) != base_ident.get(k)]
        viol.append({"key": "C01/identity-from-unsigned-bytes/" + fam,
                     "what": "accepted mutant %s (target %s, %s, SP opts %s) reports identity differing from the signed one in %s: %r"
                             % (name, target, rmode, opts, diff, {k: ident.get(k) for k in diff}),
                     "detail": detail})
    oks = [e for e in evs if monitors.genuine_ok(e)]
    for e in oks:
        probs = monitors.signature_structure_problems(e["input"], e.get("id_attr_node", ""), e.get("node_id", ""),
                                                      e.get("id_attr_name") or "ID")
        if probs:
            viol.append({"key": "C01/relied-on-element-not-what-signature-digests/" + fam,
                         "what": "accepted mutant %s: verified node %s %s: %s" % (
                             name, e.get("id_attr_node", "").rsplit(":", 1)[-1], e.get("node_id"), "; ".join(probs)),
                         "detail": detail})
    levels = set(e.get("id_attr_node", "").rsplit(":", 1)[-1] for e in oks)
    need = []
    if opts[0] and "Response" not in levels:
        need.append("Response")
    if opts[1] and "Assertion" not in levels:
        need.append("Assertion")
    if opts[2] and not levels & {"Response", "Assertion"}:
        need.append("Response-or-Assertion")
    if need:
        viol.append({"key": "C01/accepted-without-genuine-verification",
                     "what": "accepted mutant %s under opts %s without a genuine successful verification of %s" % (name, opts, need),
                     "detail": detail})
    return viol


def run_case(case, ctx):
    import saml2_tophat.sigver as sv
    if case.get("kind") == "threads":
        return run_threads_case(case, ctx)
    sp, idp = _pair(ctx, case["opts"])
    lenient, _ = _pair(ctx, (0, 0, 0))
    pr = pristine(case, idp)
    r0, e0 = fed.deliver(lenient, pr["final"], dict(OUT))
    if r0 is None:
        return {"outcome": "HARNESS-ERROR", "error": "pristine document rejected by the lenient SP: %r" % (e0,)}
    base_ident = _identity(r0)
    opts = case["opts"]
    R, A = "R" in case["layout"], "A" in case["layout"]
    meets = (not opts[0] or R) and (not opts[1] or A) and (not opts[2] or R or A)
    ctx.mark()
    rp, ep = fed.deliver(sp, pr["final"], dict(OUT))
    evs = [e for e in ctx.events() if not e.get("case", "").startswith("harness:")]
    viol, counters, sigs = [], {}, []
    outcome = "pristine-accepted" if rp is not None else "pristine-rejected:" + type(ep).__name__
    if meets and rp is None:
        return {"outcome": "HARNESS-ERROR", "error": "pristine document that meets the requirement was rejected: %r" % (ep,)}
    if rp is not None:
        if not meets:
            viol.append({"key": "C01/pristine-accepted-without-required-signature",
                         "what": "layout %s accepted under opts %s" % (case["layout"], opts)})
        viol.extend(check_accept(case, "pristine", "-", "-", pr["final"], rp, evs, base_ident, pr))

    def hit(k):
        counters[k] = counters.get(k, 0) + 1

    n = 0
    samples = []
    muts = list(build_mutants(case, pr))
    if case.get("pairs"):
        # second-order mutants: every wrapping/signature mutant followed by one edit of the hidden genuine element's sibling
        rng = random.Random("%s/%s/pairs" % (ctx.seed, case["id"]))
        firsts = [m for m in muts if m[4] is not None and m[1] in ("xsw", "sig", "id")]
        for (n1, f1, t1, r1, m1) in rng.sample(firsts, min(40, len(firsts))):
            try:
                seconds = [x for x in xm.mutants(m1, xk.SAML, "Assertion", families=("sig", "ref", "id")) if x[2] is not None]
            except Exception:
                continue
            for (n2, f2, m2) in rng.sample(seconds, min(3, len(seconds))):
                muts.append((n1 + "+" + n2, f1, t1, r1, m2))
    for name, fam, target, rmode, text in muts:
        if text is None:
            hit("mutator_errors")
            continue
        n += 1
        ctx.mark()
        resp, exc = fed.deliver(sp, text, dict(OUT))
        evs = [e for e in ctx.events() if not e.get("case", "").startswith("harness:")]
        hit("verify_events_total") if any(e.get("cmd") == "verify" for e in evs) else None
        counters["verify_ok_events"] = counters.get("verify_ok_events", 0) + len([e for e in evs if monitors.genuine_ok(e)])
        sg = [case["layout"], case["enc"], case["alg"], opts, name, target, rmode]
        if resp is not None:
            hit("mutants_accepted")
            sigs.append(sg)
            v = check_accept(case, name, target, rmode, text, resp, evs, base_ident, pr)
            viol.extend(v)
            if not v:
                hit("accepted_with_signed_identity:" + fam)
        else:
            cls = type(exc).__name__ if exc is not None else "None"
            hit("rejected:" + cls)
            if isinstance(exc, sv.SigverError):
                sigs.append(sg)
        if len(samples) < 3 and n % 37 == 1:
            samples.append({"mutator": name, "target": target, "rmode": rmode,
                            "result": "accepted" if resp is not None else "rejected:" + type(exc).__name__})
    counters["mutants"] = n
    return {"outcome": outcome, "nontrivial": rp is not None, "violations": viol, "counters": counters, "sigs": sigs,
            "evals": n + 1, "obs": {"pristine_identity": base_ident, "mutant_samples": samples}}


def finalize(cases, results, tier, extras):
    inc = []
    tot = sum(r.get("counters", {}).get("mutants", 0) for r in results)
    if tot == 0:
        inc.append("no mutant was delivered")
    if not any(r.get("outcome") == "pristine-accepted" for r in results):
        inc.append("no pristine document was accepted")
    errs = sum(r.get("counters", {}).get("mutator_errors", 0) for r in results)
    if errs:
        inc.append("%d mutators failed to apply" % errs)
    return {"inconclusive": inc, "coverage": {"mutants_delivered": tot}}
