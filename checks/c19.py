"""C19 - the SP session cache returns only unexpired data of the right subject.

Reference-model monitoring of saml2_tophat.cache.Cache / population.Population (memory and
file backed) under the virtual clock: after every mutating operation of a history every
query is compared with a dictionary model (results and exception classes).
"""
import itertools
import os
import random

from vlib import env, clock, gen

PROPERTY = "C19"
LEVEL = "exploration"
RULE = ("one execution = one history of set/reset/delete/clock-advance operations on Cache (memory and file backed in lock step, "
        "directly or through Population) with all queries (get, get_identity, active, entities, subjects, stale sources) compared "
        "with a dictionary model after every step; non-trivial = at least one stored, unexpired entry was queried; distinct = "
        "distinct operation sequences")
ASSUMPTIONS = ["expiry exactly equal to now and a stored expiry of 0 on live data are not generated (unspecified, DESIGN.md C19)",
               "expiry times are ints (epoch seconds) or xs:dateTime strings, as the callers in client_base pass them"]

T0 = 1700000000
SOURCES = ["https://idp1.example.org/md", "https://idp2.example.org/md"]


def _imports():
    from saml2_tophat import cache, population
    from saml2_tophat.saml import NameID
    return cache, population, NameID


SUBJ_FIELDS = [
    ("nq", "https://sp.example.org/md", "urn:oasis:names:tc:SAML:2.0:nameid-format:persistent", None, "subject-1"),
    ("nq", "https://sp.example.org/md", "urn:oasis:names:tc:SAML:2.0:nameid-format:persistent", None, "subject-2"),
    # differ from the first in exactly one field
    ("nq", "https://sp.example.org/md", "urn:oasis:names:tc:SAML:2.0:nameid-format:transient", None, "subject-1"),
    ("nq", "https://other.example.org/md", "urn:oasis:names:tc:SAML:2.0:nameid-format:persistent", None, "subject-1"),
    ("nq2", "https://sp.example.org/md", "urn:oasis:names:tc:SAML:2.0:nameid-format:persistent", None, "subject-1"),
    ("nq", "https://sp.example.org/md", "urn:oasis:names:tc:SAML:2.0:nameid-format:persistent", "spid", "subject-1"),
    (None, None, None, None, "subject-1"),
    (None, None, None, None, "subject-1 "),
    (None, None, None, None, "4=subject-1"),
]


class Violation(Exception):
    def __init__(self, key, what):
        Exception.__init__(self, what)
        self.key, self.what = key, what


class Harness(object):
    def __init__(self, scratch, tag, counters, via_population, nsubj):
        self.cachemod, self.popmod, self.NameID = _imports()
        self.path = os.path.join(scratch, "cache-%s" % tag)
        self.mem = self.cachemod.Cache()
        self.fil = self.cachemod.Cache(self.path)
        self.via_population = via_population
        self.c = counters
        self.now = T0
        clock.set_now(self.now)
        clock.install()
        self.model = {}   # subject index -> {source: (nooa_epoch_or_0, info)}
        self.sources = list(SOURCES)
        self.compare_every = 1
        self.nops = 0
        self.nsubj = nsubj
        self.trace = []
        # a caller that writes into what a query handed to it (appends to value lists, adds keys): the cache must not hand out its own storage
        self.scribble = False

    def hit(self, k, n=1):
        self.c[k] = self.c.get(k, 0) + n

    def nid(self, i):
        f = SUBJ_FIELDS[i]
        return self.NameID(name_qualifier=f[0], sp_name_qualifier=f[1], format=f[2], sp_provided_id=f[3], text=f[4])

    def backends(self):
        out = [("memory", self.mem), ("file", self.fil)]
        if self.via_population:
            out = [(n, self.popmod.Population(c)) for n, c in out]
        return out

    def close(self):
        try:
            self.fil._db.close()
        except Exception:
            pass

    # ------------------------------------------------------------------ model
    def expired(self, nooa):
        return nooa == 0 or self.now > nooa

    def m_get(self, s, e, check):
        if s not in self.model or e not in self.model[s]:
            return ("raise", "KeyError")
        nooa, info = self.model[s][e]
        if check and self.expired(nooa):
            return ("raise", "ToOld")
        return ("value", info or None)

    def m_identity(self, s, check):
        if s not in self.model:
            return ({}, [])
        res, old = {}, []
        for e, (nooa, info) in self.model[s].items():
            if (check and self.expired(nooa)) or not info:
                old.append(e)
                continue
            for k, v in info["ava"].items():
                res.setdefault(k, set()).update(v)
        return (res, sorted(old))

    def m_active(self, s, e):
        if s not in self.model or e not in self.model[s]:
            return False
        nooa, info = self.model[s][e]
        if not info:
            return False
        return not self.expired(nooa)

    # -------------------------------------------------------------------- ops
    def apply(self, op):
        self.trace.append(list(op))
        kind = op[0]
        if kind == "tick":
            self.now += op[1]
            clock.set_now(self.now)
            self.hit("clock_advances")
        elif kind == "set":
            _, s, e, rel, spelling, ava = op
            nooa_epoch = self.now + rel
            if spelling == "int":
                nooa = nooa_epoch
            else:
                nooa = clock.iso(nooa_epoch)
            info = {"ava": {k: list(v) for k, v in ava.items()}, "name_id": self.nid(s), "not_on_or_after": nooa,
                    "session_index": "idx-%d" % len(self.trace)}
            for name, b in self.backends():
                mine = dict(info, ava={k: list(v) for k, v in ava.items()})     # what this caller hands in (and keeps a reference to)
                if self.via_population:
                    mine["issuer"] = e
                    b.add_information_about_person(mine)
                else:
                    b.set(self.nid(s), e, mine, nooa)
                if self.scribble:
                    self._scribble(mine.get("ava"))
                    self._scribble(mine)
            self.model.setdefault(s, {})[e] = (nooa_epoch, dict(info, ava={k: list(v) for k, v in ava.items()}))
            self.hit("sets")
        elif kind == "reset":
            _, s, e = op
            for name, b in self.backends():
                (b.cache if self.via_population else b).reset(self.nid(s), e)
            self.model.setdefault(s, {})[e] = (0, {})
            self.hit("resets")
        elif kind == "delete":
            _, s = op
            want = "KeyError" if s not in self.model else None
            for name, b in self.backends():
                try:
                    (b.remove_person if self.via_population else b.delete)(self.nid(s))
                    got = None
                except Exception as exc:
                    got = type(exc).__name__
                if got != want:
                    raise Violation("C19/delete-behaviour", "%s delete(subject %d): expected %s, got %s" % (name, s, want, got))
            self.model.pop(s, None)
            self.hit("deletes")
        elif kind == "snapshot":
            # what another process would find in the cache file right now (a second SP instance on the same identity_cache, or this one after
            # it died without closing): a copy of the files as they are, opened by a cache of its own.  Every operation so far has returned.
            import glob
            import shutil as _sh
            copies = []
            for f in glob.glob(self.path + "*"):
                if ".snap" in f:
                    continue
                t = f.replace(self.path, self.path + ".snap", 1)
                _sh.copy2(f, t)
                copies.append(t)
            other = None
            try:
                other = self.cachemod.Cache(self.path + ".snap")
                for s_ in range(self.nsubj):
                    w_res, w_old = self.m_identity(s_, True)
                    try:
                        g_res, g_old = other.get_identity(self.nid(s_), None, True)
                    except Exception as exc:
                        raise Violation("C19/file-content-behind-acknowledged-operations", "a second cache on a copy of the file as it is: get_identity(subject %d) raised %r" % (s_, exc))
                    self.hit("snapshot_identity_checks")
                    if {k: set(v) for k, v in g_res.items()} != w_res or sorted(g_old) != w_old:
                        raise Violation("C19/file-content-behind-acknowledged-operations",
                                        "a second cache on a copy of the file as it is answers %r / stale %r for subject %d, every operation so far having returned: model %r / %r" % (
                                            {k: sorted(v) for k, v in g_res.items()}, sorted(g_old), s_, {k: sorted(v) for k, v in w_res.items()}, w_old))
            finally:
                try:
                    if other is not None:
                        other._db.close()
                except Exception:
                    pass
                for t in copies + glob.glob(self.path + ".snap*"):
                    try:
                        os.unlink(t)
                    except OSError:
                        pass
        elif kind == "reopen":
            try:
                self.fil._db.close()
                self.fil = self.cachemod.Cache(self.path)
                self.hit("file_reopens")
            except AttributeError:
                self.hit("file_reopen_unavailable")
        self.nops += 1
        if self.nops % self.compare_every == 0:
            self.compare()

    # ---------------------------------------------------------------- compare
    def compare(self):
        subs = range(self.nsubj)
        for name, b in self.backends():
            c = b.cache if self.via_population else b
            for s in subs:
                nid = self.nid(s)
                for e in self.sources:
                    for check in (True, False):
                        want = self.m_get(s, e, check)
                        try:
                            if self.via_population:
                                v = b.get_info_from(nid, e, check)
                            else:
                                v = c.get(nid, e, check)
                            got = ("value", v)
                        except Exception as exc:
                            got = ("raise", type(exc).__name__)
                        self.hit("get_checks")
                        if want[0] == "value" and want[1]:
                            self.hit("live_entry_reads")
                        self._cmp_get(name, s, e, check, want, got)
                        if self.scribble and got[0] == "value" and isinstance(got[1], dict):
                            self._scribble(got[1])
                            self._scribble(got[1].get("ava"))
                    a_want = self.m_active(s, e)
                    try:
                        a_got = c.active(nid, e)
                    except Exception as exc:
                        a_got = "raise:" + type(exc).__name__
                    self.hit("active_checks")
                    if a_got != a_want:
                        raise Violation("C19/active-disagrees", "%s active(subject %d, %s) = %r, model %r (now=%d, entry=%r)" % (
                            name, s, e, a_got, a_want, self.now, self.model.get(s, {}).get(e)))
                for check in (True, False):
                    w_res, w_old = self.m_identity(s, check)
                    try:
                        g_res, g_old = b.get_identity(nid, None, check)
                    except Exception as exc:
                        raise Violation("C19/get_identity-raised", "%s get_identity(subject %d): %r" % (name, s, exc))
                    self.hit("identity_checks")
                    g_norm = {k: set(v) for k, v in g_res.items()}
                    if self.scribble:
                        g_snapshot = {k: list(v) for k, v in g_res.items()}
                        self._scribble(g_res)
                        g_res = g_snapshot
                    if g_norm != w_res:
                        extra = {k: sorted(g_norm.get(k, set()) - w_res.get(k, set())) for k in g_norm if g_norm.get(k, set()) - w_res.get(k, set())}
                        key = "C19/identity-contains-expired-or-foreign-data" if extra else "C19/identity-misses-valid-data"
                        if "caller-scribble" in repr(extra):
                            key = "C19/result-aliases-stored-data"
                        raise Violation(key, "%s get_identity(subject %d, check=%s) = %r, model %r (now=%d)" % (
                            name, s, check, {k: sorted(v) for k, v in g_norm.items()}, {k: sorted(v) for k, v in w_res.items()}, self.now))
                    if sorted(g_old) != w_old:
                        raise Violation("C19/stale-sources-misreported", "%s get_identity(subject %d, check=%s) stale %r, model %r" % (
                            name, s, check, sorted(g_old), w_old))
                # the same question with the sources named explicitly, in every kind of container a caller may hand over (a list, a tuple, an
                # iterator, a generator, a dict view, a filter object): the answer does not depend on the container
                if s in self.model and self.model[s]:
                    names = sorted(self.model[s].keys())
                    w_res, w_old = self.m_identity(s, True)
                    forms = {"list": lambda: list(names), "tuple": lambda: tuple(names), "iterator": lambda: iter(names), "generator": lambda: (n for n in names),
                             "dict-keys": lambda: dict.fromkeys(names).keys(), "filter": lambda: filter(None, names), "reversed": lambda: reversed(names)}
                    for fname in sorted(forms):
                        try:
                            g_res, g_old = b.get_identity(nid, forms[fname](), True)
                        except Exception as exc:
                            raise Violation("C19/get_identity-raised", "%s get_identity(subject %d, entities=<%s of its sources>): %r" % (name, s, fname, exc))
                        self.hit("identity_checks_named_sources")
                        if {k: set(v) for k, v in g_res.items()} != w_res or sorted(g_old) != w_old:
                            raise Violation("C19/answer-depends-on-the-container-of-source-names", "%s get_identity(subject %d, entities=<%s>) = (%r, stale %r), with a list the "
                                            "model says (%r, stale %r)" % (name, s, fname, {k: sorted(v) for k, v in g_res.items()}, sorted(g_old),
                                                                          {k: sorted(v) for k, v in w_res.items()}, w_old))
                # entities
                want_e = sorted(self.model[s].keys()) if s in self.model else "raise:KeyError"
                try:
                    got_e = sorted(b.sources(nid) if self.via_population else c.entities(nid))
                except Exception as exc:
                    got_e = "raise:" + type(exc).__name__
                self.hit("entities_checks")
                if got_e != want_e:
                    raise Violation("C19/entities-disagree", "%s entities(subject %d) = %r, model %r" % (name, s, got_e, want_e))
                if self.via_population and s in self.model:
                    want_stale = sorted(e for e in self.model[s] if not self.m_active(s, e))
                    got_stale = sorted(b.stale_sources_for_person(nid))
                    if got_stale != want_stale:
                        raise Violation("C19/stale-sources-misreported", "%s stale_sources_for_person(subject %d) = %r, model %r" % (
                            name, s, got_stale, want_stale))
            want_s = [tuple(x or None for x in SUBJ_FIELDS[s]) for s in self.model]
            got_s = sorted((tuple(getattr(n, a) or None for a in ("name_qualifier", "sp_name_qualifier", "format", "sp_provided_id", "text"))
                            for n in b.subjects()), key=lambda t: tuple(x or "" for x in t))
            want_s = sorted(want_s, key=lambda t: tuple(x or "" for x in t))
            self.hit("subjects_checks")
            if got_s != want_s:
                raise Violation("C19/subjects-disagree", "%s subjects() = %r, model %r" % (name, got_s, want_s))

    def _scribble(self, d):
        if not isinstance(d, dict):
            return
        for k, v in list(d.items()):
            if isinstance(v, list):
                v.append("caller-scribble")
        d["caller-scribble-key"] = ["caller-scribble"]
        self.hit("results_scribbled_on")

    def _cmp_get(self, name, s, e, check, want, got):
        if want[0] == "raise":
            if got != want:
                key = "C19/expired-data-returned" if want[1] == "ToOld" and got[0] == "value" else "C19/get-behaviour"
                raise Violation(key, "%s get(subject %d, %s, check=%s): expected %s, got %r (now=%d entry=%r)" % (
                    name, s, e, check, want[1], got, self.now, self.model.get(s, {}).get(e)))
            return
        if got[0] == "raise":
            raise Violation("C19/valid-data-refused", "%s get(subject %d, %s, check=%s) raised %s, model has %r (now=%d)" % (
                name, s, e, check, got[1], want[1] and want[1].get("ava"), self.now))
        w, g = want[1], got[1]
        if w is None:
            if g:
                raise Violation("C19/reset-source-returns-data", "%s get(subject %d, %s) = %r after reset" % (name, s, e, g))
            return
        if not g or g.get("ava") != w["ava"] or g.get("session_index") != w["session_index"]:
            raise Violation("C19/result-aliases-stored-data" if "caller-scribble" in repr(g) else "C19/wrong-data-returned",
                            "%s get(subject %d, %s) = %r, model ava %r" % (name, s, e, g and g.get("ava"), w["ava"]))
        nid = g.get("name_id")
        f = tuple(getattr(nid, a, None) or None for a in ("name_qualifier", "sp_name_qualifier", "format", "sp_provided_id", "text"))
        if f != tuple(x or None for x in SUBJ_FIELDS[s]):
            raise Violation("C19/data-of-another-subject", "%s get(subject %d, %s) carries name_id %r" % (name, s, e, f))


def ops_alphabet(nsubj, avas):
    ops = []
    for s in range(nsubj):
        for ei, e in enumerate(SOURCES):
            for rel in (-100, 100):
                ops.append(("set", s, e, rel, "int", avas[(s + ei) % len(avas)]))
            ops.append(("reset", s, e))
        ops.append(("delete", s))
    ops.append(("tick", 150))
    return ops


AVAS = [{"givenName": ["Ann"], "mail": ["ann@example.org"]}, {"givenName": ["Bob"], "sn": ["B"]},
        {"mail": ["ann@example.org", "a2@example.org"], "uid": ["u3"]}]


def gen_cases(tier, seed):
    cases = []
    depth = 3 if tier == "quick" else 4
    first = ops_alphabet(2, AVAS)
    for i, op in enumerate(first):
        for pop in (0, 1):
            if pop and tier == "quick" and i % 2:
                continue
            cases.append({"id": "exhaustive-d%d-first%02d-%s" % (depth, i, "population" if pop else "cache"), "kind": "exhaustive",
                          "sig": ["exhaustive", depth, i, pop], "first": i, "depth": depth, "pop": pop})
    for k in range(16 if tier == "quick" else 64):
        cases.append({"id": "random-%d" % k, "kind": "random", "sig": ["random", k], "k": k, "len": 120 if tier == "quick" else 1200,
                      "pop": k % 2, "nsubj": len(SUBJ_FIELDS)})
    for k in range(6 if tier == "quick" else 32):
        cases.append({"id": "random-caller-writes-into-results-%d" % k, "kind": "random", "sig": ["random-scribble", k], "k": 500 + k, "len": 120 if tier == "quick" else 1200,
                      "pop": k % 2, "nsubj": len(SUBJ_FIELDS), "scribble": 1})
    # the same under process time zones other than UTC (expiry instants are UTC epochs / UTC strings: the zone must not matter)
    for zi, tz in enumerate(clock.ZONES[1:]):
        for k in range(2 if tier == "quick" else 8):
            cases.append({"id": "random-tz%s-%d" % (tz, k), "kind": "random", "sig": ["random-tz", tz, k], "k": 1000 + 10 * zi + k, "len": 120 if tier == "quick" else 1200,
                          "pop": k % 2, "nsubj": len(SUBJ_FIELDS), "tz": tz})
        for i in (range(0, len(first), 5) if tier == "quick" else range(len(first))):
            cases.append({"id": "exhaustive-d%d-first%02d-tz%s" % (depth - 1, i, tz), "kind": "exhaustive", "sig": ["exhaustive-tz", tz, depth - 1, i], "first": i,
                          "depth": depth - 1, "pop": i % 2, "tz": tz})
    # scale: one subject known to many sources (attribute authorities of a virtual organisation), part of them expired or reset, and
    # further stores from sources not seen before
    for n in ((12, 40, 130) if tier == "quick" else (12, 31, 32, 33, 40, 64, 130, 400)):
        for pop in (0, 1):
            cases.append({"id": "many-sources-%d-%s" % (n, "population" if pop else "cache"), "kind": "scale", "sig": ["many-sources", n, pop], "n": n, "pop": pop})
    # several threads storing for the same subject at once (a multi-threaded SP: assertion consumer and attribute-authority answers), yields
    # injected inside the library; the operations commute (different sources), so the end state is known
    for k in range(4 if tier == "quick" else 40):
        for pop in (0, 1):
            cases.append({"id": "threads-%d-%s" % (k, "population" if pop else "cache"), "kind": "threads", "own_worker": True, "all_envs": True, "sig": ["threads", k, pop], "k": k, "pop": pop,
                          "threads": 2 + k % 3, "per_thread": 12 if tier == "quick" else 60})
    return cases


def run_threads_case(case, ctx):
    from vlib import interleave
    counters, viols = {}, []
    h = Harness(ctx.scratch, case["id"], counters, case["pop"], 2)
    n, m = case["threads"], case["per_thread"]
    h.sources = ["https://bystander-source.example.org/aa"]
    h.compare_every = 10 ** 9
    try:
        h.apply(("set", 1, h.sources[0], 500, "int", {"role": ["bystander"]}))          # another subject that must stay as it is
        h.apply(("set", 0, "https://first.example.org/aa", 1000, "int", {"role": ["first"]}))   # the subject's record exists before the threads start
        h.sources.append("https://first.example.org/aa")
        # memory-backed only: the file-backed cache sits on shelve/dbm, which documents that it does not support concurrent access, and the
        # property speaks of operation sequences - what is checked here is that one thread's store does not undo another's in the cache's own code
        mem_only = [(n_, b_) for n_, b_ in h.backends() if n_ == "memory"]
        h.backends = lambda: mem_only

        gens = [0] * n
        stored = [[] for _ in range(n)]

        def worker(t):
            def run():
                # (every injection regime calls this again: new sources each time, so that a later pass cannot put back what an earlier one lost)
                g = gens[t]
                gens[t] += 1
                for i in range(m):
                    e = "https://t%d-g%d-aa%02d.example.org/aa" % (t, g, i)
                    stored[t].append((e, "r-%d-%d-%d" % (t, g, i), "idx-%d-%d-%d" % (t, g, i)))
                    info = {"ava": {"role": ["r-%d-%d-%d" % (t, g, i)]}, "name_id": h.nid(0), "not_on_or_after": h.now + 1000, "session_index": "idx-%d-%d-%d" % (t, g, i)}
                    for name, b in h.backends():
                        if h.via_population:
                            si = dict(info)
                            si["issuer"] = e
                            b.add_information_about_person(si)
                        else:
                            b.set(h.nid(0), e, info, info["not_on_or_after"])
            return run
        res, errs, stats = interleave.run_threads_regimes([worker(t) for t in range(n)], "%s/%s" % (ctx.seed, case["id"]))
        counters["yields_injected"] = stats["yields_injected"]
        counters["concurrent_sets"] = n * m
        for e in errs:
            if e is not None:
                viols.append({"key": "C19/concurrent-store-raised", "what": "%d threads storing for one subject: %r" % (n, e)})
        h.sources = [h.sources[0], "https://first.example.org/aa"] + [e for t in range(n) for (e, r_, x_) in stored[t]]
        counters["concurrent_sets"] = sum(len(x) for x in stored)
        for t in range(n):
            for (e, role, idx) in stored[t]:
                h.model.setdefault(0, {})[e] = (h.now + 1000, {"ava": {"role": [role]}, "name_id": h.nid(0), "not_on_or_after": h.now + 1000, "session_index": idx})
        if not viols:
            h.compare()
    except Violation as v:
        viols.append({"key": v.key, "what": "[%d threads stored for one subject at once] %s" % (n, v.what)})
    finally:
        h.close()
        _rm(h.path)
    return {"outcome": "violations" if viols else "held", "nontrivial": True, "violations": viols[:3], "counters": counters, "sigs": [["threads", case["k"], case["pop"]]],
            "evals": n * m}


def run_scale(case, ctx):
    counters, viols = {}, []
    rng = random.Random("%s/%s" % (ctx.seed, case["id"]))
    n = case["n"]
    h = Harness(ctx.scratch, case["id"], counters, case["pop"], 2)
    h.sources = ["https://aa%03d.example.org/aa" % i for i in range(n + 8)]
    h.compare_every = max(1, n // 6)
    try:
        for i, e in enumerate(h.sources[:n]):
            h.apply(("set", 0, e, rng.choice([-3000, -2, 100, 3000]), "int", {"role": ["r%d" % i], "mail": ["m%d@example.org" % (i % 3)]}))
            if i % 5 == 3:
                h.apply(("reset", 0, e))
            if i % 7 == 0:
                h.apply(("set", 1, e, 500, "int", {"role": ["other-%d" % i]}))
        h.apply(("tick", 150))
        for e in h.sources[n:]:            # sources not seen before
            h.apply(("set", 0, e, 1000, "int", {"role": ["late"]}))
            h.compare()
        h.apply(("tick", 5000))
        h.compare()
        h.apply(("reopen",))
        h.compare()
    except Violation as v:
        viols.append({"key": v.key, "what": "[%d sources for one subject] %s" % (n, v.what), "detail": {"history_length": len(h.trace)}})
    finally:
        h.close()
        _rm(h.path)
    return {"outcome": "violations" if viols else "held", "nontrivial": True, "violations": viols, "counters": counters, "sigs": [["many-sources", n, case["pop"]]],
            "evals": counters.get("sets", 0)}


def run_case(case, ctx):
    with clock.process_tz(case.get("tz")):
        r = _run_case(case, ctx)
    if case.get("tz"):
        for v in r.get("violations", []):
            v.setdefault("detail", {})["process_time_zone"] = case["tz"]
        r.setdefault("counters", {})["cases_under_non_utc_zone"] = 1
        r["sigs"] = [[case["tz"]] + list(s) for s in r.get("sigs", [])] if "sigs" in r else r.get("sigs")
        if r["sigs"] is None:
            del r["sigs"]
    return r


def _run_case(case, ctx):
    if case["kind"] == "scale":
        return run_scale(case, ctx)
    if case["kind"] == "threads":
        return run_threads_case(case, ctx)
    counters, viols, sigs = {}, [], []
    rng = random.Random("%s/%s" % (ctx.seed, case["id"]))
    if case["kind"] == "exhaustive":
        alpha = ops_alphabet(2, AVAS)
        first = alpha[case["first"]]
        n = 0
        for tail in itertools.product(range(len(alpha)), repeat=case["depth"] - 1):
            seq = [first] + [alpha[i] for i in tail]
            h = Harness(ctx.scratch, "%s-%d" % (case["id"], n % 4), counters, case["pop"], 2)
            try:
                h.compare()
                for op in seq:
                    h.apply(op)
            except Violation as v:
                viols.append({"key": v.key, "what": v.what, "detail": {"history": h.trace, "backend_order": ["memory", "file"]}})
            finally:
                h.close()
                _rm(h.path)
            n += 1
            if len(viols) >= 5:
                break
        counters["histories"] = n
        sigs.extend([["exhaustive", case["pop"], case["first"]] + list(t) for t in itertools.product(range(len(alpha)), repeat=case["depth"] - 1)][:n])
    else:
        h = Harness(ctx.scratch, case["id"], counters, case["pop"], case["nsubj"])
        h.scribble = bool(case.get("scribble"))
        try:
            for i in range(case["len"]):
                r = rng.random()
                if r < 0.55:
                    rel = rng.choice([-3000, -100, -2, 2, 100, 3000])
                    ava = gen.identity(rng, hostile=True, lo=1, hi=3)
                    op = ("set", rng.randrange(case["nsubj"]), rng.choice(SOURCES), rel, rng.choice(["int", "int", "iso"]), ava)
                elif r < 0.65:
                    op = ("reset", rng.randrange(case["nsubj"]), rng.choice(SOURCES))
                elif r < 0.75:
                    op = ("delete", rng.randrange(case["nsubj"]))
                elif r < 0.87:
                    op = ("tick", rng.choice([1, 3, 50, 150, 5000]))
                elif r < 0.94:
                    op = ("snapshot",)
                else:
                    op = ("reopen",)
                # never place an expiry exactly at "now" (unspecified)
                h.apply(op)
            counters["histories"] = 1
            sigs.append(case["sig"])
        except Violation as v:
            viols.append({"key": v.key, "what": v.what, "detail": {"history": h.trace[-10:]}})
        finally:
            h.close()
            _rm(h.path)
    clock.set_now(None)
    return {"outcome": "violations" if viols else "held", "nontrivial": counters.get("live_entry_reads", 0) > 0, "violations": viols[:5],
            "counters": counters, "sigs": sigs, "evals": max(1, counters.get("histories", 0)), "obs": {"kind": case["kind"]}}


def _rm(path):
    import glob
    for p in glob.glob(path + "*"):
        try:
            os.unlink(p)
        except OSError:
            pass


def finalize(cases, results, tier, extras):
    tot = {}
    for r in results:
        for k, v in r.get("counters", {}).items():
            tot[k] = tot.get(k, 0) + v
    inc = []
    for need in ("live_entry_reads", "identity_checks", "clock_advances", "file_reopens"):
        if not tot.get(need):
            inc.append("monitor counter %s is zero" % need)
    ex = [r for r in results if str(r.get("id", "")).startswith("exhaustive")]
    return {"inconclusive": inc, "coverage": {"exhaustive": False,
            "exhaustive_part": "every operation sequence of length %s over 2 subjects x 2 sources x expiry {past,future} + reset/delete/clock advance, for Cache (all first operations) and Population" % (
                next((c["depth"] for c in cases if "depth" in c), "?")),
            "exhaustive_histories": sum(r.get("counters", {}).get("histories", 0) for r in ex)}}
