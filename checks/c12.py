"""C12 - schema element objects survive serialise/parse without loss.

For every element class of every schema module: generated instance trees (every declared
attribute and child exercised, list cardinalities 1..3, depth-bounded recursion, hostile
text, foreign children/attributes) are serialised, parsed back with the library and
compared with an independent structural comparator; the second serialisation must be
byte-identical; an independent parse of the text must show children in table order and
the foreign content present.
"""
import random

from vlib import env, schema, gen

PROPERTY = "C12"
LEVEL = "exploration"
RULE = ("one execution = one generated instance tree of one element class serialised with to_string(), parsed back with "
        "create_class_from_xml_string (and the module's *_from_string when the tag maps to the class), compared structurally, "
        "re-serialised and parsed independently with the stdlib; non-trivial = the instance carried at least one attribute, "
        "child, text or foreign item and both serialisation and parsing completed; distinct = (module, class, shape index)")
ASSUMPTIONS = ["the class tables (c_children, c_attributes, c_child_order) are the reference for what an instance may carry",
               "typed AttributeValue conversions (xsi:type) are exercised by C08, not here"]


def gen_cases(tier, seed):
    env.assert_repo_is_source()
    cases = []
    shapes = 4 if tier == "quick" else 160
    for mod, cls in schema.all_classes():
        cases.append({"id": "%s.%s" % (mod.__name__, cls.__name__), "sig": [mod.__name__, cls.__name__],
                      "module": mod.__name__, "cls": cls.__name__, "shapes": shapes})
    # (after-refused-documents: the same sweep in a thread that has seen a number of documents the typed parser refuses half way through)
    for order in ["forward", "reverse", "bases-first", "derived-first", "after-refused-documents"] + ["shuffled-%d" % k for k in range(2 if tier == "quick" else 12)]:
        cases.append({"id": "sweep-%s" % order, "sig": ["sweep", order], "kind": "sweep", "order": order})
    return cases


SAML_NS = "urn:oasis:names:tc:SAML:2.0:assertion"
SAMLP_NS = "urn:oasis:names:tc:SAML:2.0:protocol"
MD_NS = "urn:oasis:names:tc:SAML:2.0:metadata"
DS_NS = "http://www.w3.org/2000/09/xmldsig#"
XENC_NS = "http://www.w3.org/2001/04/xmlenc#"
_ID = ["BaseID", "NameID", "EncryptedID"]
_REQ = ["Issuer", "Signature", "Extensions"]
_ROLE = ["Signature", "Extensions", "KeyDescriptor", "Organization", "ContactPerson"]
_SSO = _ROLE + ["ArtifactResolutionService", "SingleLogoutService", "ManageNameIDService", "NameIDFormat"]
# Sequence order of the schemas themselves (saml-schema-assertion-2.0, saml-schema-protocol-2.0, saml-schema-metadata-2.0,
# xmldsig-core-schema, xenc-schema), written down independently of the class tables: child local names in xs:sequence order.
SPEC_ORDER = {
    (SAML_NS, "Assertion"): ["Issuer", "Signature", "Subject", "Conditions", "Advice"],
    (SAML_NS, "Subject"): _ID + ["SubjectConfirmation"],
    (SAML_NS, "SubjectConfirmation"): _ID + ["SubjectConfirmationData"],
    (SAML_NS, "AuthnStatement"): ["SubjectLocality", "AuthnContext"],
    (SAML_NS, "AuthnContext"): ["AuthnContextClassRef", "AuthnContextDecl", "AuthenticatingAuthority"],
    (SAML_NS, "AuthzDecisionStatement"): ["Action", "Evidence"],
    (SAML_NS, "EncryptedAssertion"): ["EncryptedData", "EncryptedKey"],
    (SAMLP_NS, "AuthnRequest"): _REQ + ["Subject", "NameIDPolicy", "Conditions", "RequestedAuthnContext", "Scoping"],
    (SAMLP_NS, "Response"): _REQ + ["Status"],
    (SAMLP_NS, "LogoutResponse"): _REQ + ["Status"],
    (SAMLP_NS, "Status"): ["StatusCode", "StatusMessage", "StatusDetail"],
    (SAMLP_NS, "LogoutRequest"): _REQ + _ID[:1] + ["SessionIndex"],
    (SAMLP_NS, "AttributeQuery"): _REQ + ["Subject", "Attribute"],
    (SAMLP_NS, "AuthnQuery"): _REQ + ["Subject", "RequestedAuthnContext"],
    (SAMLP_NS, "ArtifactResolve"): _REQ + ["Artifact"],
    (SAMLP_NS, "ManageNameIDRequest"): _REQ + ["NameID", "NewID"],
    (SAMLP_NS, "NameIDMappingRequest"): _REQ + ["NameID", "NameIDPolicy"],
    (SAMLP_NS, "Scoping"): ["IDPList", "RequesterID"],
    (SAMLP_NS, "IDPList"): ["IDPEntry", "GetComplete"],
    (MD_NS, "EntitiesDescriptor"): ["Signature", "Extensions"],
    (MD_NS, "EntityDescriptor"): ["Signature", "Extensions", "IDPSSODescriptor", "Organization", "ContactPerson", "AdditionalMetadataLocation"],
    (MD_NS, "IDPSSODescriptor"): _SSO + ["SingleSignOnService", "NameIDMappingService", "AssertionIDRequestService", "AttributeProfile", "Attribute"],
    (MD_NS, "SPSSODescriptor"): _SSO + ["AssertionConsumerService", "AttributeConsumingService"],
    (MD_NS, "AttributeAuthorityDescriptor"): _ROLE + ["AttributeService", "AssertionIDRequestService", "NameIDFormat", "AttributeProfile", "Attribute"],
    (MD_NS, "KeyDescriptor"): ["KeyInfo", "EncryptionMethod"],
    (MD_NS, "Organization"): ["Extensions", "OrganizationName", "OrganizationDisplayName", "OrganizationURL"],
    (MD_NS, "ContactPerson"): ["Extensions", "Company", "GivenName", "SurName", "EmailAddress", "TelephoneNumber"],
    (MD_NS, "AttributeConsumingService"): ["ServiceName", "ServiceDescription", "RequestedAttribute"],
    (DS_NS, "Signature"): ["SignedInfo", "SignatureValue", "KeyInfo", "Object"],
    (DS_NS, "SignedInfo"): ["CanonicalizationMethod", "SignatureMethod", "Reference"],
    (DS_NS, "Reference"): ["Transforms", "DigestMethod", "DigestValue"],
    (DS_NS, "X509IssuerSerial"): ["X509IssuerName", "X509SerialNumber"],
    (DS_NS, "RSAKeyValue"): ["Modulus", "Exponent"],
    (XENC_NS, "EncryptedData"): ["EncryptionMethod", "KeyInfo", "CipherData", "EncryptionProperties"],
    (XENC_NS, "EncryptedKey"): ["EncryptionMethod", "KeyInfo", "CipherData", "EncryptionProperties", "ReferenceList", "CarriedKeyName"],
}


def _spec_order_problems(root, problems, counter):
    for e in root.iter():
        if not e.tag.startswith("{"):
            continue
        ns, local = e.tag[1:].split("}")
        order = SPEC_ORDER.get((ns, local))
        if not order:
            continue
        # (a child counts as the schema's own only in one of the schemas' namespaces: a foreign element that merely shares a local name is
        #  extension content and comes last)
        seq = [c.tag.split("}")[-1] for c in e if c.tag.split("}")[-1] in order and c.tag[1:].split("}")[0] in (SAML_NS, SAMLP_NS, MD_NS, DS_NS, XENC_NS)]
        idx = [order.index(x) for x in seq]
        counter[0] += 1
        if idx != sorted(idx):
            problems.append("%s: children emitted as %r, schema sequence is %r" % (local, seq, order))


def _expected_child_tags(obj):
    from saml2_tophat import ExtensionElement
    tags = []
    for member in schema.members_in_order(obj.__class__):
        v = getattr(obj, member, None)
        if v is None:
            continue
        for x in (v if isinstance(v, list) else [v]):
            tags.append("{%s}%s" % (x.c_namespace, x.c_tag))
    for e in obj.extension_elements or []:
        tags.append("{%s}%s" % (e.namespace, e.tag) if e.namespace else e.tag)
    return tags


def _walk_order(obj, elem, path, problems):
    from saml2_tophat import ExtensionElement
    if isinstance(obj, ExtensionElement):
        return
    want = _expected_child_tags(obj)
    got = [c.tag for c in elem]
    if want != got:
        problems.append("%s: emitted child order %r, table order gives %r" % (path, got, want))
        return
    kids = []
    for member in schema.members_in_order(obj.__class__):
        v = getattr(obj, member, None)
        if v is None:
            continue
        kids.extend(v if isinstance(v, list) else [v])
    for k, e in zip(kids, list(elem)):
        _walk_order(k, e, path + "/" + k.c_tag, problems)


def classify(cls, x, y, diff):
    """mechanism key for a round-trip mismatch"""
    # a declared child that came back as extension content
    try:
        for tag, member, ccls, is_list in schema.child_specs(cls):
            if ccls is None or not isinstance(ccls, type):
                continue
            real = "{%s}%s" % (ccls.c_namespace, ccls.c_tag)
            if real != tag and getattr(x, member, None):
                return "C12/child-table-key-differs-from-child-class-tag"
    except Exception:
        pass
    return "C12/roundtrip-mismatch"


def run_case(case, ctx):
    import importlib
    # every schema module loaded first, as in any process that uses the library (saml2_tophat.saml pulls in xmldsig and xmlenc, and xmlenc
    # completes xmldsig's KeyInfo table when it is imported): what a class table holds must not depend on which case a worker meets first
    schema.schema_modules()
    if case.get("kind") == "sweep":
        # all classes in one process in a given order: class-level state shared through inheritance (caches, tables patched at import) must not
        # make the result depend on what was serialised before
        pairs = schema.all_classes()
        order = list(range(len(pairs)))
        if case["order"] == "reverse":
            order.reverse()
        elif case["order"].startswith("shuffled"):
            random.Random("%s/%s" % (ctx.seed, case["id"])).shuffle(order)
        elif case["order"] == "bases-first":
            order.sort(key=lambda i: (len(pairs[i][1].__mro__), i))
        elif case["order"] == "derived-first":
            order.sort(key=lambda i: (-len(pairs[i][1].__mro__), i))
        viol, counters, sigs = [], {}, []
        if case["order"] == "after-refused-documents":
            _feed_refused(counters)
            _deep_instances(viol, counters)
        for i in order:
            mod, cls = pairs[i]
            sub = {"id": "%s.%s" % (mod.__name__, cls.__name__), "module": mod.__name__, "cls": cls.__name__, "shapes": 1}
            r = check_class(sub, ctx, "%s/%s" % (case["order"], sub["id"]))
            for v in r["violations"]:
                v = dict(v)
                v["what"] = "[sweep order %s] %s" % (case["order"], v["what"])
                viol.append(v)
            for k, n in r["counters"].items():
                counters[k] = counters.get(k, 0) + n
            sigs.extend([["sweep", case["order"]] + sg for sg in r.get("sigs", [])])
        uniq = {}
        for v in viol:
            uniq.setdefault(v["key"] + v["what"][:90], v)
        return {"outcome": "violations" if viol else "roundtrip-ok", "nontrivial": bool(sigs), "violations": list(uniq.values())[:12], "counters": counters,
                "sigs": sigs, "evals": counters.get("roundtrips", 0), "obs": {"order": case["order"], "classes": len(order)}}
    return check_class(case, ctx, case["id"])


def _feed_refused(counters):
    """documents the typed parser gives up on somewhere below the root (a child that may occur once occurs twice, at several depths; a typed
    AttributeValue whose text is not of its type): what such a refusal leaves behind in the thread must not matter to what is parsed next"""
    import saml2_tophat
    from saml2_tophat import samlp, saml
    P, A = 'xmlns:samlp="%s" xmlns:saml="%s" xmlns:xs="http://www.w3.org/2001/XMLSchema" xmlns:xsi="http://www.w3.org/2001/XMLSchema-instance"' % (SAMLP_NS, SAML_NS), 'Version="2.0" IssueInstant="2020-01-01T00:00:00Z"'
    subj = '<saml:Subject><saml:NameID>a</saml:NameID></saml:Subject>'
    docs = [
        (samlp.Response, '<samlp:Response %s ID="r" %s><samlp:Status><samlp:StatusCode Value="x"/></samlp:Status><samlp:Status><samlp:StatusCode Value="y"/></samlp:Status></samlp:Response>' % (P, A)),
        (samlp.Response, '<samlp:Response %s ID="r" %s><saml:Assertion ID="a" %s><saml:Issuer>i</saml:Issuer>%s%s</saml:Assertion></samlp:Response>' % (P, A, A, subj, subj)),
        (samlp.Response, '<samlp:Response %s ID="r" %s><saml:Assertion ID="a" %s><saml:Issuer>i</saml:Issuer><saml:Advice><saml:Assertion ID="b" %s><saml:Issuer>i</saml:Issuer>%s%s</saml:Assertion></saml:Advice></saml:Assertion></samlp:Response>' % (P, A, A, A, subj, subj)),
        (saml.Assertion, '<saml:Assertion %s ID="a" %s><saml:Issuer>i</saml:Issuer><saml:AttributeStatement><saml:Attribute Name="n"><saml:AttributeValue xsi:type="xs:boolean">maybe</saml:AttributeValue></saml:Attribute></saml:AttributeStatement></saml:Assertion>' % (P, A)),
        (saml.Assertion, '<saml:Assertion %s ID="a" %s><saml:Issuer>i</saml:Issuer><saml:AttributeStatement><saml:Attribute Name="n"><saml:AttributeValue xsi:type="xs:integer">one</saml:AttributeValue></saml:Attribute></saml:AttributeStatement></saml:Assertion>' % (P, A)),
        (samlp.AuthnRequest, '<samlp:AuthnRequest %s ID="q" %s><saml:Issuer>i</saml:Issuer><saml:Issuer>j</saml:Issuer></samlp:AuthnRequest>' % (P, A)),
    ]
    for k in range(10):
        for cls, text in docs:
            try:
                r = saml2_tophat.create_class_from_xml_string(cls, text)
                counters["refusal_candidates_parsed:" + cls.__name__] = counters.get("refusal_candidates_parsed:" + cls.__name__, 0) + int(r is not None)
            except Exception:
                counters["refused_documents_fed"] = counters.get("refused_documents_fed", 0) + 1


def _deep_instances(viol, counters):
    """instances nested far deeper than everyday messages (a chain of StatusCodes, Advice inside Advice): nothing in the property bounds depth"""
    import saml2_tophat
    from saml2_tophat import samlp, saml
    for depth in (20, 70, 150):
        sc = samlp.StatusCode(value="urn:x:level-%d" % depth)
        for i in range(depth - 1, 0, -1):
            sc = samlp.StatusCode(value="urn:x:level-%d" % i, status_code=sc)
        inst = samlp.Status(status_code=sc)
        counters["deep_instances"] = counters.get("deep_instances", 0) + 1
        try:
            text = inst.to_string()
            back = saml2_tophat.create_class_from_xml_string(samlp.Status, text)
            n, cur = 0, back.status_code if back is not None else None
            while cur is not None:
                n, cur = n + 1, cur.status_code
            if n != depth or back.to_string() != text:
                viol.append({"key": "C12/roundtrip-differs:deep-nesting", "what": "a chain of %d nested StatusCodes comes back %d deep" % (depth, n)})
        except Exception as exc:
            viol.append({"key": "C12/parse-of-own-output-raised:" + type(exc).__name__, "what": "a chain of %d nested StatusCodes: %r" % (depth, exc)})


def check_class(case, ctx, rng_key):
    import importlib
    import saml2_tophat
    mod = importlib.import_module(case["module"])
    cls = getattr(mod, case["cls"])
    rng = random.Random("%s/%s" % (ctx.seed, rng_key))
    viol, counters, sigs = [], {}, []

    def hit(k, n=1):
        counters[k] = counters.get(k, 0) + n

    # table sanity that makes instances unbuildable: a None placeholder as child class
    for tag, member, ccls, is_list in schema.child_specs(cls):
        if ccls is None:
            viol.append({"key": "C12/child-class-placeholder-none",
                         "what": "%s.c_children[%r] = (%r, None): a child with this tag cannot be parsed or built" % (case["id"], tag, member)})
    n = 0
    for shape in range(case["shapes"]):
        depth = [1, 2, 2, 3][shape % 4]
        fill = [1.0, 0.6, 0.9, 0.5][shape % 4]
        foreign = [0.0, 0.0, 0.5, 0.3][shape % 4]
        stats = {}
        try:
            x = schema.make_instance(cls, rng, depth, fill, foreign, stats)
        except Exception as exc:
            viol.append({"key": "C12/instance-construction-raised:" + type(exc).__name__, "what": "%s: %r" % (case["id"], exc)})
            break
        n += 1
        try:
            s1 = x.to_string()
        except Exception as exc:
            viol.append({"key": "C12/to_string-raised:" + type(exc).__name__, "what": "%s shape %d: %r" % (case["id"], shape, exc)})
            continue
        try:
            y = saml2_tophat.create_class_from_xml_string(cls, s1)
        except Exception as exc:
            viol.append({"key": "C12/parse-of-own-output-raised:" + type(exc).__name__,
                         "what": "%s shape %d: %r on %r" % (case["id"], shape, exc, s1[:300])})
            continue
        hit("roundtrips")
        if y is None or type(y) is not cls:
            viol.append({"key": "C12/parse-of-own-output-wrong-type", "what": "%s shape %d: got %r from %r" % (case["id"], shape, type(y), s1[:300])})
            continue
        dx, dy = schema.describe(x), schema.describe(y)
        diff = schema.first_difference(dx, dy)
        if diff:
            viol.append({"key": classify(cls, x, y, diff), "what": "%s shape %d: %s" % (case["id"], shape, diff[:600]),
                         "detail": {"xml": s1.decode("utf-8", "replace")[:3000]}})
            continue
        try:
            s2 = y.to_string()
        except Exception as exc:
            viol.append({"key": "C12/second-to_string-raised:" + type(exc).__name__, "what": "%s shape %d: %r" % (case["id"], shape, exc)})
            continue
        if s1 != s2:
            key = "C12/second-serialisation-differs"
            if _canon(s1) == _canon(s2):
                # same infoset, only the order of attributes in a start tag differs
                key = "C12/second-serialisation-differs-in-attribute-order-only"
                hit("attribute_order_only_differences")
            viol.append({"key": key, "what": "%s shape %d: %r vs %r" % (case["id"], shape, s1[:400], s2[:400])})
            continue
        # the other serialisers, as history on the same instance: none of them may change the instance, each one's text must parse back to
        # the same object, and the plain serialisation afterwards must still do so
        if shape % 4 in (0, 2, 3):
            import xml.etree.ElementTree as _ET
            alts = [("to_string(nspair)", lambda o: o.to_string({"vx": "urn:verif:foreign"})),
                    # prefixes of the form the serialiser makes up itself (what a caller mirroring a document of this library would ask for)
                    ("to_string(ns<N> prefixes)", lambda o: o.to_string({"ns0": SAMLP_NS, "ns1": SAML_NS, "ns2": "urn:verif:foreign", "ns3": DS_NS})),
                    ("to_string(ns1 for another namespace)", lambda o: o.to_string({"ns1": "urn:verif:foreign3", "ns4": cls.c_namespace})),
                    ("to_string_force_namespace", lambda o: o.to_string_force_namespace(
                        {"vf": "urn:verif:foreign", "vg": "urn:verif:foreign3", "vi": "http://www.w3.org/2001/XMLSchema-instance", "own": cls.c_namespace})),
                    ("str()", lambda o: str(o)),
                    ("become_child_element_of", _become)]
            rng.shuffle(alts)
            for aname, afn in alts:
                try:
                    txt = afn(x)
                except Exception as exc:
                    viol.append({"key": "C12/serialiser-raised:" + aname, "what": "%s shape %d: %s raised %r" % (case["id"], shape, aname, exc)})
                    break
                hit("alternative_serialisations")
                d_after = schema.describe(x)
                diff = schema.first_difference(dx, d_after)
                if diff:
                    viol.append({"key": "C12/serialising-changed-the-instance", "what": "%s shape %d: after %s the instance differs: %s" % (case["id"], shape, aname, diff[:500])})
                    break
                try:
                    y2 = saml2_tophat.create_class_from_xml_string(cls, txt)
                    diff = "parsed to %r" % type(y2) if (y2 is None or type(y2) is not cls) else schema.first_difference(dx, schema.describe(y2))
                except Exception as exc:
                    diff = "parse raised %r" % (exc,)
                if diff:
                    viol.append({"key": "C12/text-of-alternative-serialiser-does-not-parse-back", "what": "%s shape %d: %s: %s" % (case["id"], shape, aname, diff[:500]),
                                 "detail": {"xml": (txt if isinstance(txt, str) else txt.decode("utf-8", "replace"))[:3000]}})
                    break
            else:
                try:
                    y3 = saml2_tophat.create_class_from_xml_string(cls, x.to_string())
                    diff = "parsed to %r" % type(y3) if (y3 is None or type(y3) is not cls) else schema.first_difference(dx, schema.describe(y3))
                except Exception as exc:
                    diff = "raised %r" % (exc,)
                if diff:
                    viol.append({"key": "C12/roundtrip-fails-after-other-serialisers-ran", "what": "%s shape %d: %s" % (case["id"], shape, diff[:500])})
        # module level *_from_string
        by_tag = getattr(mod, "ELEMENT_BY_TAG", {})
        ffs = getattr(mod, "ELEMENT_FROM_STRING", {})
        if by_tag.get(cls.c_tag) is cls and cls.c_tag in ffs:
            try:
                z = ffs[cls.c_tag](s1)
                hit("module_from_string")
                if z is None or type(z) is not cls or schema.first_difference(dx, schema.describe(z)):
                    viol.append({"key": "C12/module-from_string-disagrees", "what": "%s shape %d: ELEMENT_FROM_STRING[%r] gave %r" % (
                        case["id"], shape, cls.c_tag, type(z))})
            except Exception as exc:
                viol.append({"key": "C12/module-from_string-raised:" + type(exc).__name__, "what": "%s: %r" % (case["id"], exc)})
        # independent parse: order and foreign content
        root = schema.own_tree(s1)
        problems = []
        _walk_order(x, root, cls.c_tag, problems)
        hit("order_walks")
        if problems:
            viol.append({"key": "C12/children-not-in-table-order", "what": "%s shape %d: %s" % (case["id"], shape, problems[0][:400])})
        sproblems, cnt = [], [0]
        _spec_order_problems(root, sproblems, cnt)
        if cnt[0]:
            hit("schema_sequence_checks", cnt[0])
        if sproblems:
            viol.append({"key": "C12/children-not-in-schema-sequence-order", "what": "%s shape %d: %s" % (case["id"], shape, sproblems[0][:400])})
        want_foreign = _count_foreign(x)
        got_foreign = len([e for e in root.iter() if e.tag.startswith("{urn:verif:foreign}")])
        got_fattr = sum(1 for e in root.iter() for a, v in e.attrib.items() if a.startswith("{urn:verif:foreign}") or a.endswith("}verifExtra") or str(v).startswith("own-ns-"))
        if want_foreign:
            hit("foreign_items_checked", want_foreign[0] + want_foreign[1])
        if (got_foreign, got_fattr) != want_foreign:
            viol.append({"key": "C12/foreign-content-dropped", "what": "%s shape %d: injected %r foreign (elements, attributes), serialised text has %r" % (
                case["id"], shape, want_foreign, (got_foreign, got_fattr))})
        if dx[1] or dx[2] or dx[3] or dx[4] or dx[5]:
            sigs.append([case["module"], case["cls"], shape])
    uniq = {}
    for v in viol:
        uniq.setdefault(v["key"], v)
    return {"outcome": "violations" if viol else "roundtrip-ok", "nontrivial": bool(sigs), "violations": list(uniq.values()),
            "counters": counters, "sigs": sigs, "evals": max(n, 1),
            "obs": {"attributes": len(cls.c_attributes), "children": len(cls.c_children)}}


def _become(o):
    """the object as the package itself puts it into an envelope (pack.make_soap_enveloped_saml_thingy, instance path: become_child_element_of
    the Body, then the envelope is serialised); the element's own octets are cut out of that text, not serialised a second time"""
    from saml2_tophat import pack
    from vlib import xmlkit as xk
    d = xk.Doc(pack.make_soap_enveloped_saml_thingy(o))
    body = [c for c in d.root.children if c.local == "Body"][0]
    return d.standalone(body.children[0])


def _canon(xml_bytes):
    def c(e):
        return (e.tag, tuple(sorted(e.attrib.items())), e.text or "", e.tail or "", tuple(c(x) for x in e))
    return c(schema.own_tree(xml_bytes))


def _count_foreign(obj):
    from saml2_tophat import ExtensionElement
    if isinstance(obj, ExtensionElement):
        return (0, 0)
    ne = len([e for e in (obj.extension_elements or []) if e.namespace == "urn:verif:foreign"])
    na = len([a for a, v in (obj.extension_attributes or {}).items() if a.startswith("{urn:verif:foreign}") or a.endswith("}verifExtra") or str(v).startswith("own-ns-")])
    for member in schema.members_in_order(obj.__class__):
        v = getattr(obj, member, None)
        if v is None:
            continue
        for x in (v if isinstance(v, list) else [v]):
            a, b = _count_foreign(x)
            ne, na = ne + a, na + b
    return (ne, na)


def finalize(cases, results, tier, extras):
    inc = []
    mods = set(c["module"] for c in cases if "module" in c)
    if len(cases) < 1000:
        inc.append("only %d element classes discovered (expected ~1150): introspection lost modules" % len(cases))
    rt = sum(r.get("counters", {}).get("roundtrips", 0) for r in results)
    if rt == 0:
        inc.append("no round trip completed")
    return {"inconclusive": inc, "coverage": {"modules": len(mods), "classes": len(cases), "roundtrips": rt}}
