"""C04 - assertions are honoured only inside their validity windows.

Virtual clock (vlib.clock).  A response made by the real IdP at virtual T0 gets its time
bounds rewritten (Conditions NotBefore/NotOnOrAfter, bearer SubjectConfirmationData
NotOnOrAfter/NotBefore, AuthnStatement SessionNotOnOrAfter, Response IssueInstant; every
subset of the optional ones present or absent); one bound is placed at a chosen offset
beyond or inside its edge (edge widened by the allowance), the others comfortably inside.
Oracle: an independent xs:dateTime reader decides must-reject / must-accept; in between
nothing is asserted; on acceptance session_info()['not_on_or_after'] is compared.
"""
import itertools
import random

from vlib import env, fed, clock, xmlkit as xk, gen

PROPERTY = "C04"
LEVEL = "exploration"
RULE = ("one execution = one response with rewritten time bounds delivered under a virtual 'now' and a configured allowance; non-trivial "
        "= the response reached the time checks (accepted, or refused by a time-class error or a failed verification); distinct = (bound "
        "under test, side, offset, allowance, spelling, subset of optional bounds present, signed or not)")
ASSUMPTIONS = ["instants exactly equal to a bound are not generated (unspecified)",
               "timestamps with a numeric zone offset are only used on the reject side (SAML requires UTC; the library does not read offsets)",
               "virtual clock: every time source of the saml2_tophat modules is replaced (vlib/clock.py)",
               "resolution is one second: the library reads the clock and every bound in whole seconds (fractions are dropped), the virtual clock "
               "moves in whole seconds and every generated violation is at least one second beyond its edge; orderings that differ only inside one "
               "second (NotBefore=T.9 with NotOnOrAfter=T.1, remarked by a round-5 sub-agent) are outside what is asserted"]

T0 = 1700000000
DAY = 86400
OUT = {"id-req-1": "/"}
ALLOWANCES = [0, 1, 60, 180, 3600, 10 ** 7]
OFFSETS = [1, 2, 100000]
EDGES = ["cond-nooa", "cond-nb", "scd-nooa", "scd-nb", "session-nooa", "issue-instant-past", "issue-instant-future",
         "cond-nb-after-nooa", "scd-nb-after-nooa"]


def spell(epoch, how):
    base = clock.iso(int(epoch), z=False)
    frac = epoch - int(epoch)
    if how == "Z":
        return base + "Z"
    if how == "noZ":
        return base
    if how.startswith("frac"):
        n = int(how[4:])
        digits = ("%.9f" % frac)[2:2 + n] if frac else "0" * n
        return base + "." + digits + "Z"
    if how.startswith("tz"):
        # same instant written with a zone offset, e.g. tz+01:00
        sign = 1 if how[2] == "+" else -1
        hh, mm = int(how[3:5]), int(how[6:8])
        local = int(epoch) + sign * (hh * 3600 + mm * 60)
        return clock.iso(local, z=False) + how[2:]
    raise ValueError(how)


def gen_cases(tier, seed):
    rng = random.Random(seed)
    cases = []
    spellings_ok = ["Z", "noZ", "frac1", "frac3", "frac6", "frac9"]
    spellings_rej = spellings_ok + ["tz+00:00", "tz+01:00", "tz-14:00"]
    masks = list(itertools.product((0, 1), repeat=3))     # optional: cond-nb, session-nooa, cond-nooa present?
    for edge in EDGES:
        for W in ALLOWANCES:
            for side in ("reject", "accept"):
                if edge.endswith("after-nooa") and side == "accept":
                    continue
                if edge == "scd-nb" and side == "accept":
                    continue      # profile shape: bearer data carries no NotBefore on the accept side
                offs = OFFSETS if not edge.endswith("after-nooa") else [1]
                for off in offs:
                    sp_list = (spellings_rej if side == "reject" else spellings_ok)
                    if tier == "quick":
                        sp_list = [sp_list[0], rng.choice(sp_list[1:])]
                    mk = masks if tier == "thorough" else rng.sample(masks, 2)
                    for spelling in sp_list:
                        for mask in mk:
                            for signed in ((0, 1) if tier == "thorough" else (0,)):
                                cid = "%s-W%d-%s-o%d-%s-m%d%d%d-%s" % (edge, W, side, off, spelling, mask[0], mask[1], mask[2], "signed" if signed else "plain")
                                cases.append({"id": cid, "sig": [edge, side, off, W, spelling, list(mask), signed], "edge": edge, "W": W, "side": side,
                                              "off": off, "spelling": spelling, "mask": list(mask), "signed": signed,
                                              "frac": rng.choice([0.0, 0.25, 0.9]) if spelling.startswith("frac") else 0.0})
    # the process time zone must not matter (all SAML instants are UTC): a sample of the grid again under other zones
    for tz in clock.ZONES[1:]:
        for edge in EDGES:
            for W in ((0, 180) if tier == "quick" else (0, 60, 3600)):
                for side in ("reject", "accept"):
                    if (edge.endswith("after-nooa") or edge == "scd-nb") and side == "accept":
                        continue
                    for off in ((2,) if tier == "quick" else (2, 100000)):
                        mask = [1, 1, 1] if tier == "quick" else rng.choice(masks)
                        cid = "%s-W%d-%s-o%d-Z-m%d%d%d-plain-tz%s" % (edge, W, side, off, mask[0], mask[1], mask[2], tz)
                        cases.append({"id": cid, "sig": [edge, side, off, W, "Z", list(mask), 0, tz], "edge": edge, "W": W, "side": side, "off": off,
                                      "spelling": "Z", "mask": list(mask), "signed": 0, "frac": 0.0, "tz": tz})
    # the same bounds on responses that are not tied to an outstanding request, at an SP that allows unsolicited ones (the InResponseTo
    # attributes still name a request: one the SP has forgotten, or that another SP made)
    for edge in EDGES:
        for W in ((0, 180) if tier == "quick" else (0, 60, 3600)):
            for side in ("reject", "accept"):
                if (edge.endswith("after-nooa") or edge == "scd-nb") and side == "accept":
                    continue
                for off in ((2, 100000) if tier == "quick" else OFFSETS):
                    cid = "%s-W%d-%s-o%d-Z-m111-plain-unsolicited" % (edge, W, side, off)
                    cases.append({"id": cid, "sig": [edge, side, off, W, "Z", [1, 1, 1], 0, "unsolicited"], "edge": edge, "W": W, "side": side, "off": off,
                                  "spelling": "Z", "mask": [1, 1, 1], "signed": 0, "frac": 0.0, "unsol": 1})
    # a Conditions element that carries its bounds and nothing else (no AudienceRestriction or other child)
    for edge in ("cond-nooa", "cond-nb", "cond-nb-after-nooa", "scd-nooa", "session-nooa"):
        for W in ((0, 180) if tier == "quick" else ALLOWANCES):
            for side in ("reject", "accept"):
                if edge.endswith("after-nooa") and side == "accept":
                    continue
                for off in ((2, 100000) if tier == "quick" else OFFSETS):
                    if edge.endswith("after-nooa") and off != 2 and off != 1:
                        continue
                    cid = "%s-W%d-%s-o%d-Z-m111-plain-bare-conditions" % (edge, W, side, 1 if edge.endswith("after-nooa") else off)
                    if any(c["id"] == cid for c in cases[-8:]):
                        continue
                    cases.append({"id": cid, "sig": [edge, side, off, W, "Z", [1, 1, 1], 0, "bare-conditions"], "edge": edge, "W": W, "side": side,
                                  "off": 1 if edge.endswith("after-nooa") else off, "spelling": "Z", "mask": [1, 1, 1], "signed": 0, "frac": 0.0, "bare_conditions": 1})
    # the binding the response arrives over must not matter either: SOAP (back channel) and Redirect beside POST
    for arrive in ("soap", "redirect"):
        for edge in EDGES:
            for W in ((0, 180) if tier == "quick" else (0, 60, 3600)):
                for side in ("reject", "accept"):
                    if (edge.endswith("after-nooa") or edge == "scd-nb") and side == "accept":
                        continue
                    for off in ((2, 100000) if tier == "quick" else OFFSETS):
                        mask = [1, 1, 1] if tier == "quick" else rng.choice(masks)
                        cid = "%s-W%d-%s-o%d-Z-m%d%d%d-plain-over-%s" % (edge, W, side, off, mask[0], mask[1], mask[2], arrive)
                        cases.append({"id": cid, "sig": [edge, side, off, W, "Z", list(mask), 0, "over-" + arrive], "edge": edge, "W": W, "side": side, "off": off,
                                      "spelling": "Z", "mask": list(mask), "signed": 0, "frac": 0.0, "arrive": arrive})
    # "any ... that is present": messages in which the element carrying a bound occurs more than once (several SubjectConfirmations,
    # AuthnStatements, Assertions) and only one occurrence is out of range; reject side only
    for elem, bound in MULTI:
        for pos in ("first", "second", "middle-of-three"):
            for W in ((0, 180) if tier == "quick" else ALLOWANCES):
                for off in ((2, 100000) if tier == "quick" else OFFSETS):
                    for other in MULTI_OTHER[elem]:
                        cid = "multi-%s-%s-%s-%s-W%d-o%d" % (elem, bound, pos, other, W, off)
                        cases.append({"id": cid, "sig": ["multi", elem, bound, pos, other, W, off], "kind": "multi", "elem": elem, "bound": bound, "pos": pos,
                                      "other": other, "W": W, "off": off, "signed": 0})
    return cases


MULTI = [("scd", "nooa"), ("scd", "nb"), ("scd", "inverted"), ("authn", "session-nooa"), ("assertion", "cond-nooa"), ("assertion", "cond-nb"),
         ("conditions", "cond-nooa"), ("conditions", "cond-nb"), ("scdata", "nooa"),
         # an assertion carried as advice inside the main one (its attributes are merged into the identity)
         ("advice", "cond-nooa"), ("advice", "cond-nb")]
# what the sibling occurrences look like: a comfortable copy of the same element, or (for confirmations) another method without data
MULTI_OTHER = {"scd": ["bearer-ok", "holder-of-key", "sender-vouches-no-data"], "authn": ["ok", "no-session-bound"], "assertion": ["ok"], "conditions": ["ok"], "scdata": ["ok"], "advice": ["plain", "encrypted"]}


def setup_worker(ctx):
    ctx.fedcache = fed.Cache()
    ctx.calls = {"validate_on_or_after": 0, "validate_before": 0}
    # recording wrappers (contracts that only record) on the two deciding functions; absence is reported, not fatal
    try:
        import saml2_tophat.validate as v
        import saml2_tophat.response as r

        def wrap(name):
            orig = getattr(v, name)

            def w(*a, **kw):
                ctx.calls[name] += 1
                return orig(*a, **kw)
            w.__name__ = name
            setattr(v, name, w)
            if getattr(r, name, None) is orig:
                setattr(r, name, w)
        wrap("validate_on_or_after")
        wrap("validate_before")
        ctx.contracts = "attached"
    except Exception as exc:
        ctx.contracts = "unavailable: %r" % exc


def _pair(ctx, W, signed, unsol=False):
    def build():
        top = {"accepted_time_diff": W} if W else {}
        spc = fed.sp_conf(want_response_signed=bool(signed), top=top, **({"allow_unsolicited": True} if unsol else {}))
        idc = fed.idp_conf()
        return fed.make_sp(spc, [fed.metadata_of(idc)]), fed.make_idp(idc, [fed.metadata_of(spc)])
    return ctx.fedcache.get("pair", [W, signed, unsol], build)


def run_multi(case, ctx):
    sp, idp = _pair(ctx, case["W"], 0)
    clock.install()
    clock.set_now(T0)
    W, off = case["W"], case["off"]
    far = 10 ** 8 + 2 * W
    xml = fed.issue(idp, {"givenName": ["Ann"]}, sign_response=False, sign_assertion=False)
    d = xk.Doc(xml)
    # comfortable everywhere first
    cond = d.find(xk.SAML, "Conditions")[0]
    d = d.set_attr(cond, "NotBefore", clock.iso(T0 - W - 5000))
    d = d.set_attr(d.find(xk.SAML, "Conditions")[0], "NotOnOrAfter", clock.iso(T0 + W + far))
    d = d.set_attr(d.find(xk.SAML, "SubjectConfirmationData")[0], "NotOnOrAfter", clock.iso(T0 + W + far))
    d = d.set_attr(d.find(xk.SAML, "AuthnStatement")[0], "SessionNotOnOrAfter", clock.iso(T0 + W + far + 777))
    elem, bound, pos, other = case["elem"], case["bound"], case["pos"], case["other"]
    if elem == "advice":
        return run_advice(case, ctx, sp, d)
    target = {"scd": "SubjectConfirmation", "authn": "AuthnStatement", "assertion": "Assertion", "conditions": "Conditions", "scdata": "SubjectConfirmationData"}[elem]
    node = d.find(xk.SAML, target)[0]
    good = d.standalone(node).decode("utf-8")

    def variant(text, i):
        v = xk.Doc(text)
        if elem == "assertion":
            v = v.set_attr(v.root, "ID", v.root.attrs["ID"] + "-%d" % i)
        return v

    bad = variant(good, 9)
    if elem == "scd" and bound == "inverted":
        # both bounds satisfied thanks to the allowance, but NotBefore later than NotOnOrAfter (only possible with an allowance)
        n = bad.find(xk.SAML, "SubjectConfirmationData")[0]
        gap = max(1, min(W // 3, off))
        bad = bad.set_attr(n, "NotOnOrAfter", clock.iso(T0 - gap))
        n = bad.find(xk.SAML, "SubjectConfirmationData")[0]
        bad = bad.set_attr(n, "NotBefore", clock.iso(T0 + gap))
    elif elem == "scd":
        n = bad.find(xk.SAML, "SubjectConfirmationData")[0]
        bad = bad.set_attr(n, "NotOnOrAfter" if bound == "nooa" else "NotBefore", clock.iso(T0 - W - off) if bound == "nooa" else clock.iso(T0 + W + off))
    elif elem == "authn":
        bad = bad.set_attr(bad.root, "SessionNotOnOrAfter", clock.iso(T0 - W - off))
    elif elem == "conditions":
        bad = bad.set_attr(bad.root, "NotOnOrAfter" if bound == "cond-nooa" else "NotBefore", clock.iso(T0 - W - off) if bound == "cond-nooa" else clock.iso(T0 + W + off))
    elif elem == "scdata":
        bad = bad.set_attr(bad.root, "NotOnOrAfter", clock.iso(T0 - W - off))
    else:
        n = bad.find(xk.SAML, "Conditions")[0]
        bad = bad.set_attr(n, "NotOnOrAfter" if bound == "cond-nooa" else "NotBefore", clock.iso(T0 - W - off) if bound == "cond-nooa" else clock.iso(T0 + W + off))
    bad = bad.text()

    def sibling(i):
        v = variant(good, i)
        if elem == "scd" and other != "bearer-ok":
            if other == "holder-of-key":
                v = v.set_attr(v.root, "Method", "urn:oasis:names:tc:SAML:2.0:cm:holder-of-key")
            else:
                v = v.set_attr(v.root, "Method", "urn:oasis:names:tc:SAML:2.0:cm:sender-vouches")
                v = v.remove(v.find(xk.SAML, "SubjectConfirmationData")[0])
        if elem == "authn" and other == "no-session-bound":
            # a sibling statement that carries no bound at all (legal: the attribute is optional)
            v = v.set_attr(v.root, "SessionNotOnOrAfter", None)
        return v.text()
    seq = {"first": [bad, sibling(1)], "second": [sibling(1), bad], "middle-of-three": [sibling(1), bad, sibling(2)]}[pos]
    # control: the same shape with the in-range element in place of the out-of-range one - tells whether this shape is refused anyway
    ctl = d.replace(d.find(xk.SAML, target)[0], "".join(variant(good, 9).text() if x is bad else x for x in seq)).text()
    r0, e0 = fed.deliver(sp, ctl, dict(OUT))
    shape_ok = r0 is not None
    d = d.replace(d.find(xk.SAML, target)[0], "".join(seq))
    doc = d.text()
    try:
        xk.Doc(doc)
    except Exception as exc:
        return {"outcome": "HARNESS-ERROR", "error": "multi document does not parse: %r" % (exc,)}
    resp, exc = fed.deliver(sp, doc, dict(OUT))
    accepted = resp is not None
    clock.set_now(None)
    viol = []
    outcome = "accept" if accepted else "reject:" + (type(exc).__name__ if exc is not None else "None")
    if accepted:
        viol.append({"key": "C04/accepted-outside-validity-window:one-of-several-%s" % elem,
                     "what": "response with several %s elements accepted although the %s one carries %s %d s beyond the edge (allowance %d, siblings: %s)" % (
                         target, pos, bound, off, W, other), "detail": {"document": doc[:8000], "now": clock.iso(T0)}})
    return {"outcome": outcome, "nontrivial": shape_ok or accepted, "violations": viol,
            "counters": {"multi_cases": 1, "multi_rejected_by:" + (type(exc).__name__ if exc is not None else "accepted" if accepted else "None"): 1, "must_reject": 1,
                         "multi_shape_accepted_when_all_in_range": int(shape_ok), "multi_shape_refused_anyway": int(not shape_ok)}}


def run_advice(case, ctx, sp, d):
    W, off, bound = case["W"], case["off"], case["bound"]
    main = d.find(xk.SAML, "Assertion")[0]
    p = d.prefix(main)
    docs = {}
    for which in ("in-range", "out-of-range"):
        inner = xk.Doc(d.standalone(main))
        inner = inner.set_attr(inner.root, "ID", "id-advice-assertion")
        n = inner.find(xk.SAML, "Conditions")[0]
        if which == "out-of-range":
            inner = inner.set_attr(n, "NotOnOrAfter" if bound == "cond-nooa" else "NotBefore", clock.iso(T0 - W - off) if bound == "cond-nooa" else clock.iso(T0 + W + off))
        else:
            # satisfied, but another instant than that of the assertion around it (whose bounds are the ones that matter for the session)
            inner = inner.set_attr(n, "NotOnOrAfter", clock.iso(T0 + W + 10 ** 8 + 2 * W + 43210))
        txt = inner.text()
        if txt.startswith("<?xml"):
            txt = txt[txt.index("?>") + 2:]
        txt = txt.replace("Ann", "Mallory").replace("givenName", "sn").replace("2.5.4.42", "2.5.4.4")
        if case["other"] == "encrypted":
            ed = xk.encrypt_fragment(txt, fed.key(2)[1])
            txt = "<%s:EncryptedAssertion>%s</%s:EncryptedAssertion>" % (p, ed.decode("utf-8") if isinstance(ed, bytes) else ed, p)
        docs[which] = d.insert_after(d.find(xk.SAML, "Conditions")[0], "<%s:Advice>%s</%s:Advice>" % (p, txt, p)).text()
    r0, e0 = fed.deliver(sp, docs["in-range"], dict(OUT))
    shape_ok = r0 is not None and "Mallory" in repr(getattr(r0, "ava", None))
    viol = []
    if r0 is not None:
        # no SessionNotOnOrAfter wins over it here? run_multi set one (far + 777): that is what the application must be handed, whatever the
        # advice assertion carries
        want_exp = T0 + W + (10 ** 8 + 2 * W) + 777
        try:
            got_exp = r0.session_info()["not_on_or_after"]
        except Exception as exc0:
            got_exp = "ERR %r" % (exc0,)
        if got_exp != want_exp:
            viol.append({"key": "C04/session-expiry-handed-to-application-wrong",
                         "what": "assertion with a (%s) advice assertion whose own Conditions end at another instant: session_info not_on_or_after=%r, "
                                 "SessionNotOnOrAfter of the assertion is %r" % (case["other"], got_exp, want_exp), "detail": {"document": docs["in-range"][:8000]}})
    # ... and without a SessionNotOnOrAfter: then it is the NotOnOrAfter of the assertion's own Conditions
    d3 = xk.Doc(docs["in-range"])
    for _ in range(len(d3.find(xk.SAML, "AuthnStatement"))):
        # (the assertion's own statement and, where the advice is in clear, the copy inside it)
        left = [n for n in d3.find(xk.SAML, "AuthnStatement") if "SessionNotOnOrAfter" in n.attrs]
        if not left:
            break
        d3 = d3.set_attr(left[0], "SessionNotOnOrAfter", None)
    r3, e3 = fed.deliver(sp, d3.text(), dict(OUT))
    if r3 is not None:
        want_exp = T0 + W + (10 ** 8 + 2 * W)
        try:
            got_exp = r3.session_info()["not_on_or_after"]
        except Exception as exc0:
            got_exp = "ERR %r" % (exc0,)
        if got_exp != want_exp:
            viol.append({"key": "C04/session-expiry-handed-to-application-wrong",
                         "what": "assertion (no SessionNotOnOrAfter) with a (%s) advice assertion whose own Conditions end at another instant: session_info "
                                 "not_on_or_after=%r, NotOnOrAfter of the assertion's Conditions is %r" % (case["other"], got_exp, want_exp),
                         "detail": {"document": d3.text()[:8000]}})
    resp, exc = fed.deliver(sp, docs["out-of-range"], dict(OUT))
    accepted = resp is not None
    clock.set_now(None)
    if accepted and "Mallory" in repr(getattr(resp, "ava", None)):
        viol.append({"key": "C04/accepted-outside-validity-window:advice-assertion",
                     "what": "the %s advice assertion carries %s %d s beyond the edge (allowance %d) and contributed %r to the accepted identity" % (
                         case["other"], bound, off, W, resp.ava), "detail": {"document": docs["out-of-range"][:8000], "now": clock.iso(T0)}})
    return {"outcome": "accept" if accepted else "reject:" + (type(exc).__name__ if exc is not None else "None"), "nontrivial": shape_ok or accepted, "violations": viol,
            "counters": {"multi_cases": 1, "advice_cases": 1, "must_reject": 1, "multi_shape_accepted_when_all_in_range": int(shape_ok),
                         "multi_shape_refused_anyway": int(not shape_ok)}}


def run_case(case, ctx):
    if case.get("tz"):
        with clock.process_tz(case["tz"]):
            r = _run_case(case, ctx)
        r.setdefault("counters", {})["cases_under_non_utc_zone"] = 1
        for v in r.get("violations", []):
            v["what"] += " [process time zone %s]" % case["tz"]
        return r
    return _run_case(case, ctx)


def _run_case(case, ctx):
    if case.get("kind") == "multi":
        return run_multi(case, ctx)
    sp, idp = _pair(ctx, case["W"], case["signed"], bool(case.get("unsol")))
    # (unsolicited: the SP allows it and no longer knows - or never knew - the request the message names)
    OUT = {} if case.get("unsol") else globals()["OUT"]
    clock.install()
    clock.set_now(T0)
    W, off, edge, side = case["W"], case["off"], case["edge"], case["side"]
    xml = fed.issue(idp, {"givenName": ["Ann"]}, sign_response=False, sign_assertion=False)
    far = 10 ** 8 + 2 * W
    # comfortable defaults (more than W to spare on every side)
    b = {"cond-nb": T0 - W - 5000, "cond-nooa": T0 + W + far, "scd-nooa": T0 + W + far, "scd-nb": None,
         "session-nooa": T0 + W + far + 777, "issue-instant": T0}
    present = {"cond-nb": bool(case["mask"][0]), "session-nooa": bool(case["mask"][1]), "cond-nooa": bool(case["mask"][2]), "scd-nooa": True, "scd-nb": False}
    f = case["frac"]
    if edge in ("cond-nooa", "scd-nooa", "session-nooa"):
        present[edge] = True
        b[edge] = (T0 - W - off + f) if side == "reject" else (T0 + W + off + f)
        if side == "reject" and f:
            b[edge] = T0 - W - off - 1 + f      # still at least `off` seconds beyond the edge
    elif edge in ("cond-nb", "scd-nb"):
        present[edge] = True
        b[edge] = (T0 + W + off + f) if side == "reject" else (T0 - W - off - 1 + f)
    elif edge == "issue-instant-past":
        b["issue-instant"] = (T0 - DAY - W - off) if side == "reject" else (T0 - max(0, DAY - W - off))
        if side == "accept" and DAY - W - off <= 0:
            b["issue-instant"] = T0
    elif edge == "issue-instant-future":
        b["issue-instant"] = (T0 + DAY + W + off) if side == "reject" else (T0 + max(0, DAY - W - off))
        if side == "accept" and DAY - W - off <= 0:
            b["issue-instant"] = T0
    elif edge == "cond-nb-after-nooa":
        present["cond-nb"] = present["cond-nooa"] = True
        b["cond-nooa"] = T0 + W + 5000
        b["cond-nb"] = b["cond-nooa"] + off           # NotBefore later than NotOnOrAfter; neither is out of range by itself when W is large
        if b["cond-nb"] > T0 + W:
            b["cond-nb"] = T0 - W - 10
            b["cond-nooa"] = b["cond-nb"] - off
    elif edge == "scd-nb-after-nooa":
        present["scd-nb"] = True
        b["scd-nb"] = T0 - W - 10
        b["scd-nooa"] = b["scd-nb"] - off
    sp_ = case["spelling"]

    def s(v, is_edge):
        return spell(v, sp_ if is_edge else "Z")

    d = xk.Doc(xml)
    d = d.set_attr(d.root, "IssueInstant", s(b["issue-instant"], edge.startswith("issue-instant")))
    cond = d.find(xk.SAML, "Conditions")[0]
    d = d.set_attr(cond, "NotBefore", s(b["cond-nb"], edge.startswith("cond-nb")) if present["cond-nb"] else None)
    cond = d.find(xk.SAML, "Conditions")[0]
    d = d.set_attr(cond, "NotOnOrAfter", s(b["cond-nooa"], edge in ("cond-nooa",)) if present["cond-nooa"] else None)
    scd = d.find(xk.SAML, "SubjectConfirmationData")[0]
    d = d.set_attr(scd, "NotOnOrAfter", s(b["scd-nooa"], edge == "scd-nooa"))
    if present["scd-nb"]:
        scd = d.find(xk.SAML, "SubjectConfirmationData")[0]
        d = d.set_attr(scd, "NotBefore", s(b["scd-nb"], edge.startswith("scd-nb")))
    ast = d.find(xk.SAML, "AuthnStatement")[0]
    d = d.set_attr(ast, "SessionNotOnOrAfter", s(b["session-nooa"], edge == "session-nooa") if present["session-nooa"] else None)
    if case.get("bare_conditions"):
        cnd = d.find(xk.SAML, "Conditions")[0]
        while cnd.children:
            d = d.remove(cnd.children[0])
            cnd = d.find(xk.SAML, "Conditions")[0]
    doc = d.text()
    if case["signed"]:
        doc = xk.sign_element(doc, xk.SAMLP, "Response", d.root.attrs["ID"], fed.key(0)[0], "rsa-sha256", fed.cert_body(0))

    # ---- independent truth from the document as delivered
    dd = xk.Doc(doc)

    def rd(node, attr):
        v = node.attrs.get(attr)
        return None if v is None else clock.parse_iso(v)
    c2 = dd.find(xk.SAML, "Conditions")[0]
    s2 = dd.find(xk.SAML, "SubjectConfirmationData")[0]
    a2 = dd.find(xk.SAML, "AuthnStatement")[0]
    t = {"cnb": rd(c2, "NotBefore"), "cnooa": rd(c2, "NotOnOrAfter"), "snb": rd(s2, "NotBefore"), "snooa": rd(s2, "NotOnOrAfter"),
         "sess": rd(a2, "SessionNotOnOrAfter"), "ii": rd(dd.root, "IssueInstant")}
    now = T0
    reasons = []
    for k in ("cnooa", "snooa", "sess"):
        if t[k] is not None and now > t[k] + W:
            reasons.append("%s expired by %.2fs beyond the allowance" % (k, now - t[k] - W))
    for k in ("cnb", "snb"):
        if t[k] is not None and now + W < t[k]:
            reasons.append("%s lies %.2fs beyond now+allowance" % (k, t[k] - now - W))
    if t["cnb"] is not None and t["cnooa"] is not None and t["cnb"] > t["cnooa"]:
        reasons.append("Conditions NotBefore later than NotOnOrAfter")
    if t["snb"] is not None and t["snooa"] is not None and t["snb"] > t["snooa"]:
        reasons.append("SubjectConfirmationData NotBefore later than NotOnOrAfter")
    if abs(t["ii"] - now) > DAY + W:
        reasons.append("IssueInstant %.0fs away" % abs(t["ii"] - now))
    must_reject = bool(reasons)
    spare = []
    for k in ("cnooa", "snooa", "sess"):
        if t[k] is not None:
            spare.append(t[k] - now - W)
    if t["cnb"] is not None:
        spare.append(now - W - t["cnb"])
    spare.append(DAY - W - abs(t["ii"] - now) if DAY - W > 0 else (1 if t["ii"] == now else -1))
    must_accept = (not must_reject) and t["snb"] is None and all(x > 0 for x in spare) and not sp_.startswith("tz")
    if (side == "reject") != must_reject:
        return {"outcome": "HARNESS-ERROR", "error": "generator and oracle disagree for %s: reasons=%r spare=%r" % (case["id"], reasons, spare)}

    before = dict(ctx.calls)
    from saml2_tophat import BINDING_HTTP_POST, BINDING_HTTP_REDIRECT, BINDING_SOAP
    arrive_b = {"soap": BINDING_SOAP, "redirect": BINDING_HTTP_REDIRECT}.get(case.get("arrive"), BINDING_HTTP_POST)
    if case.get("arrive"):
        # (the Destination of the IdP-made response names the POST endpoint; it is not what is under test here)
        dd0 = xk.Doc(doc)
        doc = dd0.set_attr(dd0.root, "Destination", None if case["arrive"] == "soap" else fed.ACS_REDIRECT).text()
    resp, exc = fed.deliver(sp, doc, dict(OUT), binding=arrive_b)
    accepted = resp is not None
    viol = []
    outcome = "accept" if accepted else "reject:" + (type(exc).__name__ if exc is not None else "None")
    desc = "edge %s %s side, offset %d, allowance %d, spelling %s, present %s%s: %s" % (edge, side, off, W, sp_, sorted(k for k, v in present.items() if v),
                                                                                     ((", arriving over " + case["arrive"]) if case.get("arrive") else "") + (", Conditions without child elements" if case.get("bare_conditions") else ""), outcome)
    if accepted and must_reject:
        viol.append({"key": "C04/accepted-outside-validity-window:" + edge, "what": desc + " although " + "; ".join(reasons),
                     "detail": {"document": doc[:6000], "now": clock.iso(now)}})
    if not accepted and must_accept:
        viol.append({"key": "C04/rejected-inside-validity-window:" + edge, "what": desc + " although every bound has more than the allowance to spare (%r)" % (exc,),
                     "detail": {"document": doc[:6000], "now": clock.iso(now)}})
    if accepted:
        try:
            got = resp.session_info()["not_on_or_after"]
        except Exception as e2:
            got = "ERR %r" % e2
        want = t["sess"] if t["sess"] is not None else (t["cnooa"] if t["cnooa"] is not None else 0)
        if not isinstance(got, (int, float)) or abs(got - want) >= 1.0:
            viol.append({"key": "C04/session-expiry-handed-to-application-wrong",
                         "what": desc + ": session_info not_on_or_after=%r, expected %r (SessionNotOnOrAfter %r, Conditions NotOnOrAfter %r)" % (
                             got, want, t["sess"], t["cnooa"])})
    # the same document again after the clock has moved past its earliest NotOnOrAfter (+ allowance): what was valid a moment ago must
    # be judged against the clock again, not against what was decided before
    counters_extra = {}
    if accepted and not must_reject:
        ends = [t[k] for k in ("cnooa", "snooa", "sess") if t[k] is not None]
        if ends:
            later = min(ends) + W + 30
            clock.set_now(later)
            r2, e2 = fed.deliver(sp, doc, dict(OUT))
            counters_extra["replays_after_expiry"] = 1
            if r2 is not None:
                viol.append({"key": "C04/accepted-after-expiry-when-seen-valid-before",
                             "what": desc + "; delivered again at now=%s (earliest NotOnOrAfter %s, allowance %d) it was accepted" % (
                                 clock.iso(later), clock.iso(min(ends)), W), "detail": {"document": doc[:6000]}})
            # and a fresh document carrying the very same instants must be judged alike
            d3 = xk.Doc(doc)
            doc3 = d3.set_attr(d3.root, "ID", d3.root.attrs["ID"] + "b").text() if not case["signed"] else None
            if doc3:
                r3, e3 = fed.deliver(sp, doc3, dict(OUT))
                if r3 is not None:
                    viol.append({"key": "C04/accepted-after-expiry-when-seen-valid-before",
                                 "what": desc + "; a second response with the same instants delivered at now=%s was accepted" % clock.iso(later)})
    clock.set_now(None)
    time_class = exc is not None and type(exc).__name__ in ("ResponseLifetimeExceed", "ToEarly", "VerificationError", "AssertionError", "NotValid")
    decided = sum(ctx.calls.values()) - sum(before.values())
    return {"outcome": outcome, "nontrivial": accepted or time_class or exc is None, "violations": viol,
            "counters": dict({"bounds_decided_by_validate_functions": decided, "accepted": int(accepted), "must_accept": int(must_accept),
                              "must_reject": int(must_reject)}, **counters_extra),
            "obs": {"truth": t, "reasons": reasons}}


def worker_done(ctx):
    return {"contracts": getattr(ctx, "contracts", "?")}


def finalize(cases, results, tier, extras):
    inc = []
    tot = {}
    for r in results:
        for k, v in r.get("counters", {}).items():
            tot[k] = tot.get(k, 0) + v
    if not tot.get("accepted"):
        inc.append("no response was accepted - the accept side was never observed")
    if not tot.get("must_reject"):
        inc.append("no must-reject case ran")
    cs = sorted(set(e.get("contracts", "?") for e in extras))
    if cs == ["attached"] and not tot.get("bounds_decided_by_validate_functions"):
        inc.append("recording contracts on validate_on_or_after/validate_before never fired")
    return {"inconclusive": inc, "coverage": {"contracts": cs}}
