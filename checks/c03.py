"""C03 - signatures are trusted only under the issuer's keys from metadata.

Generated federation (hand-written metadata, vlib.mdgen): IdPs with signing-only,
signing+encryption, use-less, encryption-only and several signing certificates, plus an
issuer absent from metadata.  Cells: claimed Issuer x actual signing key x embedded
KeyInfo certificate x signature level x only_use_keys_in_metadata, plus cells where the
assertion names another issuer than the response.
Oracles: outcome against the documented rule; trace oracle over the driver log: every
certificate the SP even tried must be one the rule allows.
"""
import itertools
import random

from vlib import env, fed, mdgen, xmlkit as xk, monitors, gen

PROPERTY = "C03"
LEVEL = "exploration"
RULE = ("one execution = one response whose signed element names issuer i, signed by the harness with key j and embedding certificate e, "
        "delivered to an SP with the given only_use_keys_in_metadata; non-trivial = the SP reached key selection (accepted, or refused with "
        "a signature-class error); distinct = (issuer layout, key, embedded certificate, level, option)")
ASSUMPTIONS = ["libxmlsec1 driver as in C01", "fixture certificates are distinct and self-signed; certificate validity is not part of this property"]

B_POST = "urn:oasis:names:tc:SAML:2.0:bindings:HTTP-POST"
B_REDIR = "urn:oasis:names:tc:SAML:2.0:bindings:HTTP-Redirect"

IDPS = {
    "A-signing": {"eid": "https://idp-a.example.org/md", "keys": [("signing", 0)]},
    "B-signing+encryption": {"eid": "https://idp-b.example.org/md", "keys": [("signing", 3), ("encryption", 4)]},
    "C-useless": {"eid": "https://idp-c.example.org/md", "keys": [(None, 5)]},
    "D-encryption-only": {"eid": "https://idp-d.example.org/md", "keys": [("encryption", 6)]},
    "E-two-signing": {"eid": "https://idp-e.example.org/md", "keys": [("signing", 7), ("signing", 8)]},
    "U-unknown": {"eid": "https://idp-u.example.org/md", "keys": None},
    # key descriptors without a certificate (KeyName only, X509Data without X509Certificate) next to one that has it: metadata HOLDS a signing key
    "I-keyname+signing": {"eid": "https://idp-i.example.org/md", "keys": [("signing", "keyname"), ("signing", 10)]},
    "J-signing+x509-without-certificate": {"eid": "https://idp-j.example.org/md", "keys": [("signing", 10), (None, "x509-without-certificate")]},
    "K-signing+empty-certificate": {"eid": "https://idp-k.example.org/md", "keys": [("signing", 11), ("signing", "empty-certificate")]},
    "L-signing+descriptor-without-keyinfo": {"eid": "https://idp-l.example.org/md", "keys": [("signing", "descriptor-without-keyinfo"), ("signing", 2)]},
    # metadata that HOLDS signing keys whose certificates are outside their validity period (k12, k14 expired 2010/2011, k13 not valid before
    # 2090): the property's rule is about what metadata holds, so embedded certificates stay untrusted; whether a signature under such a
    # key is accepted is not asserted in either direction (certificate validity is not part of C03)
    "F-expired-signing": {"eid": "https://idp-f.example.org/md", "keys": [("signing", 12)], "validity": "out"},
    "G-not-yet-valid-useless": {"eid": "https://idp-g.example.org/md", "keys": [(None, 13)], "validity": "out"},
    "H-two-expired+encryption": {"eid": "https://idp-h.example.org/md", "keys": [("signing", 12), ("signing", 14), ("encryption", 4)], "validity": "out"},
}
KEYS = [0, 3, 4, 5, 6, 7, 8, 9, 1, 12, 13, 10]     # 9: a third party, 1: the SP's own key, 12/13: keys whose certificates are out of their validity period


def signing_capable(name):
    ks = IDPS[name]["keys"]
    return [k for u, k in (ks or []) if u in ("signing", None) and isinstance(k, int)]


def gen_cases(tier, seed):
    cases = []
    for iname in sorted(IDPS):
        for j in KEYS:
            sc = signing_capable(iname)
            embeds = ["none", "actual", "third", "keyvalue"] + (["issuers"] if sc else [])
            for emb, level, opt in itertools.product(embeds, ("response", "assertion"), (1, 0, "default")):
                if tier == "quick" and emb == "third" and j not in (0, 9):
                    continue
                if tier == "quick" and (j in (12, 13)) != bool(IDPS[iname].get("validity")) and j not in (0, 9):
                    continue
                if opt == "default" and emb == "third":
                    continue
                cid = "%s-k%02d-%s-%s-%s" % (iname, j, emb, level, {1: "on", 0: "off", "default": "default"}[opt])
                cases.append({"id": cid, "sig": [iname, j, emb, level, opt], "issuer": iname, "key": j, "embed": emb, "level": level,
                              "opt": opt, "assertion_issuer": None})
                if emb in ("actual", "third") and opt != "default":
                    cases.append({"id": cid + "-trusted-store", "sig": [iname, j, emb, level, opt, "embedded certificate in the trust store"], "issuer": iname, "key": j,
                                  "embed": emb, "level": level, "opt": opt, "assertion_issuer": None, "trust": 1})
    # assertion issued (and named) by another IdP than the response
    for (ri, ai) in (("A-signing", "B-signing+encryption"), ("B-signing+encryption", "A-signing"), ("A-signing", "U-unknown"),
                     ("E-two-signing", "C-useless")):
        for j in (0, 3, 5, 7, 9):
            for opt in (1, 0):
                cid = "resp:%s-assn:%s-k%02d-%s" % (ri, ai, j, "on" if opt else "off")
                cases.append({"id": cid, "sig": [ri + "/" + ai, j, "actual", "assertion", opt], "issuer": ri, "assertion_issuer": ai, "key": j,
                              "embed": "actual", "level": "assertion", "opt": opt})
    # a signed assertion that reaches the SP inside the Advice of an (unsigned, otherwise fine) assertion, encrypted to the SP: its signature is
    # judged under the keys of the issuer IT names, whoever issued what is around it
    for (ri, ai) in (("A-signing", "A-signing"), ("A-signing", "B-signing+encryption"), ("A-signing", "U-unknown"), ("B-signing+encryption", "U-unknown"),
                     ("E-two-signing", "C-useless"), ("A-signing", "D-encryption-only")):
        for j in (0, 3, 5, 6, 7, 9):
            for opt in (1, 0, "default"):
                cid = "advice-encrypted:outer:%s-inner:%s-k%02d-%s" % (ri, ai, j, {1: "on", 0: "off", "default": "default"}[opt])
                cases.append({"id": cid, "sig": ["advice-encrypted", ri + "/" + ai, j, opt], "issuer": ri, "assertion_issuer": ai, "key": j,
                              "embed": "actual", "level": "advice-encrypted", "opt": opt})
    # the same rule on the IdP side, with the order of key look-ups as part of the history: certificates an IdP fetched for ENCRYPTING to an SP
    # must never come back as that SP's signing certificates
    for k, order in enumerate((("request:enc-key", "encrypt", "request:enc-key", "request:sign-key"), ("encrypt", "request:enc-key", "request:sign-key"),
                               ("request:sign-key", "encrypt", "request:enc-key", "request:third-key"), ("encrypt", "encrypt", "request:third-key", "request:enc-key"))):
        cases.append({"id": "idp-side-history-%d" % k, "sig": ["idp-side-history", k], "kind": "idp-history", "order": list(order)})
    # key roll-over on a long-lived SP: the issuer's metadata file changes and the source is refreshed in one of the ways a running process does
    # it; afterwards only the key metadata holds NOW authenticates the issuer
    for how in ("load-local-file", "imp-classlist-file", "load-local-directory", "imp-local-file"):
        for opt in (1, 0):
            cases.append({"id": "md-refresh-%s-%s" % (how, "on" if opt else "off"), "sig": ["md-refresh", how, opt], "kind": "md-refresh", "how": how, "opt": opt})
    # one SP shared by threads that verify messages of different issuers at once (yields injected); afterwards - and meanwhile - a message
    # naming one issuer but signed with another known entity's key must still be refused, and genuine ones accepted
    for k in range(3 if tier == "quick" else 24):
        cases.append({"id": "threads-%d" % k, "sig": ["threads", k], "kind": "threads", "own_worker": True, "all_envs": True, "k": k, "opt": [1, 0, "default"][k % 3],
                      "level": ["response", "assertion"][k % 2], "rounds": 8 if tier == "quick" else 30})
    return cases


def run_threads_case(case, ctx):
    from vlib import interleave
    (sp, spmd) = _sp(ctx, case["opt"], case["level"])
    names = ["A-signing", "B-signing+encryption", "E-two-signing"]
    keyof = {"A-signing": 0, "B-signing+encryption": 3, "E-two-signing": 7}

    def message(issuer, key):
        idp = _idp(ctx, issuer, spmd)
        xml = fed.issue(idp, {"givenName": ["Ann"]}, sign_response=False, sign_assertion=False)
        d = xk.Doc(xml)
        if case["level"] == "response":
            return xk.sign_element(xml, xk.SAMLP, "Response", d.root.attrs["ID"], fed.key(key)[0], "rsa-sha256", None)
        return xk.sign_element(xml, xk.SAML, "Assertion", d.find(xk.SAML, "Assertion")[0].attrs["ID"], fed.key(key)[0], "rsa-sha256", None)
    genuine = {n: message(n, keyof[n]) for n in names}
    forged = {(n, m): message(n, keyof[m]) for n in names for m in names if n != m}
    seen = {"genuine_accepted": 0, "genuine_rejected": [], "forged_accepted": [], "forged_rejected": 0}

    def loop(n):
        def run():
            for _ in range(case["rounds"]):
                r, e = fed.deliver(sp, genuine[n], {"id-req-1": "/"})
                if r is None:
                    seen["genuine_rejected"].append((n, repr(e)[:120]))
                else:
                    seen["genuine_accepted"] += 1
        return run

    def forger():
        for _ in range(case["rounds"]):
            for (n, m), xml in sorted(forged.items()):
                r, e = fed.deliver(sp, xml, {"id-req-1": "/"})
                if r is not None:
                    seen["forged_accepted"].append((n, m))
                else:
                    seen["forged_rejected"] += 1
    res, errs, stats = interleave.run_threads_regimes([loop(n) for n in names] + [forger], "%s/%s" % (ctx.seed, case["id"]), timeout=600)
    # and once more when everything is quiet again (state left behind by the concurrent phase)
    for (n, m), xml in sorted(forged.items()):
        r, e = fed.deliver(sp, xml, {"id-req-1": "/"})
        if r is not None:
            seen["forged_accepted"].append((n, m, "afterwards"))
        else:
            seen["forged_rejected"] += 1
    for n in names:
        r, e = fed.deliver(sp, genuine[n], {"id-req-1": "/"})
        if r is None:
            seen["genuine_rejected"].append((n, "afterwards " + repr(e)[:120]))
    viol = []
    if seen["forged_accepted"]:
        viol.append({"key": "C03/accepted-under-key-not-held-for-issuer", "what": "one SP shared by four threads (level %s, only_use_keys_in_metadata=%s): message naming issuer %s but signed "
                     "with the key of %s accepted (%d such acceptances, e.g. %r)" % (case["level"], case["opt"], seen["forged_accepted"][0][0], seen["forged_accepted"][0][1],
                                                                                 len(seen["forged_accepted"]), seen["forged_accepted"][:3])})
    if seen["genuine_rejected"]:
        viol.append({"key": "C03/valid-signature-under-issuers-metadata-key-rejected", "what": "one SP shared by four threads: genuine message refused %d time(s), e.g. %r" % (
            len(seen["genuine_rejected"]), seen["genuine_rejected"][:2])})
    return {"outcome": "violations" if viol else "held", "nontrivial": seen["forged_rejected"] > 0 and seen["genuine_accepted"] > 0, "violations": viol,
            "counters": {"threads_forged_rejected": seen["forged_rejected"], "threads_genuine_accepted": seen["genuine_accepted"], "yields_injected": stats["yields_injected"],
                         "accepted": seen["genuine_accepted"]},
            "sigs": [["threads", case["k"]]], "evals": 4 * case["rounds"]}


def run_idp_history(case, ctx):
    import base64
    from saml2_tophat import BINDING_HTTP_POST
    spmd = mdgen.entity({"eid": fed.SP_EID, "sp": {"keys": [("signing", 1), ("encryption", 2)], "acs": [(B_POST, fed.ACS_POST, 1, True)]}})
    idp = fed.make_idp(fed.idp_conf(), [spmd])
    sp = fed.make_sp(fed.sp_conf(), [fed.metadata_of(fed.idp_conf())])
    viol, counters = [], {"history_steps": 0, "accepted": 0}
    done = []
    for step in case["order"]:
        done.append(step)
        counters["history_steps"] += 1
        if step == "encrypt":
            fed.issue(idp, {"givenName": ["Ann"]}, sign_response=False, encrypt_assertion=True)
            continue
        ki = {"request:sign-key": 1, "request:enc-key": 2, "request:third-key": 9}[step]
        rid, req = sp.create_authn_request(fed.SSO_POST, binding=BINDING_HTTP_POST)
        d = xk.Doc("%s" % req)
        signed = xk.sign_element(d.text(), xk.SAMLP, "AuthnRequest", d.root.attrs["ID"], fed.key(ki)[0], "rsa-sha256", fed.cert_body(ki))
        try:
            r = idp.parse_authn_request(base64.b64encode(signed.encode()).decode(), BINDING_HTTP_POST)
            ok = r is not None and getattr(r, "message", None) is not None
        except Exception:
            ok = False
        counters["accepted"] += int(ok)
        what = "IdP history %r: request with Issuer %s signed with k%02d (metadata: signing k01, encryption k02) %s" % (
            done, fed.SP_EID, ki, "accepted" if ok else "refused")
        if ok and ki != 1:
            viol.append({"key": "C03/encryption-only-key-authenticated-issuer" if ki == 2 else "C03/accepted-under-key-not-held-for-issuer", "what": what})
        if not ok and ki == 1:
            viol.append({"key": "C03/valid-signature-under-issuers-metadata-key-rejected", "what": what})
    return {"outcome": "violations" if viol else "history-held", "nontrivial": counters["accepted"] > 0 or counters["history_steps"] > 0, "violations": viol,
            "counters": counters, "evals": counters["history_steps"]}


def federation_md():
    docs = []
    for name, d in sorted(IDPS.items()):
        if d["keys"] is None:
            continue
        docs.append(mdgen.entity({"eid": d["eid"], "idp": {"keys": d["keys"], "sso": [(B_REDIR, d["eid"].replace("/md", "/sso"))]}}))
    return docs


def setup_worker(ctx):
    ctx.fedcache = fed.Cache()


def _sp(ctx, opt, level):
    def build():
        top = {} if opt == "default" else {"only_use_keys_in_metadata": bool(opt)}     # "default": option not configured, documented default is on
        spc = fed.sp_conf(want_response_signed=(level == "response"), want_assertions_signed=(level == "assertion"),
                          idp=[d["eid"] for d in IDPS.values()], top=top)
        return fed.make_sp(spc, federation_md()), fed.metadata_of(spc)
    return ctx.fedcache.get("sp", [opt, level], build)


def _idp(ctx, name, spmd):
    def build():
        return fed.make_idp(fed.idp_conf(eid=IDPS[name]["eid"], key_i=11), [spmd])
    return ctx.fedcache.get("idp", [name], build)


def run_case(case, ctx):
    import saml2_tophat.sigver as sv
    if case.get("kind") == "idp-history":
        return run_idp_history(case, ctx)
    if case.get("kind") == "threads":
        return run_threads_case(case, ctx)
    if case.get("kind") == "md-refresh":
        return run_md_refresh(case, ctx)
    if case["level"] == "advice-encrypted":
        return run_advice(case, ctx)
    (sp, spmd) = _sp(ctx, case["opt"], case["level"])
    opt_on = bool(case["opt"])          # "default" counts as on
    idp = _idp(ctx, case["issuer"], spmd)
    ident = {"givenName": ["Ann"], "mail": ["ann@example.org"]}
    xml = fed.issue(idp, ident, sign_response=False, sign_assertion=False)
    d = xk.Doc(xml)
    rid = d.root.attrs["ID"]
    a = d.find(xk.SAML, "Assertion")[0]
    aid = a.attrs["ID"]
    signer_issuer = case["issuer"]
    if case.get("assertion_issuer"):
        ai = IDPS[case["assertion_issuer"]]["eid"]
        xml = d.set_text(a.child(xk.SAML, "Issuer"), ai).text()
        signer_issuer = case["assertion_issuer"]
    j = case["key"]
    sc = signing_capable(signer_issuer)
    emb = {"none": None, "actual": j, "third": 9, "issuers": sc[0] if sc else None, "keyvalue": None}[case["embed"]]
    cert_body = fed.cert_body(emb) if emb is not None else None
    if case["embed"] == "keyvalue":
        cert_body = "KEYVALUE"        # ds:KeyValue/RSAKeyValue of the key that signs - key material in the message that is not even a certificate
    if case["level"] == "response":
        signed = xk.sign_element(xml, xk.SAMLP, "Response", rid, fed.key(j)[0], "rsa-sha256", cert_body)
    else:
        signed = xk.sign_element(xml, xk.SAML, "Assertion", aid, fed.key(j)[0], "rsa-sha256", cert_body)
    ctx.mark()
    import os
    trust = bool(case.get("trust"))
    if trust:
        # environment: the process-wide trust store of the crypto library contains the certificate embedded in the message (as it would
        # for any certificate bought from a public CA); the tool inherits it
        os.environ["SSL_CERT_DIR"] = os.path.join(env.VERIF, "fixtures", "trust-all")
    try:
        resp, exc = fed.deliver(sp, signed, {"id-req-1": "/"})
    finally:
        os.environ.pop("SSL_CERT_DIR", None)
    evs = [e for e in ctx.events() if not e.get("case", "").startswith("harness:")]
    accepted = resp is not None
    must_accept = j in sc and not IDPS[signer_issuer].get("validity")
    may_accept = j in sc
    fallback_ok = (not opt_on) and not sc and emb == j
    viol = []
    outcome = "accept" if accepted else "reject:" + (type(exc).__name__ if exc is not None else "None")
    what = "issuer %s (signing-capable metadata keys %s), signed with k%02d, embedded %s, level %s, only_use_keys_in_metadata=%s: %s" % (
        signer_issuer, ["k%02d" % k for k in sc], j, ("k%02d" % emb + (" (in the process trust store)" if case.get("trust") else "")) if emb is not None else ("RSAKeyValue of the signing key" if case["embed"] == "keyvalue" else "none"), case["level"], case["opt"] if case["opt"] == "default" else bool(case["opt"]), outcome)
    if accepted and not (may_accept or fallback_ok):
        key = "C03/accepted-under-key-not-held-for-issuer"
        if case["embed"] == "keyvalue":
            key = "C03/accepted-under-key-from-the-document"
        elif emb == j and sc:
            key = "C03/embedded-certificate-trusted-although-metadata-has-signing-key"
        elif emb == j and opt_on:
            key = "C03/embedded-certificate-trusted-with-only_use_keys_in_metadata"
        elif j in [k for u, k in (IDPS[signer_issuer]["keys"] or []) if u == "encryption"]:
            key = "C03/encryption-only-key-authenticated-issuer"
        viol.append({"key": key, "what": what})
    if not accepted and must_accept:
        viol.append({"key": "C03/valid-signature-under-issuers-metadata-key-rejected", "what": what + " (%r)" % (exc,)})
    # trace oracle: certificates that were even tried
    allowed = set("k%02d" % k for k in sc)
    if not sc and not opt_on and emb is not None:
        allowed = {"k%02d" % emb}
    tried = [monitors.cert_name(e.get("cert", b"")) for e in evs if e.get("cmd") == "verify"]
    bad = sorted(set(t for t in tried if t not in allowed))
    if bad:
        viol.append({"key": "C03/certificate-outside-issuers-metadata-keys-tried",
                     "what": what + "; certificates tried %r, allowed %r" % (tried, sorted(allowed))})
    if accepted:
        oks = [e for e in evs if monitors.genuine_ok(e)]
        if not any(monitors.cert_name(e.get("cert", b"")) in allowed for e in oks):
            viol.append({"key": "C03/accepted-without-verification-under-allowed-key", "what": what})
    sig_reject = exc is not None and isinstance(exc, sv.SigverError)
    return {"outcome": outcome, "nontrivial": accepted or sig_reject, "violations": viol,
            "counters": {"verify_events": len(tried), "accepted": int(accepted), "must_accept_cells": int(must_accept),
                         "fallback_cells": int(fallback_ok), "fallback_accepted": int(fallback_ok and accepted)},
            "obs": {"tried": tried, "allowed": sorted(allowed)}}


def run_md_refresh(case, ctx):
    import os
    how = case["how"]
    eid = "https://idp-roll.example.org/md"
    base = os.path.join(ctx.scratch, "c03-roll-%s-%s" % (how, case["opt"]))
    path = base + ".xml"
    if how == "load-local-directory":
        os.makedirs(base + ".d", exist_ok=True)
        path = os.path.join(base + ".d", "idp.xml")

    def write(keys):
        with open(path, "w") as f:
            f.write(mdgen.entity({"eid": eid, "idp": {"keys": [("signing", k) for k in keys], "sso": [(B_REDIR, "https://idp-roll.example.org/sso")]}}))

    def refresh(sp):
        if how == "load-local-file":
            sp.metadata.load("local", path)
        elif how == "imp-classlist-file":
            sp.metadata.imp([{"class": "saml2_tophat.mdstore.MetaDataFile", "metadata": [(path,)]}])
        elif how == "imp-local-file":
            sp.metadata.imp({"local": [path]})
        else:
            sp.metadata.load("local", os.path.dirname(path))
    spc = fed.sp_conf(want_response_signed=True, idp=[eid], top={"only_use_keys_in_metadata": bool(case["opt"])})
    sp = fed.make_sp(spc, [])
    idp = fed.make_idp(fed.idp_conf(eid=eid, key_i=11), [fed.metadata_of(spc)])
    viol, counters = [], {"refreshes": 0, "accepted": 0, "verify_events": 0, "must_accept_cells": 0, "fallback_cells": 0, "fallback_accepted": 0}

    def send(ki):
        xml = fed.issue(idp, {"givenName": ["Ann"]}, sign_response=False, sign_assertion=False)
        d = xk.Doc(xml)
        signed = xk.sign_element(xml, xk.SAMLP, "Response", d.root.attrs["ID"], fed.key(ki)[0], "rsa-sha256", None)
        r, e = fed.deliver(sp, signed, {"id-req-1": "/"})
        counters["accepted"] += int(r is not None)
        return r is not None
    history = []
    try:
        for gen_, keys in enumerate(([0], [3], [3, 7], [7])):
            write(keys)
            refresh(sp)
            counters["refreshes"] += 1
            history.append(keys)
            for ki in (0, 3, 7, 9):
                got = send(ki)
                want = ki in keys
                if got != want:
                    viol.append({"key": "C03/accepted-under-key-not-held-for-issuer" if got else "C03/valid-signature-under-issuers-metadata-key-rejected",
                                 "what": "long-lived SP, issuer metadata refreshed via %s through the generations %r: message signed with k%02d %s, metadata now holds %r" % (
                                     how, history, ki, "accepted" if got else "refused", ["k%02d" % k for k in keys])})
            if viol:
                break
    finally:
        try:
            os.unlink(path)
            if how == "load-local-directory":
                os.rmdir(os.path.dirname(path))
        except OSError:
            pass
    return {"outcome": "violations" if viol else "history-held", "nontrivial": counters["accepted"] > 0, "violations": viol[:4], "counters": counters}


def run_advice(case, ctx):
    import saml2_tophat.sigver as sv
    (sp, spmd) = _sp(ctx, case["opt"], "none")
    opt_on = bool(case["opt"])
    idp = _idp(ctx, case["issuer"], spmd)
    xml = fed.issue(idp, {"givenName": ["Ann"]}, sign_response=False, sign_assertion=False)
    d = xk.Doc(xml)
    main = d.find(xk.SAML, "Assertion")[0]
    p = d.prefix(main)
    inner = xk.Doc(d.standalone(main))
    inner = inner.set_attr(inner.root, "ID", "id-advice-assertion")
    inner = inner.set_text(inner.root.child(xk.SAML, "Issuer"), IDPS[case["assertion_issuer"]]["eid"])
    txt = inner.text()
    if txt.startswith("<?xml"):
        txt = txt[txt.index("?>") + 2:]
    txt = txt.replace("Ann", "Mallory").replace("givenName", "sn").replace("2.5.4.42", "2.5.4.4")
    j = case["key"]
    signed = xk.sign_element(txt, xk.SAML, "Assertion", "id-advice-assertion", fed.key(j)[0], "rsa-sha256", fed.cert_body(j))
    if signed.startswith("<?xml"):
        signed = signed[signed.index("?>") + 2:]
    ed = xk.encrypt_fragment(signed, fed.key(2)[1])
    adv = "<%s:Advice><%s:EncryptedAssertion>%s</%s:EncryptedAssertion></%s:Advice>" % (p, p, ed.decode("utf-8") if isinstance(ed, bytes) else ed, p, p)
    doc = d.insert_after(d.find(xk.SAML, "Conditions")[0], adv).text()
    ctx.mark()
    resp, exc = fed.deliver(sp, doc, {"id-req-1": "/"})
    evs = [e for e in ctx.events() if not e.get("case", "").startswith("harness:")]
    sc = signing_capable(case["assertion_issuer"])
    merged = resp is not None and "Mallory" in repr(getattr(resp, "ava", None))
    fallback_ok = (not opt_on) and not sc
    viol = []
    outcome = ("accept+advice-merged" if merged else "accept-advice-ignored") if resp is not None else "reject:" + (type(exc).__name__ if exc is not None else "None")
    what = "encrypted advice assertion naming issuer %s (signing-capable metadata keys %s) inside an assertion of %s, signed with k%02d (certificate embedded), only_use_keys_in_metadata=%s: %s" % (
        case["assertion_issuer"], ["k%02d" % k for k in sc], case["issuer"], j, case["opt"] if case["opt"] == "default" else bool(case["opt"]), outcome)
    if merged and not (j in sc or fallback_ok):
        viol.append({"key": "C03/accepted-under-key-not-held-for-issuer", "what": what, "detail": {"ava": repr(resp.ava)}})
    allowed = set("k%02d" % k for k in sc) if (sc or opt_on) else {"k%02d" % j}
    tried = [monitors.cert_name(e.get("cert", b"")) for e in evs if e.get("cmd") == "verify"]
    bad = sorted(set(t for t in tried if t not in allowed))
    if bad:
        viol.append({"key": "C03/certificate-outside-issuers-metadata-keys-tried", "what": what + "; certificates tried %r, allowed %r" % (tried, sorted(allowed))})
    sig_reject = exc is not None and isinstance(exc, sv.SigverError)
    return {"outcome": outcome, "nontrivial": resp is not None or sig_reject, "violations": viol,
            "counters": {"verify_events": len(tried), "accepted": int(resp is not None), "advice_cases": 1, "advice_merged": int(merged),
                         "must_accept_cells": 0, "fallback_cells": 0, "fallback_accepted": 0}, "obs": {"tried": tried, "allowed": sorted(allowed)}}


def finalize(cases, results, tier, extras):
    inc = []
    acc = sum(r.get("counters", {}).get("accepted", 0) for r in results)
    if not acc:
        inc.append("no cell was accepted")
    return {"inconclusive": inc, "coverage": {"exhaustive": tier == "thorough", "federation": {k: v["keys"] for k, v in IDPS.items()}}}
