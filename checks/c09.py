"""C09 - the IdP answers only to endpoints registered for the requesting SP.

Generated SP metadata (several ACS / SLO / ManageNameID endpoints, bindings, indexes; two
SPs) x request variants: consumer URL registered / unregistered / near-miss / the other
SP's, index known / unknown, protocol binding given / absent, issuer known / unknown;
also logout and manage-name-id requests.  Observed: Server.response_args(request).
Oracle: a dictionary model of the generated metadata.
"""
import itertools
import random

from vlib import env, fed, mdgen

PROPERTY = "C09"
LEVEL = "exploration"
RULE = ("one execution = Server.response_args on one request object built from (issuer, consumer URL, index, protocol binding) against one "
        "generated metadata layout; non-trivial = the IdP consulted the metadata (returned a destination or refused); distinct = (layout, "
        "message type, issuer, URL class, index class, binding class)")
ASSUMPTIONS = ["requests are handed to response_args as parsed objects (parsing/validation of requests is C10)"]

POST = "urn:oasis:names:tc:SAML:2.0:bindings:HTTP-POST"
REDIR = "urn:oasis:names:tc:SAML:2.0:bindings:HTTP-Redirect"
ART = "urn:oasis:names:tc:SAML:2.0:bindings:HTTP-Artifact"
SOAP = "urn:oasis:names:tc:SAML:2.0:bindings:SOAP"
PAOS = "urn:oasis:names:tc:SAML:2.0:bindings:PAOS"
UNKNOWN = "https://unknown-sp.example.net/md"

LAYOUTS = {
    "L1": {
        fed.SP_EID: {"acs": [(POST, "https://sp.example.org/acs/post", 1, True), (POST, "https://sp.example.org/acs/post2", 2, None),
                             (REDIR, "https://sp.example.org/acs/redirect", 3, None), (ART, "https://sp.example.org/acs/artifact", 4, None)],
                     "slo": [(REDIR, "https://sp.example.org/slo/redirect"), (POST, "https://sp.example.org/slo/post"), (SOAP, "https://sp.example.org/slo/soap")],
                     "mni": [(SOAP, "https://sp.example.org/mni/soap"), (POST, "https://sp.example.org/mni/post")]},
        fed.SP2_EID: {"acs": [(POST, "https://sp2.example.org/acs", 1, True)], "slo": [(POST, "https://sp2.example.org/slo")], "mni": []},
    },
    "L2": {
        fed.SP_EID: {"acs": [(REDIR, "https://sp.example.org/a?tenant=1", 0, None), (POST, "https://sp.example.org/b", 7, True),
                             (POST, "https://SP.example.org/b", 8, None)],
                     "slo": [(SOAP, "https://sp.example.org/slo/soap")], "mni": []},
        fed.SP2_EID: {"acs": [(POST, "https://sp.example.org/b/", 1, True), (REDIR, "https://sp2.example.org/r", 2, None)], "slo": [], "mni": []},
    },
}
# entities whose identifiers differ from a real SP's only in something a normalising step (strip, case folding) would remove; each registers a
# consumer of its own - the real SP must never be answered there
_COLLECT = "https://collector.example.net/acs"
LAYOUTS["L3"] = dict(LAYOUTS["L1"])
for _i, _eid in enumerate([fed.SP_EID + "\u00a0", fed.SP_EID + " ", "\u2003" + fed.SP_EID, fed.SP_EID.replace("https://sp.", "https://SP."), fed.SP_EID + "/"]):
    LAYOUTS["L3"][_eid] = {"acs": [(POST, "%s/%d" % (_COLLECT, _i), 1, True), (REDIR, "%s/%d/r" % (_COLLECT, _i), 2, None)], "slo": [(POST, "%s/%d/slo" % (_COLLECT, _i))],
                           "mni": [(SOAP, "%s/%d/mni" % (_COLLECT, _i))]}
# the SPs' SAML 1.x role descriptors (same entity, same role element, another protocol) register consumers of their own, with the same indexes
# as the SAML 2.0 ones: a SAML 2.0 request is never answered there
for _ln, _first in (("L5", False), ("L6", True)):
    LAYOUTS[_ln] = {}
    for _eid, _d in LAYOUTS["L1"].items():
        _h = _eid.rsplit("/", 1)[0]
        LAYOUTS[_ln][_eid] = dict(_d, saml11={"first": _first, "sp": {"keys": [("signing", 9)], "acs": [(POST, _h + "/legacy/acs", 1, True), (REDIR, _h + "/legacy/acs-r", 3, None),
                                                                                                        (POST, _h + "/legacy/acs9", 9, None)],
                                                                       "slo": [(REDIR, _h + "/legacy/slo"), (POST, _h + "/legacy/slo-post")], "mni": [(SOAP, _h + "/legacy/mni")]}})
# SPs whose metadata has expired - only just, and written in a zone far from UTC: as good as absent
import time as _time
for _ln, _zone in (("L7", "+02:00"), ("L8", "+14:00"), ("L9", "Z"), ("L10", "-05:00")):
    LAYOUTS[_ln] = {fed.SP_EID: dict(LAYOUTS["L1"][fed.SP_EID]), fed.SP2_EID: dict(LAYOUTS["L1"][fed.SP2_EID], expired=_zone)}
# the endpoint flagged isDefault sits under another binding than the first one listed / the first one the IdP prefers (hand-written metadata:
# the package's own generator never writes isDefault)
_SP2 = LAYOUTS["L1"][fed.SP2_EID]
LAYOUTS["L11"] = {fed.SP_EID: dict(LAYOUTS["L1"][fed.SP_EID], acs=[(POST, "https://sp.example.org/acs/post", 1, None), (REDIR, "https://sp.example.org/acs/redirect", 2, None),
                                                                      (ART, "https://sp.example.org/acs/artifact", 3, True)]), fed.SP2_EID: _SP2}
LAYOUTS["L12"] = {fed.SP_EID: dict(LAYOUTS["L1"][fed.SP_EID], acs=[(POST, "https://sp.example.org/acs/post", 1, False), (REDIR, "https://sp.example.org/acs/redirect", 2, True)]),
                  fed.SP2_EID: _SP2}
LAYOUTS["L13"] = {fed.SP_EID: dict(LAYOUTS["L1"][fed.SP_EID], acs=[(ART, "https://sp.example.org/acs/artifact", 1, None), (REDIR, "https://sp.example.org/acs/redirect", 2, None),
                                                                      (POST, "https://sp.example.org/acs/post", 3, True)]), fed.SP2_EID: _SP2}
# ... and the same with the look-alikes in front of the real SP
LAYOUTS["L4"] = dict([(k, v) for k, v in LAYOUTS["L3"].items() if k not in LAYOUTS["L1"]] + list(LAYOUTS["L1"].items()))


def near_misses(url):
    out = {"case": url.replace("https://sp.", "https://SP.") if "https://sp." in url else url.upper(),
           "trailing-slash": url + "/", "extra-query": url + ("&" if "?" in url else "?") + "x=1", "prefix": url[:-1],
           "suffix": url + "x", "http": url.replace("https://", "http://"), "userinfo": url.replace("https://", "https://sp.example.org@evil.example.net/"),
           "fragment": url + "#f", "whitespace": url + " "}
    return out


def gen_cases(tier, seed):
    rng = random.Random(seed)
    cases = []
    for lname, layout in sorted(LAYOUTS.items()):
        for issuer in (fed.SP_EID, fed.SP2_EID, UNKNOWN):
            own = layout.get(issuer, {"acs": []})
            other = layout[fed.SP2_EID if issuer != fed.SP2_EID else fed.SP_EID]
            # ("empty": the attribute is there and names no registered address - a supplied address like any other)
            urls = [("none", None), ("unregistered", "https://attacker.example.net/acs"), ("empty", "")]
            for b, loc, idx, dflt in own["acs"]:
                urls.append(("registered:%s" % idx, loc))
            for b, loc, idx, dflt in other["acs"][:2]:
                urls.append(("other-sp:%s" % idx, loc))
            if own["acs"]:
                base = own["acs"][0][1]
                for k, v in near_misses(base).items():
                    urls.append(("near-miss:" + k, v))
            indexes = [("none", None)] + [("known:%s" % i, str(i)) for b, l, i, d in own["acs"]] + [("unknown", "99"), ("garbage", "abc"), ("negative", "-1"), ("empty", "")]
            bindings = [("none", None), ("post", POST), ("redirect", REDIR), ("artifact", ART), ("soap", SOAP), ("paos", PAOS)]
            for (uk, url), (ik, idx), (bk, pb) in itertools.product(urls, indexes, bindings):
                if url is not None and idx is not None and not (uk in ("unregistered", "near-miss:trailing-slash", "registered:1", "other-sp:1") and bk in ("none", "post")):
                    continue     # mutually exclusive in the schema - but nothing refuses the pair on the way in, so a few combinations are kept
                if tier == "quick" and uk.startswith("near-miss") and bk not in ("none", "post"):
                    continue
                cid = "%s-authn-%s-u:%s-i:%s-b:%s" % (lname, issuer.split("//")[1].split(".")[0], uk, ik, bk)
                cases.append({"id": cid, "sig": [lname, "authn", issuer, uk.split(":")[0] + (":" + uk.split(":")[1] if uk.startswith("near") else ""), ik.split(":")[0], bk],
                              "layout": lname, "type": "authn", "issuer": issuer, "url": url, "index": idx, "pb": pb, "uk": uk, "ik": ik})
            # the same question through the whole inbound path: the request as text, unsigned or signed by the requester, parsed by an IdP
            # with / without want_authn_requests_signed, and response_args() on what the parser returned
            for (uk, url) in urls:
                if tier == "quick" and uk.startswith("near-miss") and uk not in ("near-miss:trailing-slash", "near-miss:case"):
                    continue
                for signed, idpopt in ((0, "default"), (1, "default"), (1, "want-signed"), (0, "want-signed")):
                    for (ik, idx) in ((("none", None),) if url is not None else (("none", None), ("unknown", "99"))):
                        cid = "%s-wire-%s-u:%s-i:%s-s%d-%s" % (lname, issuer.split("//")[1].split(".")[0], uk, ik, signed, idpopt)
                        cases.append({"id": cid, "sig": [lname, "wire", issuer, uk.split(":")[0], ik, signed, idpopt], "layout": lname, "type": "authn", "issuer": issuer,
                                      "url": url, "index": idx, "pb": None, "uk": uk, "ik": ik, "wire": 1, "signed": signed, "idpopt": idpopt})
            for typ in ("logout", "mni"):
                for bk, bl in (("default", None), ("post", [POST]), ("redirect", [REDIR]), ("soap", [SOAP]), ("post+redirect", [POST, REDIR]), ("artifact", [ART])):
                    cid = "%s-%s-%s-b:%s" % (lname, typ, issuer.split("//")[1].split(".")[0], bk)
                    cases.append({"id": cid, "sig": [lname, typ, issuer, bk], "layout": lname, "type": typ, "issuer": issuer, "bindings": bl})
    for k in range(8 if tier == "quick" else 600):
        cases.append({"id": "refresh-%d" % k, "sig": ["refresh", k], "type": "refresh", "k": k})
    return cases


def setup_worker(ctx):
    ctx.fedcache = fed.Cache()


def run_refresh(case, ctx):
    """one long-lived Server whose SP metadata file is replaced and loaded again: answers given before the refresh must not survive it"""
    import os
    from saml2_tophat import samlp, saml
    rng = random.Random("%s/%s" % (ctx.seed, case["id"]))
    path = os.path.join(ctx.scratch, "c09-refresh-%s.xml" % case["k"])

    def write(layout):
        ents = [{"eid": eid, "sp": {"keys": [("signing", 1 if eid == fed.SP_EID else 3)], "acs": d["acs"], "slo": d["slo"], "mni": d["mni"]}} for eid, d in layout.items()]
        with open(path, "w") as f:
            f.write(mdgen.entities(ents))

    gen0 = {k: {kk: list(vv) for kk, vv in v.items()} for k, v in LAYOUTS["L1"].items()}
    write(gen0)
    idc = fed.idp_conf()
    idc["metadata"] = {"local": [path]}
    from saml2_tophat.config import IdPConfig
    from saml2_tophat.server import Server
    import copy
    idp = Server(config=IdPConfig().load(copy.deepcopy(idc)))
    viol, counters = [], {"refresh_steps": 0, "answered": 0, "refused": 0}

    def ask(layout, issuer, url, index, pb, when):
        req = samlp.AuthnRequest(id="id-r", version="2.0", issue_instant="2020-01-01T00:00:00Z", issuer=saml.Issuer(text=issuer),
                                 assertion_consumer_service_url=url, assertion_consumer_service_index=index, protocol_binding=pb)
        try:
            info = idp.response_args(req)
        except Exception as e:
            info = None
        counters["refresh_steps"] += 1
        counters["answered" if info else "refused"] += 1
        regd = layout.get(issuer, {}).get("acs", [])
        desc = "%s: authn issuer=%s url=%r index=%r binding=%s" % (when, issuer, url, index, (pb or "-").rsplit(":", 1)[-1])
        if info is None:
            return
        b, d = info.get("binding"), info.get("destination")
        locs = [e[1] for e in regd if e[0] == b]
        if issuer not in layout:
            viol.append({"key": "C09/destination-for-deregistered-requester-after-refresh", "what": desc + " -> %s" % d})
        elif d not in locs:
            viol.append({"key": "C09/withdrawn-endpoint-answered-after-refresh", "what": desc + " -> %r; currently registered for %s: %r" % (d, b, locs)})
        elif url and d != url:
            viol.append({"key": "C09/supplied-url-replaced-instead-of-refused", "what": desc + " -> %r" % d})
        elif index is not None and not url and d not in [e[1] for e in regd if e[0] == b and str(e[2]) == index]:
            viol.append({"key": "C09/withdrawn-index-answered-after-refresh", "what": desc + " -> %r" % d})

    def probes(layout_before):
        out = []
        for issuer, d in layout_before.items():
            for b, loc, idx, dflt in d["acs"]:
                out.append((issuer, loc, None, None))
                out.append((issuer, None, str(idx), None))
                out.append((issuer, loc, None, b))
            out.append((issuer, None, None, None))
        return out

    current = gen0
    for g in range(3):
        ps = probes(current)
        for (issuer, url, idx, pb) in ps:                     # prime every lookup on the current generation
            ask(current, issuer, url, idx, pb, "generation %d" % g)
        nxt = {k: {kk: list(vv) for kk, vv in v.items()} for k, v in current.items()}
        change = rng.choice(["withdraw-endpoint", "deregister-sp", "move-endpoint", "reindex"])
        victim = rng.choice(sorted(nxt))
        if change == "deregister-sp" and len(nxt) > 1:
            del nxt[victim]
        elif change == "withdraw-endpoint" and len(nxt[victim]["acs"]) > 1:
            nxt[victim]["acs"].pop(rng.randrange(1, len(nxt[victim]["acs"])))
        elif change == "move-endpoint":
            b, loc, idx, dflt = nxt[victim]["acs"][0]
            nxt[victim]["acs"][0] = (b, loc + "/v%d" % (g + 2), idx, dflt)
        else:
            nxt[victim]["acs"] = [(b, loc, idx + 10, dflt) for b, loc, idx, dflt in nxt[victim]["acs"]]
        write(nxt)
        idp.metadata.load("local", path)
        for (issuer, url, idx, pb) in ps:                     # the same requests, now against the refreshed metadata
            ask(nxt, issuer, url, idx, pb, "after refresh %d (%s %s)" % (g + 1, change, victim.split("//")[1].split(".")[0]))
        current = nxt
        if viol:
            break
    os.unlink(path)
    uniq = {}
    for v in viol:
        uniq.setdefault(v["key"], v)
    return {"outcome": "violations" if viol else "held", "nontrivial": counters["answered"] > 0, "violations": list(uniq.values()), "counters": counters,
            "evals": counters["refresh_steps"], "sigs": [["refresh", case["k"]]]}


def _idp(ctx, lname, idpopt="default"):
    def build():
        mds = []
        for eid, d in LAYOUTS[lname].items():
            ent = {"eid": eid, "sp": {"keys": [("signing", 1 if eid == fed.SP_EID else 3)], "acs": d["acs"], "slo": d["slo"], "mni": d["mni"]}}
            if d.get("expired"):
                # half an hour ago, as local time of that zone
                z = d["expired"]
                t = _time.time() - 1800
                if z != "Z":
                    t += (1 if z[0] == "+" else -1) * (int(z[1:3]) * 3600 + int(z[4:6]) * 60)
                ent["valid_until"] = _time.strftime("%Y-%m-%dT%H:%M:%S", _time.gmtime(t)) + z
            if d.get("saml11"):
                ent["saml11"] = d["saml11"]
            mds.append(mdgen.entity(ent))
        idc = fed.idp_conf()
        if idpopt == "want-signed":
            idc["service"]["idp"]["want_authn_requests_signed"] = True
        return fed.make_idp(idc, mds)
    return ctx.fedcache.get("idp", [lname, idpopt], build)


def run_case(case, ctx):
    from saml2_tophat import samlp, saml
    if case.get("type") == "refresh":
        return run_refresh(case, ctx)
    idp = _idp(ctx, case["layout"], case.get("idpopt", "default"))
    layout = LAYOUTS[case["layout"]]
    issuer = saml.Issuer(text=case["issuer"])
    viol = []
    if case["type"] == "authn":
        req = samlp.AuthnRequest(id="id-req-9", version="2.0", issue_instant="2020-01-01T00:00:00Z", issuer=issuer,
                                 assertion_consumer_service_url=case["url"], assertion_consumer_service_index=case["index"],
                                 protocol_binding=case["pb"])
        service = "acs"
        kwargs = {}
    elif case["type"] == "logout":
        req = samlp.LogoutRequest(id="id-req-9", version="2.0", issue_instant="2020-01-01T00:00:00Z", issuer=issuer,
                                  name_id=saml.NameID(text="abc"))
        service = "slo"
        kwargs = {"bindings": case["bindings"]} if case["bindings"] else {}
    else:
        req = samlp.ManageNameIDRequest(id="id-req-9", version="2.0", issue_instant="2020-01-01T00:00:00Z", issuer=issuer,
                                        name_id=saml.NameID(text="abc"))
        service = "mni"
        kwargs = {"bindings": case["bindings"]} if case["bindings"] else {}
    wire_note = ""
    try:
        if case.get("wire"):
            import base64
            from vlib import xmlkit as xk
            from saml2_tophat.time_util import instant
            req.destination = fed.SSO_POST
            req.issue_instant = instant()
            text = req.to_string().decode("utf-8")
            if case["signed"]:
                ki = {fed.SP_EID: 1, fed.SP2_EID: 3}.get(case["issuer"], 9)
                text = xk.sign_element(text, xk.SAMLP, "AuthnRequest", "id-req-9", fed.key(ki)[0], "rsa-sha256", fed.cert_body(ki))
            parsed = idp.parse_authn_request(base64.b64encode(text.encode("utf-8")).decode(), POST)
            if parsed is None or getattr(parsed, "message", None) is None:
                raise ValueError("request not handed to the application")
            req = parsed.message
            wire_note = " [as text, %s, idp %s]" % ("signed by the requester" if case["signed"] else "unsigned", case["idpopt"])
        info = idp.response_args(req, **kwargs)
        exc = None
    except Exception as e:
        info, exc = None, e
    known = case["issuer"] in layout and not layout[case["issuer"]].get("expired")
    registered = layout.get(case["issuer"], {}).get(service, []) if known else []
    reg_by_binding = {}
    for ent in registered:
        reg_by_binding.setdefault(ent[0], []).append(ent)
    desc = "%s %s issuer=%s url=%r index=%r protocol_binding=%s bindings=%s" % (
        case["layout"], case["type"], case["issuer"], case.get("url"), case.get("index"), (case.get("pb") or "-").split(":")[-1],
        [b.split(":")[-1] for b in (case.get("bindings") or [])]) + wire_note
    if info is None:
        outcome = "refused:" + type(exc).__name__
    else:
        b, d = info.get("binding"), info.get("destination")
        outcome = "answer:%s" % (b or "-").split(":")[-1]
        if b == SOAP and d == "" and case.get("bindings") == [SOAP]:
            outcome = "answer:soap-back-channel"
        elif not known:
            viol.append({"key": "C09/destination-for-unknown-requester", "what": desc + (" (its metadata expired half an hour ago, validUntil written in zone %s)" % layout[case["issuer"]]["expired"]
                                                                                            if case["issuer"] in layout else "") + " -> %s %s" % (b, d)})
        else:
            locs = [e[1] for e in reg_by_binding.get(b, [])]
            if d not in locs:
                key = "C09/destination-not-registered-for-requester-and-binding"
                if case.get("url") is not None and d == case["url"]:
                    key = "C09/answered-to-supplied-unregistered-address"
                viol.append({"key": key, "what": desc + " -> binding %s destination %r; registered for that binding: %r" % (b, d, locs)})
            elif case.get("url") is not None and d != case["url"]:
                viol.append({"key": "C09/supplied-url-replaced-instead-of-refused", "what": desc + " -> %r" % d})
            elif case.get("index") is not None and case.get("url") is None:
                want = [e[1] for e in reg_by_binding.get(b, []) if str(e[2]) == case["index"]]
                if d not in want:
                    known = any(str(e[2]) == case["index"] for e in registered)
                    key = "C09/supplied-index-not-honoured" if known else "C09/unknown-index-answered-instead-of-refused"
                    viol.append({"key": key, "what": desc + " -> %r; location registered under index %s for %s: %r" % (d, case["index"], b, want)})
    return {"outcome": outcome, "nontrivial": True, "violations": viol, "counters": {"answered": int(info is not None), "refused": int(info is None)},
            "obs": {"desc": desc, "info": {k: str(v)[:80] for k, v in (info or {}).items() if k in ("binding", "destination")}}}


def finalize(cases, results, tier, extras):
    inc = []
    if not any(r.get("counters", {}).get("answered") for r in results):
        inc.append("no request was answered")
    if not any(r.get("counters", {}).get("refused") for r in results):
        inc.append("no request was refused")
    return {"inconclusive": inc, "coverage": {"layouts": sorted(LAYOUTS)}}
