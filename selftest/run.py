#!/usr/bin/env python3
"""Self-test by deliberate breakage (DESIGN.md section 4).

For every patch selftest/patches/<ID>-<name>.patch (and every seeded/<dir>/patch.diff): copy the
working tree of /repo to a scratch directory outside /repo and /verif, apply the patch there, run
`./check <ID> --tier <tier> --no-evidence` with VERIF_REPO pointing at the copy and expect exit
status 1 with a VIOLATION line.  The scratch copy is removed afterwards.  Results are written to
selftest/RESULTS.md.

usage: selftest/run.py [--tier quick|thorough] [--only SUBSTR] [--jobs N]
"""
import argparse
import glob
import json
import os
import shutil
import subprocess
import sys
import tempfile
import time

HERE = os.path.dirname(os.path.abspath(__file__))
VERIF = os.path.dirname(HERE)


def patches():
    out = []
    for p in sorted(glob.glob(os.path.join(HERE, "patches", "*.patch"))):
        name = os.path.basename(p)[:-6]
        out.append((name.split("-")[0], name, p, "selftest"))
    for d in sorted(glob.glob(os.path.join(VERIF, "seeded", "*"))):
        p = os.path.join(d, "patch.diff")
        meta = os.path.join(d, "meta.json")
        if os.path.exists(p) and os.path.exists(meta):
            m = json.load(open(meta))
            for prop in (m.get("checks") or [m.get("property")]):
                # a seeded change that a later repair of /repo made harmless (its own demonstration passes with it applied) must leave the
                # check silent
                out.append((prop, "seeded/" + os.path.basename(d), p, "seeded-neutralised" if m.get("neutralised_by") else "seeded"))
    return out


def run_one(prop, name, patch, tier):
    scr = tempfile.mkdtemp(prefix="pysaml2-selftest-")
    try:
        subprocess.run(["rsync", "-a", "--exclude", ".git", "/repo/", scr + "/repo/"], check=True)
        r = subprocess.run(["patch", "-p1", "--no-backup-if-mismatch", "-i", patch], cwd=scr + "/repo", stdout=subprocess.PIPE, stderr=subprocess.STDOUT)
        if r.returncode != 0:
            return {"prop": prop, "name": name, "verdict": "PATCH-DOES-NOT-APPLY", "detail": r.stdout.decode()[-300:], "wall": 0}
        t0 = time.time()
        env = dict(os.environ, VERIF_REPO=scr + "/repo")
        r = subprocess.run([os.path.join(VERIF, "check"), prop, "--tier", tier, "--no-evidence"], cwd=VERIF, env=env,
                           stdout=subprocess.PIPE, stderr=subprocess.STDOUT, timeout=3600)
        out = r.stdout.decode("utf-8", "replace")
        viol = [l for l in out.splitlines() if l.startswith("VIOLATION")]
        keys = sorted(set(l.split("key=")[1].split(" ")[0] for l in out.splitlines() if l.strip().startswith("key=")))
        verdict = "CAUGHT" if (r.returncode == 1 and viol) else ("INCONCLUSIVE" if r.returncode == 2 else "MISSED")
        return {"prop": prop, "name": name, "verdict": verdict, "rc": r.returncode, "keys": keys[:6], "wall": round(time.time() - t0, 1),
                "tail": out[-400:] if verdict != "CAUGHT" else ""}
    finally:
        shutil.rmtree(scr, ignore_errors=True)


def main():
    ap = argparse.ArgumentParser()
    ap.add_argument("--tier", default="quick")
    ap.add_argument("--only", default="")
    args = ap.parse_args()
    rows = []
    for prop, name, patch, kind in patches():
        if args.only and args.only not in name and args.only != prop:
            continue
        res = run_one(prop, name, patch, args.tier)
        res["kind"] = kind
        if kind == "seeded-neutralised":
            res["verdict"] = {"MISSED": "SILENT-AS-EXPECTED (change made harmless by a later repair)", "CAUGHT": "ALARM-ON-HARMLESS-CHANGE"}.get(res["verdict"], res["verdict"])
        rows.append(res)
        print("%-12s %-60s %-7s %5.1fs %s" % (res["verdict"], name, prop, res["wall"], ",".join(res.get("keys", []))[:120]), flush=True)
        if res.get("tail"):
            print("      " + res["tail"].replace("\n", "\n      "))
    if not args.only:
        with open(os.path.join(HERE, "RESULTS.md"), "w") as f:
            f.write("# Self-test: deliberate breakage vs. checks (tier %s)\n\n" % args.tier)
            f.write("| patch | check | verdict | wall s | violation keys |\n|---|---|---|---|---|\n")
            for r in rows:
                f.write("| %s | %s | %s | %s | %s |\n" % (r["name"], r["prop"], r["verdict"], r["wall"], ", ".join(r.get("keys", []))))
    return 0 if all(r["verdict"] == "CAUGHT" or r["verdict"].startswith("SILENT-AS-EXPECTED") for r in rows) else 1


if __name__ == "__main__":
    sys.exit(main())
