#!/usr/bin/env python3
"""Self-test by deliberate breakage (DESIGN.md section 4).

For every patch selftest/patches/<ID>-<name>.patch (and every seeded/<dir>/patch.diff): copy the
working tree of /repo to a scratch directory outside /repo and /verif, apply the patch there, run
`./check <ID> --tier <tier> --no-evidence` with VERIF_REPO pointing at the copy and expect exit
status 1 with a VIOLATION line.  The scratch copy is removed afterwards.  Results are written to
selftest/RESULTS.md.

usage: selftest/run.py [--tier quick|thorough] [--only SUBSTR] [--jobs N] [--missing [--older-than COMMIT]]
Verdicts are kept in selftest/results.json and merged over runs; selftest/RESULTS.md is rendered from it.
"""
import argparse
import glob
import json
import os
import shutil
import subprocess
import sys
import tempfile
import time

HERE = os.path.dirname(os.path.abspath(__file__))
VERIF = os.path.dirname(HERE)


def patches():
    out = []
    for p in sorted(glob.glob(os.path.join(HERE, "patches", "*.patch"))):
        name = os.path.basename(p)[:-6]
        out.append((name.split("-")[0], name, p, "selftest"))
    for d in sorted(glob.glob(os.path.join(VERIF, "seeded", "*"))):
        p = os.path.join(d, "patch.diff")
        meta = os.path.join(d, "meta.json")
        if os.path.exists(p) and os.path.exists(meta):
            m = json.load(open(meta))
            for prop in (m.get("checks") or [m.get("property")]):
                # a seeded change that a later repair of /repo made harmless (its own demonstration passes with it applied) must leave the
                # check silent
                out.append((prop, "seeded/" + os.path.basename(d), p, "seeded-neutralised" if m.get("neutralised_by") else "seeded"))
    return out


def run_one(prop, name, patch, tier):
    scr = tempfile.mkdtemp(prefix="pysaml2-selftest-")
    try:
        subprocess.run(["rsync", "-a", "--exclude", ".git", "/repo/", scr + "/repo/"], check=True)
        r = subprocess.run(["patch", "-p1", "--no-backup-if-mismatch", "-i", patch], cwd=scr + "/repo", stdout=subprocess.PIPE, stderr=subprocess.STDOUT)
        if r.returncode != 0:
            return {"prop": prop, "name": name, "verdict": "PATCH-DOES-NOT-APPLY", "detail": r.stdout.decode()[-300:], "wall": 0}
        t0 = time.time()
        env = dict(os.environ, VERIF_REPO=scr + "/repo")
        r = subprocess.run([os.path.join(VERIF, "check"), prop, "--tier", tier, "--no-evidence"], cwd=VERIF, env=env,
                           stdout=subprocess.PIPE, stderr=subprocess.STDOUT, timeout=3600)
        out = r.stdout.decode("utf-8", "replace")
        viol = [l for l in out.splitlines() if l.startswith("VIOLATION")]
        keys = sorted(set(l.split("key=")[1].split(" ")[0] for l in out.splitlines() if l.strip().startswith("key=")))
        verdict = "CAUGHT" if (r.returncode == 1 and viol) else ("INCONCLUSIVE" if r.returncode == 2 else "MISSED")
        return {"prop": prop, "name": name, "verdict": verdict, "rc": r.returncode, "keys": keys[:6], "wall": round(time.time() - t0, 1),
                "tail": out[-400:] if verdict != "CAUGHT" else ""}
    finally:
        shutil.rmtree(scr, ignore_errors=True)


STATE = os.path.join(HERE, "results.json")


def _head(path):
    try:
        return subprocess.run(["git", "-C", path, "log", "-1", "--format=%h"], stdout=subprocess.PIPE).stdout.decode().strip()
    except Exception:
        return "?"


def load_state():
    try:
        with open(STATE) as f:
            return json.load(f)
    except (OSError, ValueError):
        return {"rows": {}}


def save_state(state, tier):
    """results.json holds the last verdict of every entry, with the commits of /verif and /repo it was obtained on; RESULTS.md is rendered from
    it, so a partial run (--only) updates its rows and leaves the others as they were."""
    wanted = set("%s|%s" % (name, prop) for prop, name, _p, _k in patches())
    state["rows"] = dict((k, v) for k, v in state["rows"].items() if k in wanted)
    with open(STATE, "w") as f:
        json.dump(state, f, indent=1, sort_keys=True)
    with open(os.path.join(HERE, "RESULTS.md"), "w") as f:
        f.write("# Self-test: deliberate breakage vs. checks (tier %s)\n\n" % tier)
        f.write("One row per deliberately broken copy of /repo (own patches under selftest/patches, changes from independent sub-agents under seeded/). "
                "Rows are merged over runs: the last two columns say on which commit of /verif (checks) and of /repo the verdict was obtained.\n\n")
        rows = [state["rows"][k] for k in sorted(state["rows"])]
        n_ok = len([r for r in rows if r["verdict"] == "CAUGHT" or r["verdict"].startswith("SILENT-AS-EXPECTED")])
        f.write("%d entries, %d as expected, %d known patches without a verdict yet.\n\n" % (len(rows), n_ok, len(wanted) - len(rows)))
        f.write("| patch | check | verdict | wall s | violation keys | /verif | /repo |\n|---|---|---|---|---|---|---|\n")
        for r in rows:
            f.write("| %s | %s | %s | %s | %s | %s | %s |\n" % (r["name"], r["prop"], r["verdict"], r["wall"], ", ".join(r.get("keys", [])), r.get("verif_commit", "?"),
                                                           r.get("repo_commit", "?")))


def main():
    ap = argparse.ArgumentParser()
    ap.add_argument("--tier", default="quick")
    ap.add_argument("--only", default="")
    ap.add_argument("--jobs", type=int, default=1, help="entries run side by side (each check shards itself over the cores as well)")
    ap.add_argument("--missing", action="store_true", help="only the entries results.json has no verdict for on the current commit of /verif")
    ap.add_argument("--older-than", default="", help="with --missing: also redo entries whose verdict was obtained on this /verif commit or before (a commit-ish)")
    args = ap.parse_args()
    state = load_state()
    vh, rh = _head(VERIF), _head("/repo")
    todo = []
    stale = set()
    if args.older_than:
        out = subprocess.run(["git", "-C", VERIF, "log", "--format=%h", args.older_than], stdout=subprocess.PIPE).stdout.decode().split()
        stale = set(out)
    for prop, name, patch, kind in patches():
        if args.only and args.only not in name and args.only != prop:
            continue
        if args.missing:
            have = state["rows"].get("%s|%s" % (name, prop))
            if have and have.get("verif_commit") not in stale and (have["verdict"] == "CAUGHT" or have["verdict"].startswith("SILENT")):
                continue
        todo.append((prop, name, patch, kind))
    rows = []
    import concurrent.futures

    def one(item):
        prop, name, patch, kind = item
        res = run_one(prop, name, patch, args.tier)
        res["kind"] = kind
        if kind == "seeded-neutralised":
            res["verdict"] = {"MISSED": "SILENT-AS-EXPECTED (change made harmless by a later repair)", "CAUGHT": "ALARM-ON-HARMLESS-CHANGE"}.get(res["verdict"], res["verdict"])
        res["verif_commit"], res["repo_commit"] = vh, rh
        return res
    with concurrent.futures.ThreadPoolExecutor(max_workers=max(1, args.jobs)) as ex:
        for res in ex.map(one, todo):
            rows.append(res)
            print("%-12s %-60s %-7s %5.1fs %s" % (res["verdict"], res["name"], res["prop"], res["wall"], ",".join(res.get("keys", []))[:120]), flush=True)
            if res.get("tail"):
                print("      " + res["tail"].replace("\n", "\n      "))
            state["rows"]["%s|%s" % (res["name"], res["prop"])] = dict((k, v) for k, v in res.items() if k != "tail")
            save_state(state, args.tier)
    save_state(state, args.tier)
    return 0 if all(r["verdict"] == "CAUGHT" or r["verdict"].startswith("SILENT-AS-EXPECTED") for r in rows) else 1


if __name__ == "__main__":
    sys.exit(main())
